/-
  Helpers for the soundness theorems of the remaining constructors of sympde/calculus/core.py
  (Props/C02b.lean): numbers, the abstract linear functional `LinFun` behind Curl / Rot /
  Hessian / Laplace / Div, and the shared sum / constant-factor / leaf branches.
-/
import SympdeModel.Props.C02
import SympdeModel.Lemmas.ExprEq
namespace Sympde
open E Calc
open DRing (sumN sumN_add sumN_mul_left sumN_congr sumN_zero)

variable {K : Type} [CommRing K] [Algebra ℚ K]

/-! ### numbers -/

theorem isNumber_Scal (d : Nat) (e : E) (h : PD.isNumber e = true) : Scal d e = true := by
  induction e using E.rec
    (motive_2 := fun as => ∀ a ∈ as, PD.isNumber a = true → Scal d a = true) with
  | num p q => simp [Scal]
  | cst s => simp [Scal]
  | add as ih =>
    simp only [PD.isNumber, allNumber_iff, List.all_eq_true] at h
    simp only [Scal, ScalList_iff, List.all_eq_true]
    exact fun a ha => ih a ha (h a ha)
  | mul as ih =>
    simp only [PD.isNumber, allNumber_iff, List.all_eq_true] at h
    simp only [Scal, ScalList_iff, List.all_eq_true]
    exact fun a ha => ih a ha (h a ha)
  | pow b e ihb ihe =>
    simp only [PD.isNumber, Bool.and_eq_true] at h
    simp only [Scal, Bool.and_eq_true]
    exact ⟨ihb h.1, ihe h.2⟩
  | fn f a iha =>
    simp only [PD.isNumber] at h
    simp only [Scal]
    exact iha h
  | nil => cases ‹_ ∈ []›
  | cons a as iha ihas =>
    rename_i x hx hn
    rcases List.mem_cons.mp hx with rfl | hx
    · exact iha hn
    · exact ihas x hx hn
  | _ => simp [PD.isNumber] at h

theorem Scal_mulOf (d : Nat) (l : List E) (h : ∀ a ∈ l, Scal d a = true) :
    Scal d (Calc.mulOf l) = true := by
  match l, h with
  | [], _ => simp [Calc.mulOf, PD.mulOf, Scal, E.one]
  | [a], h => simpa [Calc.mulOf, PD.mulOf] using h a (by simp)
  | a :: b :: rest, h =>
    simp only [Calc.mulOf, PD.mulOf, Scal, ScalList_iff, List.all_eq_true]
    exact h

theorem Scal_addOf (d : Nat) (l : List E) (h : ∀ a ∈ l, Scal d a = true) :
    Scal d (addOf l) = true := by
  match l, h with
  | [], _ => simp [addOf, Scal, E.zero]
  | [a], h => simpa [addOf] using h a (by simp)
  | a :: b :: rest, h =>
    simp only [addOf, Scal, ScalList_iff, List.all_eq_true]
    exact h

theorem NonDegG_addOf (S : DRing K) (d : Nat) (lg : Bool) (l : List E)
    (h : ∀ a ∈ l, NonDegG S d lg a) : NonDegG S d lg (addOf l) := by
  match l, h with
  | [], _ => simp [addOf, NonDegG, E.zero]
  | [a], h => simpa [addOf] using h a (by simp)
  | a :: b :: rest, h =>
    simp only [addOf, NonDegG]
    exact NonDegGList_of_mem S d lg _ h

theorem NonDegG_mulOf (S : DRing K) (d : Nat) (lg : Bool) (l : List E)
    (h : ∀ a ∈ l, NonDegG S d lg a) : NonDegG S d lg (Calc.mulOf l) := by
  match l, h with
  | [], _ => simp [Calc.mulOf, PD.mulOf, NonDegG, E.one]
  | [a], h => simpa [Calc.mulOf, PD.mulOf] using h a (by simp)
  | a :: b :: rest, h =>
    simp only [Calc.mulOf, PD.mulOf, NonDegG]
    exact NonDegGList_of_mem S d lg _ h

theorem isNumber_mulOf (l : List E) (h : ∀ a ∈ l, PD.isNumber a = true) :
    PD.isNumber (Calc.mulOf l) = true := by
  match l, h with
  | [], _ => simp [Calc.mulOf, PD.mulOf, PD.isNumber, E.one]
  | [a], h => simpa [Calc.mulOf, PD.mulOf] using h a (by simp)
  | a :: b :: rest, h =>
    simp only [Calc.mulOf, PD.mulOf, PD.isNumber, allNumber_iff, List.all_eq_true]
    exact h

/-- numbers denote index-free values -/
theorem isNumber_free (S : DRing K) (d : Nat) (lg : Bool) (e : E) (h : PD.isNumber e = true) :
    ∀ i j, denG S d lg e i j = denG S d lg e 0 0 :=
  (Scal_spec S d lg e (isNumber_Scal d e h)).2

theorem isNumber_rank (d : Nat) (e : E) (h : PD.isNumber e = true) : rank d e = 0 := by
  induction e using E.rec
    (motive_2 := fun as => ∀ a ∈ as, PD.isNumber a = true → rank d a = 0) with
  | num p q => simp [rank]
  | cst s => simp [rank]
  | add as ih =>
    simp only [PD.isNumber, allNumber_iff, List.all_eq_true] at h
    cases as with
    | nil => simp [rank, rankHead]
    | cons a as => simp only [rank, rankHead]; exact ih a (by simp) (h a (by simp))
  | mul as ih =>
    simp only [PD.isNumber, allNumber_iff, List.all_eq_true] at h
    simp only [rank]
    exact rankMax_zero d as (fun a ha => ih a ha (h a ha))
  | pow b e _ _ => simp [rank]
  | fn f a _ => simp [rank]
  | nil => cases ‹_ ∈ []›
  | cons a as iha ihas =>
    rename_i x hx hn
    rcases List.mem_cons.mp hx with rfl | hx
    · exact iha hn
    · exact ihas x hx hn
  | _ => simp [PD.isNumber] at h

/-! ### linear functionals of the component function -/

/-- what Curl, Rot, Hessian, Laplace (and Div at a fixed rank) do to the component function of
    their argument: additive, homogeneous for constants, zero on constants -/
structure LinFun (S : DRing K) (lg : Bool) (L : (Nat → Nat → K) → Nat → Nat → K) : Prop where
  add : ∀ f g i j, L (fun a b => f a b + g a b) i j = L f i j + L g i j
  smul : ∀ (c : K), (∀ k, Di S lg k c = 0) → ∀ f i j, L (fun a b => c * f a b) i j = c * L f i j
  const : ∀ f, (∀ k a b, Di S lg k (f a b) = 0) → ∀ i j, L f i j = 0

/-- `op1 o a` denotes `L` applied to the component function of `a` -/
def OpIs (S : DRing K) (d : Nat) (lg : Bool) (o : Op1) (L : (Nat → Nat → K) → Nat → Nat → K)
    (a : E) : Prop :=
  ∀ i j, denG S d lg (op1 o a) i j = L (denG S d lg a) i j

theorem Di_coord (S : DRing K) (lg : Bool) (k : Nat) (x : K) (h : ∀ c, S.D c x = 0) :
    Di S lg k x = 0 := h _

theorem LinFun.zero {S : DRing K} {lg : Bool} {L : (Nat → Nat → K) → Nat → Nat → K}
    (hL : LinFun S lg L) (i j : Nat) : L (fun _ _ => 0) i j = 0 :=
  hL.const _ (fun k _ _ => Di_zero S lg k) i j

theorem denG_add_fun (S : DRing K) (d : Nat) (lg : Bool) (as : List E) :
    denG S d lg (add as) = fun i j => denGSum S d lg as i j := by
  funext i j; simp only [denG]

theorem denG_mul_fun (S : DRing K) (d : Nat) (lg : Bool) (as : List E) :
    denG S d lg (mul as) = fun i j => denGProd S d lg as i j := by
  funext i j; simp only [denG]

theorem LinFun.sum {S : DRing K} {lg : Bool} {L : (Nat → Nat → K) → Nat → Nat → K}
    (hL : LinFun S lg L) (d : Nat) (as : List E) (i j : Nat) :
    L (fun a b => denGSum S d lg as a b) i j
      = (as.map (fun x => L (denG S d lg x) i j)).sum := by
  induction as with
  | nil => simp only [denGSum, List.map, List.sum_nil]; exact hL.zero i j
  | cons x xs ih =>
    simp only [denGSum, List.map, List.sum_cons]
    rw [hL.add (fun a b => denG S d lg x a b) (fun a b => denGSum S d lg xs a b), ih]

omit [Algebra ℚ K] in
theorem sum_map_filter {α : Type} (p : α → Bool) (X : α → K) (as : List α) :
    (as.map X).sum = ((as.filter p).map X).sum + ((as.filter (fun a => !p a)).map X).sum := by
  induction as with
  | nil => simp
  | cons a as ih =>
    simp only [List.map, List.sum_cons, List.filter]
    cases hp : p a <;> simp [ih] <;> ring

theorem denG_zero (S : DRing K) (d : Nat) (lg : Bool) (i j : Nat) : denG S d lg E.zero i j = 0 := by
  simp [denG, E.zero]

theorem denG_one (S : DRing K) (d : Nat) (lg : Bool) (i j : Nat) : denG S d lg E.one i j = 1 := by
  simp [denG, E.one]

/-- the result of an operator on a number: zero -/
theorem LinFun.number {S : DRing K} {lg : Bool} {L : (Nat → Nat → K) → Nat → Nat → K}
    (hL : LinFun S lg L) (d : Nat) (e : E) (hn : PD.isNumber e = true) (hnd : NonDegG S d lg e)
    (i j : Nat) : L (denG S d lg e) i j = 0 :=
  hL.const _ (fun _ a b => DG_isNumber S d lg _ e hn hnd a b) i j

/-! ### the branches shared by all `eval` methods -/

/-- `Add` branch -/
def addBranch (o : Op1) (ev : E → Except Err E) (as : List E) : Except Err E :=
  if !hasFList as then (if PD.allNumber as then .ok zero else .ok (op1 o (add as)))
  else do
    let a := as.zip (as.map ev)
    let ra ← seqE ((a.filter (fun p => hasF p.1)).map (·.2))
    let rest := addOf (as.filter (fun x => !hasF x))
    let rb : E := if Calc.isNumber rest then zero else op1 o rest
    .ok (add (ra ++ [rb]))

/-- `Mul` branch of the purely linear operators -/
def mulLin (o : Op1) (as : List E) : Except Err E :=
  if !hasFList as then (if PD.allNumber as then .ok zero else .ok (op1 o (mul as)))
  else .ok (mul [Calc.mulOf (numCoeffs as), op1 o (Calc.mulOf (nonNum as))])

/-- final branch -/
def leafBranch (o : Op1) (e : E) : Except Err E :=
  if !hasF e then (if Calc.isNumber e then .ok zero else .ok (op1 o e)) else atomNode o e

theorem atomNode_ok (o : Op1) (e r : E) (h : atomNode o e = .ok r) : r = op1 o e := by
  unfold atomNode at h
  split at h
  · split at h
    · injection h with h; exact h.symm
    · cases h
  · split at h
    · injection h with h; exact h.symm
    · cases h
  · split at h
    · split at h
      · injection h with h; exact h.symm
      · cases h
    · cases h
  · split at h
    · split at h
      · injection h with h; exact h.symm
      · cases h
    · cases h
  · injection h with h; exact h.symm

theorem leafBranch_sound (S : DRing K) (d : Nat) (lg : Bool) (o : Op1)
    (L : (Nat → Nat → K) → Nat → Nat → K) (hL : LinFun S lg L) (e : E)
    (hop : OpIs S d lg o L e) (hnd : NonDegG S d lg e) (r : E) (h : leafBranch o e = .ok r) :
    ∀ i j, denG S d lg r i j = denG S d lg (op1 o e) i j := by
  intro i j
  unfold leafBranch at h
  split at h
  · split at h
    · rename_i hn
      injection h with h; subst h
      rw [denG_zero, hop i j, hL.number d e hn hnd]
    · injection h with h; subst h; rfl
  · rw [atomNode_ok o e r h]

theorem addBranch_sound (S : DRing K) (d : Nat) (lg : Bool) (o : Op1)
    (L : (Nat → Nat → K) → Nat → Nat → K) (hL : LinFun S lg L)
    (ev : E → Except Err E) (as : List E)
    (hterm : ∀ a ∈ as, OpIs S d lg o L a)
    (hsum : OpIs S d lg o L (add as))
    (hrest : OpIs S d lg o L (addOf (as.filter (fun x => !hasF x))))
    (hnd : NonDegG S d lg (add as))
    (ih : ∀ a ∈ as, ∀ r, ev a = .ok r → ∀ i j, denG S d lg r i j = denG S d lg (op1 o a) i j)
    (r : E) (h : addBranch o ev as = .ok r) :
    ∀ i j, denG S d lg r i j = denG S d lg (op1 o (add as)) i j := by
  intro i j
  have hnd' : ∀ a ∈ as, NonDegG S d lg a :=
    fun a ha => NonDegGList_mem S d lg as (by simpa [NonDegG] using hnd) a ha
  unfold addBranch at h
  split at h
  · split at h
    · rename_i hnum
      injection h with h; subst h
      rw [denG_zero, hsum i j, hL.number d (add as) (by simpa [PD.isNumber] using hnum) hnd]
    · injection h with h; subst h; rfl
  · simp only [bind, Except.bind] at h
    split at h
    · cases h
    · rename_i ra hra
      injection h with h; subst h
      have hsumE := seqE_sound S d lg i j (fun a => L (denG S d lg a) i j)
        ((as.zip (as.map ev)).filter (fun p => hasF p.1)) (by
          intro p hp r hr
          have hp' := (List.mem_filter.mp hp).1
          have hm := mem_zip_map ev as p hp'
          rw [hm.2] at hr
          rw [ih p.1 hm.1 r hr i j, hterm p.1 hm.1 i j]) ra hra
      rw [sum_filter_zip_map hasF ev (fun a => L (denG S d lg a) i j) as] at hsumE
      rw [hsum i j, denG_add_fun S d lg as, hL.sum d as i j,
        sum_map_filter hasF (fun x => L (denG S d lg x) i j) as]
      simp only [denG]
      rw [denGSum_append, hsumE]
      congr 1
      -- the function-free remainder
      have hrestL : L (denG S d lg (addOf (as.filter (fun x => !hasF x)))) i j
          = ((as.filter (fun x => !hasF x)).map (fun x => L (denG S d lg x) i j)).sum := by
        have : denG S d lg (addOf (as.filter (fun x => !hasF x)))
            = fun a b => denGSum S d lg (as.filter (fun x => !hasF x)) a b := by
          funext a b; exact denG_addOf S d lg _ a b
        rw [this, hL.sum]
      simp only [denGSum, add_zero]
      rw [← hrestL]
      split
      · rename_i hnum
        have hndr : NonDegG S d lg (addOf (as.filter (fun x => !hasF x))) :=
          NonDegG_addOf S d lg _ (fun a ha => hnd' a (List.mem_filter.mp ha).1)
        rw [denG_zero, hL.number d _ hnum hndr]
      · exact hrest i j

theorem denGProd_numbers_free (S : DRing K) (d : Nat) (lg : Bool) (l : List E)
    (h : ∀ a ∈ l, PD.isNumber a = true) (i j : Nat) :
    denGProd S d lg l i j = denGProd S d lg l 0 0 :=
  denGProd_congr S d lg l i j 0 0 (fun a ha => isNumber_free S d lg a (h a ha) i j)

/-- numeric factors come out of a linear operator -/
theorem pullNum_sound (S : DRing K) (d : Nat) (lg : Bool) (o : Op1)
    (L : (Nat → Nat → K) → Nat → Nat → K) (hL : LinFun S lg L) (as : List E)
    (hprod : OpIs S d lg o L (mul as))
    (hnn : OpIs S d lg o L (Calc.mulOf (nonNum as)))
    (hnd : NonDegG S d lg (mul as)) :
    ∀ i j, denG S d lg (mul [Calc.mulOf (numCoeffs as), op1 o (Calc.mulOf (nonNum as))]) i j
      = denG S d lg (op1 o (mul as)) i j := by
  intro i j
  have hnd' : ∀ a ∈ as, NonDegG S d lg a :=
    fun a ha => NonDegGList_mem S d lg as (by simpa [NonDegG] using hnd) a ha
  have hnums : ∀ a ∈ numCoeffs as, PD.isNumber a = true := fun a ha => (List.mem_filter.mp ha).2
  have hc : ∀ k, Di S lg k (denGProd S d lg (numCoeffs as) 0 0) = 0 := by
    intro k
    exact DG_prod_numbers S d lg _ _ hnums (fun a ha => hnd' a (List.mem_filter.mp ha).1) 0 0
  have hfun : denG S d lg (mul as)
      = fun a b => denGProd S d lg (numCoeffs as) 0 0 * denG S d lg (Calc.mulOf (nonNum as)) a b := by
    funext a b
    simp only [denG, denG_mulOf]
    rw [denGProd_filter S d lg Calc.isNumber as a b]
    change denGProd S d lg (numCoeffs as) a b * denGProd S d lg (nonNum as) a b = _
    rw [denGProd_numbers_free S d lg _ hnums a b]
  rw [hprod i j, hfun, hL.smul _ hc, denG_mul2, denG_mulOf, denGProd_numbers_free S d lg _ hnums i j,
    hnn i j]

theorem mulLin_sound (S : DRing K) (d : Nat) (lg : Bool) (o : Op1)
    (L : (Nat → Nat → K) → Nat → Nat → K) (hL : LinFun S lg L) (as : List E)
    (hprod : OpIs S d lg o L (mul as))
    (hnn : OpIs S d lg o L (Calc.mulOf (nonNum as)))
    (hnd : NonDegG S d lg (mul as))
    (r : E) (h : mulLin o as = .ok r) :
    ∀ i j, denG S d lg r i j = denG S d lg (op1 o (mul as)) i j := by
  intro i j
  unfold mulLin at h
  split at h
  · split at h
    · rename_i hnum
      injection h with h; subst h
      rw [denG_zero, hprod i j, hL.number d (mul as) (by simpa [PD.isNumber] using hnum) hnd]
    · injection h with h; subst h; rfl
  · injection h with h; subst h
    exact pullNum_sound S d lg o L hL as hprod hnn hnd i j

theorem linEvalListE_eq (o : Op1) (as : List E) : linEvalListE o as = as.map (linEval o) := by
  induction as with
  | nil => simp [linEvalListE]
  | cons a as ih => simp [linEvalListE, ih]

theorem curlEvalListE_eq (d : Nat) (as : List E) : curlEvalListE d as = as.map (curlEval d) := by
  induction as with
  | nil => simp [curlEvalListE]
  | cons a as ih => simp [curlEvalListE, ih]

theorem linEval_add (o : Op1) (as : List E) : linEval o (add as) = addBranch o (linEval o) as := by
  simp only [linEval, linEvalListE_eq, addBranch]

theorem linEval_mul (o : Op1) (as : List E) : linEval o (mul as) = mulLin o as := by
  simp only [linEval, mulLin]

theorem curlEval_add (d : Nat) (as : List E) :
    curlEval d (add as) = addBranch .curl (curlEval d) as := by
  simp only [curlEval, curlEvalListE_eq, addBranch]

theorem curlEval_mul (d : Nat) (as : List E) : curlEval d (mul as) = mulLin .curl as := by
  simp only [curlEval, mulLin]

/-! ### the concrete operators as linear functionals -/

def curlSem (S : DRing K) (d : Nat) (lg : Bool) (f : Nat → Nat → K) (i _j : Nat) : K :=
  if d = 3 then
    (match i with
     | 0 => Di S lg 1 (f 2 0) - Di S lg 2 (f 1 0)
     | 1 => Di S lg 2 (f 0 0) - Di S lg 0 (f 2 0)
     | _ => Di S lg 0 (f 1 0) - Di S lg 1 (f 0 0))
  else Di S lg 0 (f 1 0) - Di S lg 1 (f 0 0)

def rotSem (S : DRing K) (lg : Bool) (f : Nat → Nat → K) (i _j : Nat) : K :=
  match i with
  | 0 => Di S lg 1 (f 0 0)
  | _ => - Di S lg 0 (f 0 0)

def hessSem (S : DRing K) (lg : Bool) (f : Nat → Nat → K) (i j : Nat) : K :=
  Di S lg i (Di S lg j (f 0 0))

def lapSem (S : DRing K) (d : Nat) (lg : Bool) (f : Nat → Nat → K) (i j : Nat) : K :=
  sumN d (fun k => Di S lg k (Di S lg k (f i j)))

/-- divergence of a field of tensor rank `r` -/
def divSem (S : DRing K) (d : Nat) (lg : Bool) (r : Nat) (f : Nat → Nat → K) (i _j : Nat) : K :=
  if r = 1 then sumN d (fun k => Di S lg k (f k 0)) else sumN d (fun k => Di S lg k (f k i))

theorem Di_smul (S : DRing K) (lg : Bool) (k : Nat) (c x : K) (hc : Di S lg k c = 0) :
    Di S lg k (c * x) = c * Di S lg k x := by
  rw [Di_mul, hc]; ring

theorem curl_lin (S : DRing K) (d : Nat) (lg : Bool) : LinFun S lg (curlSem S d lg) where
  add := by
    intro f g i j
    unfold curlSem
    split
    · split <;> simp only [Di_add] <;> ring
    · simp only [Di_add]; ring
  smul := by
    intro c hc f i j
    unfold curlSem
    split
    · split <;> simp only [Di_smul S lg _ c _ (hc _)] <;> ring
    · simp only [Di_smul S lg _ c _ (hc _)]; ring
  const := by
    intro f hf i j
    unfold curlSem
    split
    · split <;> simp only [hf] <;> ring
    · simp only [hf]; ring

theorem rot_lin (S : DRing K) (lg : Bool) : LinFun S lg (rotSem S lg) where
  add := by
    intro f g i j
    unfold rotSem
    split <;> simp only [Di_add] <;> ring
  smul := by
    intro c hc f i j
    unfold rotSem
    split <;> simp only [Di_smul S lg _ c _ (hc _)] <;> ring
  const := by
    intro f hf i j
    unfold rotSem
    split <;> simp only [hf] <;> ring

theorem hess_lin (S : DRing K) (lg : Bool) : LinFun S lg (hessSem S lg) where
  add := by
    intro f g i j
    simp only [hessSem, Di_add]
  smul := by
    intro c hc f i j
    simp only [hessSem]
    rw [Di_smul S lg _ c _ (hc _), Di_smul S lg _ c _ (hc _)]
  const := by
    intro f hf i j
    simp only [hessSem, hf, Di_zero]

theorem lap_lin (S : DRing K) (d : Nat) (lg : Bool) : LinFun S lg (lapSem S d lg) where
  add := by
    intro f g i j
    simp only [lapSem, Di_add, sumN_add]
  smul := by
    intro c hc f i j
    simp only [lapSem]
    rw [← sumN_mul_left]
    apply sumN_congr
    intro k _
    rw [Di_smul S lg _ c _ (hc _), Di_smul S lg _ c _ (hc _)]
  const := by
    intro f hf i j
    simp only [lapSem, hf, Di_zero, sumN_zero]

theorem div_lin (S : DRing K) (d : Nat) (lg : Bool) (r : Nat) : LinFun S lg (divSem S d lg r) where
  add := by
    intro f g i j
    unfold divSem
    split <;> simp only [Di_add, sumN_add]
  smul := by
    intro c hc f i j
    unfold divSem
    split
    all_goals
      rw [← sumN_mul_left]
      apply sumN_congr
      intro k _
      rw [Di_smul S lg _ c _ (hc _)]
  const := by
    intro f hf i j
    unfold divSem
    split <;> simp only [hf, sumN_zero]

theorem curl_is (S : DRing K) (d : Nat) (lg : Bool) (a : E) : OpIs S d lg .curl (curlSem S d lg) a := by
  intro i j; simp only [denG, curlSem]; rcases i with _ | _ | i <;> rfl

theorem rot_is (S : DRing K) (d : Nat) (lg : Bool) (a : E) : OpIs S d lg .rot (rotSem S lg) a := by
  intro i j; simp only [denG, rotSem]; rcases i with _ | i <;> rfl

theorem hess_is (S : DRing K) (d : Nat) (lg : Bool) (a : E) : OpIs S d lg .hessian (hessSem S lg) a := by
  intro i j; simp only [denG, hessSem]

theorem lap_is (S : DRing K) (d : Nat) (lg : Bool) (a : E) : OpIs S d lg .laplace (lapSem S d lg) a := by
  intro i j; simp only [denG, lapSem]

theorem div_is (S : DRing K) (d : Nat) (lg : Bool) (a : E) :
    OpIs S d lg .div (divSem S d lg (rank d a)) a := by
  intro i j; simp only [denG, divSem]

/-- curl(grad a) = 0 whatever the rank of `a` (only the components (·,0) of the gradient are read) -/
theorem curl_grad_zero' (S : DRing K) (d : Nat) (lg : Bool) (a : E) (i j : Nat) :
    denG S d lg (op1 .curl (op1 .grad a)) i j = 0 := by
  have hg : ∀ k, denG S d lg (op1 .grad a) k 0 = Di S lg k (denG S d lg a 0 0) := by
    intro k; simp only [denG]; split <;> rfl
  simp only [denG] at hg ⊢
  simp only [hg]
  split
  · split <;> (rw [Di_comm]; ring)
  · rw [Di_comm]; ring

/-- **Curl**: whatever `Curl(e)` returns — sum rule, numeric factors pulled out, zero on numbers,
    curl(grad u) = 0 — denotes the curl of `e` (3D vector curl, scalar curl otherwise). -/
theorem curlEval_sound' (S : DRing K) (d : Nat) (lg : Bool) (e : E) (hnd : NonDegG S d lg e)
    (r : E) (h : curlEval d e = .ok r) :
    ∀ i j, denG S d lg r i j = denG S d lg (op1 .curl e) i j := by
  induction e using E.rec
    (motive_2 := fun as => ∀ a ∈ as, NonDegG S d lg a → ∀ r,
      curlEval d a = .ok r → ∀ i j, denG S d lg r i j = denG S d lg (op1 .curl a) i j)
    generalizing r with
  | add as ih =>
    rw [curlEval_add] at h
    have hnd' : ∀ a ∈ as, NonDegG S d lg a :=
      fun a ha => NonDegGList_mem S d lg as (by simpa [NonDegG] using hnd) a ha
    exact addBranch_sound S d lg .curl _ (curl_lin S d lg) (curlEval d) as
      (fun a _ => curl_is S d lg a) (curl_is S d lg _) (curl_is S d lg _) hnd
      (fun a ha r hr => ih a ha (hnd' a ha) r hr) r h
  | mul as _ =>
    rw [curlEval_mul] at h
    exact mulLin_sound S d lg .curl _ (curl_lin S d lg) as (curl_is S d lg _) (curl_is S d lg _) hnd r h
  | nil => cases ‹_ ∈ []›
  | cons a as iha ihas =>
    rename_i x hx h1 r' hr i j
    rcases List.mem_cons.mp hx with rfl | hx
    · exact iha h1 r' hr i j
    · exact ihas x hx h1 r' hr i j
  | op1 o a _ =>
    cases o with
    | grad =>
      intro i j
      simp only [curlEval] at h
      split at h
      · split at h
        · rename_i hn; simp [Calc.isNumber, PD.isNumber] at hn
        · injection h with h; subst h; rfl
      · injection h with h; subst h
        rw [denG_zero, curl_grad_zero']
    | _ =>
      refine leafBranch_sound S d lg .curl _ (curl_lin S d lg) _ (curl_is S d lg _) hnd r ?_
      simpa only [curlEval, leafBranch] using h
  | _ =>
    refine leafBranch_sound S d lg .curl _ (curl_lin S d lg) _ (curl_is S d lg _) hnd r ?_
    simpa only [curlEval, leafBranch] using h

/-! ### bilinear products -/

/-- meaning of Dot / Cross / Inner / Outer / Convect on component functions; `ma`, `mb` say
    whether the arguments are matrices (tensor rank 2) -/
def bilSem (S : DRing K) (d : Nat) (lg : Bool) (k : BK) (ma mb : Bool)
    (f g : Nat → Nat → K) (i j : Nat) : K :=
  match k with
  | .dot =>
      if ma then sumN d (fun k => f i k * g k 0)
      else if mb then sumN d (fun k => g i k * f k 0)
      else sumN d (fun k => f k 0 * g k 0)
  | .cross =>
      if d = 3 then
        (match i with
         | 0 => f 1 0 * g 2 0 - f 2 0 * g 1 0
         | 1 => f 2 0 * g 0 0 - f 0 0 * g 2 0
         | _ => f 0 0 * g 1 0 - f 1 0 * g 0 0)
      else f 0 0 * g 1 0 - f 1 0 * g 0 0
  | .inner =>
      if ma then sumN d (fun k => sumN d (fun l => f k l * g k l))
      else sumN d (fun k => f k 0 * g k 0)
  | .outer => f i 0 * g j 0
  | .convect => sumN d (fun k => f k 0 * Di S lg k (g i 0))

def isMat (d : Nat) (e : E) : Bool := rank d e == 2

theorem bil_is (S : DRing K) (d : Nat) (lg : Bool) (k : BK) (a b : E) (i j : Nat) :
    denG S d lg (op2 k.op a b) i j
      = bilSem S d lg k (isMat d a) (isMat d b) (denG S d lg a) (denG S d lg b) i j := by
  cases k <;> simp only [BK.op, denG, bilSem, isMat, beq_iff_eq]
  · rcases i with _ | _ | i <;> rfl

theorem sumN_neg {K : Type} [CommRing K] (d : Nat) (f : Nat → K) :
    sumN d (fun i => - f i) = - sumN d f := by
  induction d with
  | zero => simp [sumN]
  | succ n ih => simp only [sumN, ih]; ring

theorem bil_add_left (S : DRing K) (d : Nat) (lg : Bool) (k : BK) (ma mb : Bool)
    (f1 f2 g : Nat → Nat → K) (i j : Nat) :
    bilSem S d lg k ma mb (fun a b => f1 a b + f2 a b) g i j
      = bilSem S d lg k ma mb f1 g i j + bilSem S d lg k ma mb f2 g i j := by
  cases k <;> simp only [bilSem]
  · split
    · rw [← sumN_add]; apply sumN_congr; intro k _; ring
    · split
      · rw [← sumN_add]; apply sumN_congr; intro k _; ring
      · rw [← sumN_add]; apply sumN_congr; intro k _; ring
  · split
    · split <;> ring
    · ring
  · split
    · rw [← sumN_add]; apply sumN_congr; intro k _
      rw [← sumN_add]; apply sumN_congr; intro l _; ring
    · rw [← sumN_add]; apply sumN_congr; intro k _; ring
  · ring
  · rw [← sumN_add]; apply sumN_congr; intro k _; ring

theorem bil_add_right (S : DRing K) (d : Nat) (lg : Bool) (k : BK) (ma mb : Bool)
    (f g1 g2 : Nat → Nat → K) (i j : Nat) :
    bilSem S d lg k ma mb f (fun a b => g1 a b + g2 a b) i j
      = bilSem S d lg k ma mb f g1 i j + bilSem S d lg k ma mb f g2 i j := by
  cases k <;> simp only [bilSem]
  · split
    · rw [← sumN_add]; apply sumN_congr; intro k _; ring
    · split
      · rw [← sumN_add]; apply sumN_congr; intro k _; ring
      · rw [← sumN_add]; apply sumN_congr; intro k _; ring
  · split
    · split <;> ring
    · ring
  · split
    · rw [← sumN_add]; apply sumN_congr; intro k _
      rw [← sumN_add]; apply sumN_congr; intro l _; ring
    · rw [← sumN_add]; apply sumN_congr; intro k _; ring
  · ring
  · rw [← sumN_add]; apply sumN_congr; intro k _; rw [Di_add]; ring

theorem bil_smul_left (S : DRing K) (d : Nat) (lg : Bool) (k : BK) (ma mb : Bool) (c : K)
    (f g : Nat → Nat → K) (i j : Nat) :
    bilSem S d lg k ma mb (fun a b => c * f a b) g i j = c * bilSem S d lg k ma mb f g i j := by
  cases k <;> simp only [bilSem]
  · split
    · rw [← sumN_mul_left]; apply sumN_congr; intro k _; ring
    · split
      · rw [← sumN_mul_left]; apply sumN_congr; intro k _; ring
      · rw [← sumN_mul_left]; apply sumN_congr; intro k _; ring
  · split
    · split <;> ring
    · ring
  · split
    · rw [← sumN_mul_left]; apply sumN_congr; intro k _
      rw [← sumN_mul_left]; apply sumN_congr; intro l _; ring
    · rw [← sumN_mul_left]; apply sumN_congr; intro k _; ring
  · ring
  · rw [← sumN_mul_left]; apply sumN_congr; intro k _; ring

/-- a factor comes out of the second argument — of Convect only if it is a constant -/
theorem bil_smul_right (S : DRing K) (d : Nat) (lg : Bool) (k : BK) (ma mb : Bool) (c : K)
    (hc : k = .convect → ∀ m, Di S lg m c = 0)
    (f g : Nat → Nat → K) (i j : Nat) :
    bilSem S d lg k ma mb f (fun a b => c * g a b) i j = c * bilSem S d lg k ma mb f g i j := by
  cases k <;> simp only [bilSem]
  · split
    · rw [← sumN_mul_left]; apply sumN_congr; intro k _; ring
    · split
      · rw [← sumN_mul_left]; apply sumN_congr; intro k _; ring
      · rw [← sumN_mul_left]; apply sumN_congr; intro k _; ring
  · split
    · split <;> ring
    · ring
  · split
    · rw [← sumN_mul_left]; apply sumN_congr; intro k _
      rw [← sumN_mul_left]; apply sumN_congr; intro l _; ring
    · rw [← sumN_mul_left]; apply sumN_congr; intro k _; ring
  · ring
  · rw [← sumN_mul_left]; apply sumN_congr; intro k _
    rw [Di_smul S lg k c _ (hc rfl k)]; ring

theorem bil_zero_left (S : DRing K) (d : Nat) (lg : Bool) (k : BK) (ma mb : Bool)
    (g : Nat → Nat → K) (i j : Nat) :
    bilSem S d lg k ma mb (fun _ _ => 0) g i j = 0 := by
  have := bil_smul_left S d lg k ma mb 0 (fun _ _ => 0) g i j
  simpa using this

/-- the second argument is zero, or (Convect) a constant -/
theorem bil_const_right (S : DRing K) (d : Nat) (lg : Bool) (k : BK) (ma mb : Bool)
    (f g : Nat → Nat → K) (hg : if k = .convect then ∀ m a b, Di S lg m (g a b) = 0 else ∀ a b, g a b = 0)
    (i j : Nat) :
    bilSem S d lg k ma mb f g i j = 0 := by
  cases k <;> simp only [bilSem] <;> simp at hg
  · simp [hg, sumN_zero]
  · simp only [hg]; split
    · split <;> ring
    · ring
  · simp [hg, sumN_zero]
  · simp [hg]
  · simp [hg, sumN_zero]

theorem bil_cross_self (S : DRing K) (d : Nat) (lg : Bool) (ma mb : Bool)
    (f : Nat → Nat → K) (i j : Nat) : bilSem S d lg .cross ma mb f f i j = 0 := by
  simp only [bilSem]
  split
  · split <;> ring
  · ring

theorem bil_flags (S : DRing K) (d : Nat) (lg : Bool) (k : BK) (ma mb ma' mb' : Bool)
    (h : k = .convect ∨ k = .cross ∨ k = .outer ∨ (ma = ma' ∧ mb = mb'))
    (f g : Nat → Nat → K) (i j : Nat) :
    bilSem S d lg k ma mb f g i j = bilSem S d lg k ma' mb' f g i j := by
  rcases h with rfl | rfl | rfl | ⟨rfl, rfl⟩ <;> rfl

theorem bil_sum_left (S : DRing K) (d : Nat) (lg : Bool) (k : BK) (ma mb : Bool)
    (as : List E) (g : Nat → Nat → K) (i j : Nat) :
    bilSem S d lg k ma mb (fun a b => denGSum S d lg as a b) g i j
      = (as.map (fun t => bilSem S d lg k ma mb (denG S d lg t) g i j)).sum := by
  induction as with
  | nil => simp only [denGSum, List.map, List.sum_nil]; exact bil_zero_left S d lg k ma mb g i j
  | cons x xs ih =>
    simp only [denGSum, List.map, List.sum_cons]
    rw [bil_add_left S d lg k ma mb (fun a b => denG S d lg x a b) (fun a b => denGSum S d lg xs a b), ih]

theorem bil_sum_right (S : DRing K) (d : Nat) (lg : Bool) (k : BK) (ma mb : Bool)
    (f : Nat → Nat → K) (bs : List E) (i j : Nat) :
    bilSem S d lg k ma mb f (fun a b => denGSum S d lg bs a b) i j
      = (bs.map (fun t => bilSem S d lg k ma mb f (denG S d lg t) i j)).sum := by
  induction bs with
  | nil =>
    simp only [denGSum, List.map, List.sum_nil]
    apply bil_const_right
    split <;> simp [Di_zero]
  | cons x xs ih =>
    simp only [denGSum, List.map, List.sum_cons]
    rw [bil_add_right S d lg k ma mb f (fun a b => denG S d lg x a b) (fun a b => denGSum S d lg xs a b), ih]

/-! ### factors -/

theorem denG_factors (S : DRing K) (d : Nat) (lg : Bool) (e : E) (i j : Nat) :
    denG S d lg e i j = denGProd S d lg (factors e) i j := by
  cases e <;> simp [factors, denG, denGProd]

theorem rankMax_filter (d : Nat) (p : E → Bool) (l : List E)
    (h : ∀ x ∈ l, p x = true → rank d x = 0) :
    rankMax d l = rankMax d (l.filter (fun x => !p x)) := by
  induction l with
  | nil => simp [rankMax]
  | cons a l ih =>
    have ih' := ih (fun x hx => h x (by simp [hx]))
    simp only [List.filter]
    cases hp : p a
    · simp [rankMax, ih']
    · simp [rankMax, ih', h a (by simp) hp]

theorem rank_mulOf (d : Nat) (l : List E) : rank d (Calc.mulOf l) = rankMax d l := by
  match l with
  | [] => simp [Calc.mulOf, PD.mulOf, rank, rankMax, E.one]
  | [a] => simp [Calc.mulOf, PD.mulOf, rankMax]
  | a :: b :: rest => simp [Calc.mulOf, PD.mulOf, rank]

theorem rank_factors (d : Nat) (e : E) : rank d e = rankMax d (factors e) := by
  cases e <;> simp [factors, rank, rankMax]

/-- `x` is not flagged commutative, or is a genuine scalar -/
def csOK (d : Nat) (x : E) : Bool := !isComm d x || Scal d x

/-- every factor flagged commutative is a genuine scalar -/
def facOK (d : Nat) (e : E) : Bool := (factors e).all (csOK d)

/-- splitting off index-free factors of rank 0 -/
theorem factors_split (S : DRing K) (d : Nat) (lg : Bool) (p : E → Bool) (e : E)
    (h : ∀ x ∈ factors e, p x = true → Scal d x = true) :
    (∀ a b, denG S d lg e a b
      = denGProd S d lg ((factors e).filter p) 0 0
        * denG S d lg (Calc.mulOf ((factors e).filter (fun x => !p x))) a b)
    ∧ rank d e = rank d (Calc.mulOf ((factors e).filter (fun x => !p x))) := by
  constructor
  · intro a b
    rw [denG_factors, denGProd_filter S d lg p (factors e) a b, denG_mulOf]
    congr 1
    apply denGProd_congr
    intro x hx
    have hx' := List.mem_filter.mp hx
    exact (Scal_spec S d lg x (h x hx'.1 hx'.2)).2 a b
  · rw [rank_mulOf, rank_factors]
    exact rankMax_filter d p (factors e) (fun x hx hp => (Scal_spec S d lg x (h x hx hp)).1)

theorem isCoef_isNumber (x : E) (h : PD.isCoef x = true) : PD.isNumber x = true := by
  cases x <;> simp_all [PD.isCoef, PD.isNumber]

theorem isCoef_NonDegG (S : DRing K) (d : Nat) (lg : Bool) (x : E) (h : PD.isCoef x = true) :
    NonDegG S d lg x := by
  cases x <;> simp_all [PD.isCoef, NonDegG]

theorem isZeroV_zero (S : DRing K) (d : Nat) (lg : Bool) (e : E) (h : isZeroV e = true) :
    ∀ i j, denG S d lg e i j = 0 := by
  intro i j
  cases e with
  | num p q =>
    simp only [isZeroV, beq_iff_eq] at h
    subst h
    simp [denG]
  | mat r c es =>
    simp only [isZeroV, List.all_eq_true] at h
    simp only [denG]
    have key : ∀ (l : List E) (n : Nat), (∀ x ∈ l, isZeroNum x = true) → denGNth S d lg l n = 0 := by
      intro l
      induction l with
      | nil => intro n _; simp [denGNth]
      | cons x xs ih =>
        intro n hl
        cases n with
        | zero =>
          have hx := hl x (by simp)
          cases x <;> simp_all [isZeroNum, denGNth, denG]
        | succ n =>
          simp only [denGNth]
          exact ih n (fun y hy => hl y (by simp [hy]))
    split
    · exact key es _ h
    · rfl
  | _ => simp [isZeroV] at h

/-- the structural equality of `E` decides equality -/
def BEqSound : Prop := ∀ x y : E, (x == y) = true → x = y

theorem beqSound : BEqSound := fun _ _ h => E.eq_of_beq h

/-- conditions under which the zero short-cuts of the bilinear constructors are taken -/
theorem shortcut_sound (S : DRing K) (d : Nat) (lg : Bool) (k : BK) (a1 a2 : E)
    (hbeq : k = .cross → BEqSound) (hnd : k = .convect → NonDegG S d lg a2)
    (h : (k == .cross && a1 == a2) = true
      ∨ (if k == .convect then isZeroV a1 || Calc.isNumber a2 else isZeroV a1 || isZeroV a2) = true)
    (i j : Nat) : denG S d lg (op2 k.op a1 a2) i j = 0 := by
  rw [bil_is]
  rcases h with h | h
  · simp only [Bool.and_eq_true, beq_iff_eq] at h
    obtain ⟨rfl, h2⟩ := h
    have := hbeq rfl a1 a2 (by simpa using h2)
    subst this
    exact bil_cross_self S d lg _ _ _ i j
  · have hz1 : isZeroV a1 = true → bilSem S d lg k (isMat d a1) (isMat d a2) (denG S d lg a1) (denG S d lg a2) i j = 0 := by
      intro hz
      have : denG S d lg a1 = fun _ _ => 0 := by
        funext a b; exact isZeroV_zero S d lg a1 hz a b
      rw [this]; exact bil_zero_left S d lg k _ _ _ i j
    by_cases hk : k = .convect
    · subst hk
      simp only [beq_self_eq_true, if_true, Bool.or_eq_true] at h
      rcases h with h | h
      · exact hz1 h
      · apply bil_const_right
        simp only [if_true]
        intro m a b
        exact DG_isNumber S d lg _ a2 h (hnd rfl) a b
    · have hk' : (k == BK.convect) = false := by simpa using hk
      simp only [hk', Bool.false_eq_true, if_false, Bool.or_eq_true] at h
      rcases h with h | h
      · exact hz1 h
      · apply bil_const_right
        simp only [hk, if_false]
        exact isZeroV_zero S d lg a2 h

theorem denGProd_coefs_const (S : DRing K) (d : Nat) (lg : Bool) (l : List E)
    (h : ∀ x ∈ l, PD.isCoef x = true) (m : Nat) : Di S lg m (denGProd S d lg l 0 0) = 0 :=
  DG_prod_numbers S d lg _ l (fun x hx => isCoef_isNumber x (h x hx))
    (fun x hx => isCoef_NonDegG S d lg x (h x hx)) 0 0

theorem denGProd_scal_free (S : DRing K) (d : Nat) (lg : Bool) (l : List E)
    (h : ∀ x ∈ l, Scal d x = true) (i j : Nat) :
    denGProd S d lg l i j = denGProd S d lg l 0 0 :=
  denGProd_congr S d lg l i j 0 0 (fun x hx => (Scal_spec S d lg x (h x hx)).2 i j)

/-- the node built for two non-sum arguments: scalar factors out, constants only out of the
    second argument of Convect -/
theorem mkCore_sound (S : DRing K) (d : Nat) (lg : Bool) (k : BK) (a1 a2 : E)
    (h1 : facOK d a1 = true) (h2 : k = .convect ∨ facOK d a2 = true)
    (hbeq : k = .cross → BEqSound) (hnd : k = .convect → NonDegG S d lg a2)
    (r : E) (h : mkCore d k a1 a2 = .ok r) :
    ∀ i j, denG S d lg r i j = denG S d lg (op2 k.op a1 a2) i j := by
  intro i j
  unfold mkCore at h
  split at h
  · rename_i hc
    injection h with h; subst h
    rw [denG_zero, shortcut_sound S d lg k a1 a2 hbeq hnd (Or.inl hc)]
  by_cases hsc : (if k == .convect then isZeroV a1 || Calc.isNumber a2 else isZeroV a1 || isZeroV a2) = true
  · rw [if_pos hsc] at h
    injection h with h; subst h
    rw [denG_zero, shortcut_sound S d lg k a1 a2 hbeq hnd (Or.inr hsc)]
  rw [if_neg hsc] at h
  simp only at h
  -- the first argument: commutative factors are scalars
  have hf1 : ∀ x ∈ factors a1, isComm d x = true → Scal d x = true := by
    intro x hx hc
    have := List.all_eq_true.mp h1 x hx
    simpa [csOK, hc] using this
  obtain ⟨e1, r1⟩ := factors_split S d lg (isComm d) a1 hf1
  have hc1 : ∀ x ∈ (factors a1).filter (fun x => isComm d x), Scal d x = true :=
    fun x hx => hf1 x (List.mem_filter.mp hx).1 (List.mem_filter.mp hx).2
  by_cases hk : k = .convect
  · subst hk
    simp only [beq_self_eq_true, if_true, Bool.true_and] at h
    have hf2 : ∀ x ∈ factors a2, PD.isCoef x = true → Scal d x = true :=
      fun x _ hx => isNumber_Scal d x (isCoef_isNumber x hx)
    obtain ⟨e2, -⟩ := factors_split S d lg PD.isCoef a2 hf2
    have hcoef : ∀ x ∈ (factors a2).filter (fun x => isCoef x), PD.isCoef x = true :=
      fun x hx => (List.mem_filter.mp hx).2
    split at h
    · -- nothing but coefficients in the second argument
      rename_i hemp
      injection h with h; subst h
      have hemp' : (factors a2).filter (fun x => !isCoef x) = [] := by simpa using hemp
      rw [denG_zero, bil_is]
      symm
      apply bil_const_right
      simp only [if_true]
      intro m a b
      rw [e2 a b]
      change Di S lg m (_ * denG S d lg (Calc.mulOf ((factors a2).filter (fun x => !isCoef x))) a b) = 0
      rw [hemp']
      simp only [Calc.mulOf, PD.mulOf, denG_one, mul_one]
      exact denGProd_coefs_const S d lg _ hcoef m
    · split at h
      · cases h
      · injection h with h; subst h
        rw [denG_mul3, denG_mulOf, denG_mulOf, bil_is, bil_is]
        have ea1 : denG S d lg a1 = fun a b => denGProd S d lg ((factors a1).filter (isComm d)) 0 0
            * denG S d lg (Calc.mulOf ((factors a1).filter (fun x => !isComm d x))) a b := by
          funext a b; exact e1 a b
        have ea2 : denG S d lg a2 = fun a b => denGProd S d lg ((factors a2).filter PD.isCoef) 0 0
            * denG S d lg (Calc.mulOf ((factors a2).filter (fun x => !PD.isCoef x))) a b := by
          funext a b; exact e2 a b
        rw [ea1, ea2, bil_smul_left, bil_smul_right S d lg .convect _ _
          (denGProd S d lg ((factors a2).filter PD.isCoef) 0 0)
          (fun _ m => denGProd_coefs_const S d lg _ hcoef m)]
        rw [denGProd_scal_free S d lg _ hc1 i j,
          denGProd_scal_free S d lg _ (fun x hx => isNumber_Scal d x (isCoef_isNumber x (hcoef x hx))) i j]
        rfl
  · have hk' : (k == BK.convect) = false := by simpa using hk
    simp only [hk', Bool.false_eq_true, if_false, Bool.false_and] at h
    have h2' : facOK d a2 = true := by
      rcases h2 with h2 | h2
      · exact absurd h2 hk
      · exact h2
    have hf2 : ∀ x ∈ factors a2, isComm d x = true → Scal d x = true := by
      intro x hx hc
      have := List.all_eq_true.mp h2' x hx
      simpa [csOK, hc] using this
    obtain ⟨e2, r2⟩ := factors_split S d lg (isComm d) a2 hf2
    have hc2 : ∀ x ∈ (factors a2).filter (fun x => isComm d x), Scal d x = true :=
      fun x hx => hf2 x (List.mem_filter.mp hx).1 (List.mem_filter.mp hx).2
    split at h
    · cases h
    · injection h with h; subst h
      rw [denG_mul3, denG_mulOf, denG_mulOf, bil_is, bil_is]
      have ea1 : denG S d lg a1 = fun a b => denGProd S d lg ((factors a1).filter (isComm d)) 0 0
          * denG S d lg (Calc.mulOf ((factors a1).filter (fun x => !isComm d x))) a b := by
        funext a b; exact e1 a b
      have ea2 : denG S d lg a2 = fun a b => denGProd S d lg ((factors a2).filter (isComm d)) 0 0
          * denG S d lg (Calc.mulOf ((factors a2).filter (fun x => !isComm d x))) a b := by
        funext a b; exact e2 a b
      have m1 : isMat d a1 = isMat d (Calc.mulOf ((factors a1).filter (fun x => !isComm d x))) := by
        simp only [isMat, r1]
      have m2 : isMat d a2 = isMat d (Calc.mulOf ((factors a2).filter (fun x => !isComm d x))) := by
        simp only [isMat, r2]
      rw [m1, m2, ea1, ea2, bil_smul_left, bil_smul_right S d lg k _ _ _ (fun hkc => absurd hkc hk)]
      rw [denGProd_scal_free S d lg _ hc1 i j, denGProd_scal_free S d lg _ hc2 i j]

theorem mapM_sound (S : DRing K) (d : Nat) (lg : Bool) (i j : Nat) (f : E → Except Err E)
    (X : E → K) (l : List E)
    (hf : ∀ t ∈ l, ∀ r, f t = .ok r → denG S d lg r i j = X t)
    (rs : List E) (h : l.mapM f = .ok rs) :
    denGSum S d lg rs i j = (l.map X).sum := by
  induction l generalizing rs with
  | nil =>
    simp only [List.mapM_nil, pure, Except.pure] at h
    injection h with h; subst h
    simp [denGSum]
  | cons t ts ih =>
    simp only [List.mapM_cons, bind, Except.bind] at h
    cases ht : f t with
    | error e => rw [ht] at h; cases h
    | ok r =>
      rw [ht] at h
      simp only at h
      cases hts : ts.mapM f with
      | error e => rw [hts] at h; cases h
      | ok rs' =>
        rw [hts] at h
        simp only [pure, Except.pure] at h
        injection h with h; subst h
        simp only [denGSum, List.map, List.sum_cons]
        rw [hf t (by simp) r ht, ih (fun x hx => hf x (by simp [hx])) rs' hts]

/-- distribution over the terms of a sum -/
theorem splitAdd_sound (S : DRing K) (d : Nat) (lg : Bool) (i j : Nat) (f : E → Except Err E)
    (X : E → K) (as : List E)
    (hf : ∀ t ∈ as, ∀ r, f t = .ok r → denG S d lg r i j = X t)
    (r : E) (h : splitAdd f as = .ok r) :
    denG S d lg r i j = (as.map X).sum := by
  unfold splitAdd at h
  simp only at h
  rw [sum_map_filter hasF X as]
  have fin : ∀ (rb : E) (Y : K), denG S d lg rb i j = Y →
      (do let ra ← (as.filter hasF).mapM f; (Except.ok (add (ra ++ [rb])) : Except Err E)) = .ok r →
      denG S d lg r i j = ((as.filter hasF).map X).sum + Y := by
    intro rb Y hrb h
    simp only [bind, Except.bind] at h
    cases hra : (as.filter hasF).mapM f with
    | error e => rw [hra] at h; cases h
    | ok ra =>
      rw [hra] at h
      injection h with h; subst h
      have hsa := mapM_sound S d lg i j f X (as.filter hasF)
        (fun t ht => hf t (List.mem_filter.mp ht).1) ra hra
      simp only [denG]
      rw [denGSum_append, hsa]
      simp only [denGSum, add_zero, hrb]
  match hm : as.filter (fun x => !hasF x) with
  | x :: y :: rest => rw [hm] at h; cases h
  | [] =>
    rw [hm] at h
    simp only at h
    have := fin zero 0 (denG_zero S d lg i j) (by
      simpa only [bind, Except.bind] using h)
    simpa using this
  | [x] =>
    rw [hm] at h
    simp only at h
    have hxm : x ∈ as := by
      have : x ∈ as.filter (fun x => !hasF x) := by rw [hm]; simp
      exact (List.mem_filter.mp this).1
    cases hrb : f x with
    | error e =>
      rw [hrb] at h
      simp only [bind, Except.bind] at h
      split at h <;> cases h
    | ok rb =>
      rw [hrb] at h
      have := fin rb (X x) (hf x hxm rb hrb) (by
        simpa only [bind, Except.bind] using h)
      simpa using this

/-- admissible argument of a bilinear constructor: in every term (of a sum) the factors flagged
    commutative are genuine scalars, and the terms of a sum are all matrices or all not -/
def BilOK (d : Nat) : E → Bool
  | add as => as.all (fun t => facOK d t && (isMat d t == isMat d (add as)))
  | e => facOK d e

theorem BilOK_nonadd (d : Nat) (e : E) (h : ∀ as, e = add as → False) : BilOK d e = facOK d e := by
  cases e <;> first | rfl | exact absurd rfl (h _)

theorem NonDegG_add_mem (S : DRing K) (d : Nat) (lg : Bool) (as : List E)
    (h : NonDegG S d lg (add as)) (a : E) (ha : a ∈ as) : NonDegG S d lg a :=
  NonDegGList_mem S d lg as (by simpa [NonDegG] using h) a ha

theorem mkRight_sound (S : DRing K) (d : Nat) (lg : Bool) (k : BK) (a1 a2 : E)
    (h1 : facOK d a1 = true) (h2 : k = .convect ∨ BilOK d a2 = true)
    (hbeq : k = .cross → BEqSound) (hnd : k = .convect → NonDegG S d lg a2)
    (r : E) (h : mkRight d k a1 a2 = .ok r) :
    ∀ i j, denG S d lg r i j = denG S d lg (op2 k.op a1 a2) i j := by
  intro i j
  unfold mkRight at h
  split at h
  · rename_i hc
    injection h with h; subst h
    rw [denG_zero, shortcut_sound S d lg k a1 a2 hbeq hnd (Or.inl hc)]
  by_cases hsc : (if k == .convect then isZeroV a1 || Calc.isNumber a2 else isZeroV a1 || isZeroV a2) = true
  · rw [if_pos hsc] at h
    injection h with h; subst h
    rw [denG_zero, shortcut_sound S d lg k a1 a2 hbeq hnd (Or.inr hsc)]
  rw [if_neg hsc] at h
  have core : ∀ a2', (∀ as, a2' = add as → False) → (k = .convect → NonDegG S d lg a2') →
      (k = .convect ∨ BilOK d a2' = true) → mkCore d k a1 a2' = .ok r →
      denG S d lg r i j = denG S d lg (op2 k.op a1 a2') i j := by
    intro a2' hna hnd' h2' h'
    refine mkCore_sound S d lg k a1 a2' h1 ?_ hbeq hnd' r h' i j
    rcases h2' with h2' | h2'
    · exact Or.inl h2'
    · rw [BilOK_nonadd d a2' hna] at h2'
      exact Or.inr h2'
  cases a2 with
  | add bs =>
    simp only at h
    have hterm : ∀ t ∈ bs, (k = .convect ∨ facOK d t = true)
        ∧ (k = .convect ∨ isMat d t = isMat d (add bs)) := by
      intro t ht
      rcases h2 with h2 | h2
      · exact ⟨Or.inl h2, Or.inl h2⟩
      · simp only [BilOK, List.all_eq_true, Bool.and_eq_true, beq_iff_eq] at h2
        exact ⟨Or.inr (h2 t ht).1, Or.inr (h2 t ht).2⟩
    rw [splitAdd_sound S d lg i j _ (fun t => denG S d lg (op2 k.op a1 t) i j) bs
      (fun t ht r hr => mkCore_sound S d lg k a1 t h1 (hterm t ht).1 hbeq
        (fun hk => NonDegG_add_mem S d lg bs (hnd hk) t ht) r hr i j) r h]
    rw [bil_is, denG_add_fun S d lg bs, bil_sum_right]
    congr 1
    apply List.map_congr_left
    intro t ht
    rw [bil_is]
    apply bil_flags
    rcases (hterm t ht).2 with hk | hm
    · exact Or.inl hk
    · exact Or.inr (Or.inr (Or.inr ⟨rfl, hm⟩))
  | _ => exact core _ (by intro as has; cases has) hnd h2 h

/-- **Dot / Cross / Inner / Outer / Convect constructors**: distribution over the terms of sums
    in both arguments, extraction of scalar factors (of constants only from the differentiated
    argument of Convect) and the zero short-cuts preserve the meaning. -/
theorem mkBilin_sound' (S : DRing K) (d : Nat) (lg : Bool) (k : BK) (a1 a2 : E)
    (h1 : BilOK d a1 = true) (h2 : k = .convect ∨ BilOK d a2 = true)
    (hbeq : k = .cross → BEqSound) (hnd : k = .convect → NonDegG S d lg a2)
    (r : E) (h : mkBilin d k a1 a2 = .ok r) :
    ∀ i j, denG S d lg r i j = denG S d lg (op2 k.op a1 a2) i j := by
  intro i j
  unfold mkBilin at h
  split at h
  · rename_i hc
    injection h with h; subst h
    rw [denG_zero, shortcut_sound S d lg k a1 a2 hbeq hnd (Or.inl hc)]
  by_cases hsc : (if k == .convect then isZeroV a1 || Calc.isNumber a2 else isZeroV a1 || isZeroV a2) = true
  · rw [if_pos hsc] at h
    injection h with h; subst h
    rw [denG_zero, shortcut_sound S d lg k a1 a2 hbeq hnd (Or.inr hsc)]
  rw [if_neg hsc] at h
  have core : ∀ a1', (∀ as, a1' = add as → False) → BilOK d a1' = true →
      mkRight d k a1' a2 = .ok r →
      denG S d lg r i j = denG S d lg (op2 k.op a1' a2) i j := by
    intro a1' hna h1' h'
    rw [BilOK_nonadd d a1' hna] at h1'
    exact mkRight_sound S d lg k a1' a2 h1' h2 hbeq hnd r h' i j
  cases a1 with
  | add as =>
    simp only at h
    simp only [BilOK, List.all_eq_true, Bool.and_eq_true, beq_iff_eq] at h1
    rw [splitAdd_sound S d lg i j _ (fun t => denG S d lg (op2 k.op t a2) i j) as
      (fun t ht r hr => mkRight_sound S d lg k t a2 (h1 t ht).1 h2 hbeq hnd r hr i j) r h]
    rw [bil_is, denG_add_fun S d lg as, bil_sum_left]
    congr 1
    apply List.map_congr_left
    intro t ht
    rw [bil_is]
    apply bil_flags
    exact Or.inr (Or.inr (Or.inr ⟨(h1 t ht).2, rfl⟩))
  | _ => exact core _ (by intro as has; cases has) h1 h


/-! ### Poisson bracket -/

/-- [u, v] = ∂₀u ∂₁v − ∂₁u ∂₀v on values -/
def brk (S : DRing K) (lg : Bool) (A B : K) : K :=
  Di S lg 0 A * Di S lg 1 B - Di S lg 1 A * Di S lg 0 B

theorem bracket_is (S : DRing K) (d : Nat) (lg : Bool) (a b : E) (i j : Nat) :
    denG S d lg (op2 .bracket a b) i j = brk S lg (denG S d lg a 0 0) (denG S d lg b 0 0) := by
  simp only [denG, brk]

/-- a derivation of the value ring: what `[a, ·]` and `[·, b]` are -/
structure Deriv (δ : K → K) : Prop where
  add : ∀ x y, δ (x + y) = δ x + δ y
  mul : ∀ x y, δ (x * y) = x * δ y + δ x * y
  zero : δ 0 = 0
  one : δ 1 = 0

theorem brk_right_deriv (S : DRing K) (lg : Bool) (A : K) : Deriv (fun B => brk S lg A B) where
  add := by intro x y; simp only [brk, Di_add]; ring
  mul := by intro x y; simp only [brk, Di_mul]; ring
  zero := by simp only [brk, Di_zero]; ring
  one := by simp only [brk, Di, S.D_one]; ring

theorem brk_left_deriv (S : DRing K) (lg : Bool) (B : K) : Deriv (fun A => brk S lg A B) where
  add := by intro x y; simp only [brk, Di_add]; ring
  mul := by intro x y; simp only [brk, Di_mul]; ring
  zero := by simp only [brk, Di_zero]; ring
  one := by simp only [brk, Di, S.D_one]; ring

theorem brk_self (S : DRing K) (lg : Bool) (A : K) : brk S lg A A = 0 := by
  simp only [brk]; ring

theorem brk_const_left (S : DRing K) (lg : Bool) (A B : K) (h : ∀ k, Di S lg k A = 0) :
    brk S lg A B = 0 := by
  simp only [brk, h]; ring

theorem brk_const_right (S : DRing K) (lg : Bool) (A B : K) (h : ∀ k, Di S lg k B = 0) :
    brk S lg A B = 0 := by
  simp only [brk, h]; ring

theorem denGProd_append (S : DRing K) (d : Nat) (lg : Bool) (xs ys : List E) (i j : Nat) :
    denGProd S d lg (xs ++ ys) i j = denGProd S d lg xs i j * denGProd S d lg ys i j := by
  induction xs with
  | nil => simp [denGProd]
  | cons x xs ih => simp only [List.cons_append, denGProd, ih]; ring

theorem denGSum_map (S : DRing K) (d : Nat) (lg : Bool) (g : E → E) (bs : List E) (i j : Nat) :
    denGSum S d lg (bs.map g) i j = (bs.map (fun b => denG S d lg (g b) i j)).sum := by
  induction bs with
  | nil => simp [denGSum]
  | cons b bs ih => simp only [List.map, denGSum, List.sum_cons, ih]

theorem Deriv.sum {δ : K → K} (hδ : Deriv δ) (S : DRing K) (d : Nat) (lg : Bool) (bs : List E) :
    δ (denGSum S d lg bs 0 0) = (bs.map (fun b => δ (denG S d lg b 0 0))).sum := by
  induction bs with
  | nil => simp [denGSum, hδ.zero]
  | cons b bs ih => simp only [denGSum, hδ.add, List.map, List.sum_cons, ih]

/-- the Leibniz expansion Σ_i (Π_{j<i} f_j) δf_i (Π_{j>i} f_j) of a product of index-free factors -/
theorem leibniz_sound {δ : K → K} (hδ : Deriv δ) (S : DRing K) (d : Nat) (lg : Bool) (i j : Nat)
    (ps : List (E × E))
    (hp : ∀ p ∈ ps, (∀ a b, denG S d lg p.1 a b = denG S d lg p.1 0 0)
      ∧ denG S d lg p.2 i j = δ (denG S d lg p.1 0 0))
    (pre : List E) :
    denGSum S d lg (leibnizTerms pre ps) i j
      = denGProd S d lg pre i j * δ (denGProd S d lg (ps.map (·.1)) 0 0) := by
  induction ps generalizing pre with
  | nil => simp [leibnizTerms, denGSum, denGProd, hδ.one]
  | cons p rest ih =>
    obtain ⟨f, r⟩ := p
    have hfr := hp (f, r) (by simp)
    have hrest : ∀ p ∈ rest, (∀ a b, denG S d lg p.1 a b = denG S d lg p.1 0 0)
        ∧ denG S d lg p.2 i j = δ (denG S d lg p.1 0 0) := fun p hp' => hp p (by simp [hp'])
    have hfree : denGProd S d lg (rest.map (·.1)) i j = denGProd S d lg (rest.map (·.1)) 0 0 := by
      apply denGProd_congr
      intro x hx
      obtain ⟨p', hp', rfl⟩ := List.mem_map.mp hx
      exact (hrest p' hp').1 i j
    simp only [leibnizTerms, denGSum, List.map, denGProd]
    rw [ih hrest (pre ++ [f])]
    simp only [denG, denGProd_append, denGProd, mul_one]
    rw [hfr.2, hfree, hfr.1 i j, hδ.mul]
    ring

def brElR (a1 b : E) : E :=
  if Calc.isNumber a1 || Calc.isNumber b || a1 == b then zero else brRight a1 b

def brElL (a2 a : E) : E :=
  if Calc.isNumber a || Calc.isNumber a2 || a == a2 then zero else brLeft a2 a

theorem brRightList_eq (a1 : E) (bs : List E) : brRightList a1 bs = bs.map (brElR a1) := by
  induction bs with
  | nil => simp [brRightList]
  | cons b bs ih => simp [brRightList, brElR, ih]

theorem brLeftList_eq (a2 : E) (as : List E) : brLeftList a2 as = as.map (brElL a2) := by
  induction as with
  | nil => simp [brLeftList]
  | cons a as ih => simp [brLeftList, brElL, ih]

/-- `Mul` branch of both recursions, given the bracket of each factor -/
def brMul (el : E → E) (bs : List E) : E :=
  mul [Calc.mulOf (bs.filter isCoef),
    add (leibnizTerms [] ((bs.zip (bs.map el)).filter (fun p => !isCoef p.1)))]

def brLeafR (a1 b : E) : E :=
  if isCoef b then zero
  else if Calc.isNumber a1 || Calc.isNumber b then zero
  else if a1 == b then zero
  else op2 .bracket a1 b

theorem isCoef_const (S : DRing K) (d : Nat) (lg : Bool) (x : E) (h : PD.isCoef x = true)
    (k a b : Nat) : Di S lg k (denG S d lg x a b) = 0 :=
  DG_isNumber S d lg _ x (isCoef_isNumber x h) (isCoef_NonDegG S d lg x h) a b

theorem filter_zip_fst' {β : Type} (p : E → Bool) (f : E → β) (as : List E) :
    ((as.zip (as.map f)).filter (fun q => p q.1)).map (·.1) = as.filter p := by
  induction as with
  | nil => simp
  | cons a as ih =>
    simp only [List.map, List.zip_cons_cons, List.filter]
    cases hp : p a <;> simp [ih]

theorem brMul_sound (S : DRing K) (d : Nat) (lg : Bool) {δ : K → K} (hδ : Deriv δ)
    (hconst : ∀ x, (∀ k, Di S lg k x = 0) → δ x = 0) (i j : Nat) (el : E → E) (bs : List E)
    (hs : ∀ b ∈ bs, Scal d b = true)
    (ih : ∀ b ∈ bs, denG S d lg (el b) i j = δ (denG S d lg b 0 0)) :
    denG S d lg (brMul el bs) i j = δ (denG S d lg (mul bs) 0 0) := by
  unfold brMul
  rw [denG_mul2, denG_mulOf]
  simp only [denG]
  rw [leibniz_sound hδ S d lg i j _ (by
    intro p hp
    have hp' := (List.mem_filter.mp hp).1
    have hm := mem_zip_map el bs p hp'
    refine ⟨(Scal_spec S d lg p.1 (hs _ hm.1)).2, ?_⟩
    rw [hm.2]; exact ih _ hm.1) []]
  rw [filter_zip_fst' (fun x => !isCoef x) el bs]
  rw [denGProd_filter S d lg isCoef bs 0 0, hδ.mul]
  have hc : δ (denGProd S d lg (bs.filter isCoef) 0 0) = 0 := by
    apply hconst
    intro k
    exact denGProd_coefs_const S d lg _ (fun x hx => (List.mem_filter.mp hx).2) k
  rw [hc, denGProd_scal_free S d lg _ (fun x hx => hs x (List.mem_filter.mp hx).1) i j]
  simp only [denGProd]
  ring

theorem number_const (S : DRing K) (d : Nat) (lg : Bool) (x : E) (h : Calc.isNumber x = true)
    (hnd : NonDegG S d lg x) (k : Nat) : Di S lg k (denG S d lg x 0 0) = 0 :=
  DG_isNumber S d lg _ x h hnd 0 0

theorem brRight_add (a1 : E) (bs : List E) : brRight a1 (add bs) = add (bs.map (brElR a1)) := by
  simp only [brRight, brRightList_eq]

theorem brRight_mul (a1 : E) (bs : List E) : brRight a1 (mul bs) = brMul (brElR a1) bs := by
  simp only [brRight, brRightList_eq, brMul]

theorem brLeafR_sound (S : DRing K) (d : Nat) (lg : Bool) (hbeq : BEqSound) (a1 b : E)
    (hnd1 : NonDegG S d lg a1) (hnd : NonDegG S d lg b) (i j : Nat) :
    denG S d lg (brLeafR a1 b) i j = brk S lg (denG S d lg a1 0 0) (denG S d lg b 0 0) := by
  unfold brLeafR
  split
  · rename_i hc
    rw [denG_zero, brk_const_right S lg _ _ (fun k => isCoef_const S d lg b hc k 0 0)]
  split
  · rename_i hn
    simp only [Bool.or_eq_true] at hn
    rw [denG_zero]
    rcases hn with hn | hn
    · rw [brk_const_left S lg _ _ (number_const S d lg a1 hn hnd1)]
    · rw [brk_const_right S lg _ _ (number_const S d lg b hn hnd)]
  split
  · rename_i he
    have := hbeq a1 b he
    subst this
    rw [denG_zero, brk_self]
  · exact bracket_is S d lg a1 b i j

theorem brRight_sound (S : DRing K) (d : Nat) (lg : Bool) (hbeq : BEqSound) (a1 : E)
    (hnd1 : NonDegG S d lg a1) (b : E) (hs : Scal d b = true) (hnd : NonDegG S d lg b) :
    ∀ i j, denG S d lg (brRight a1 b) i j
      = brk S lg (denG S d lg a1 0 0) (denG S d lg b 0 0) := by
  have hel : ∀ b, NonDegG S d lg b →
      (∀ i j, denG S d lg (brRight a1 b) i j = brk S lg (denG S d lg a1 0 0) (denG S d lg b 0 0)) →
      ∀ i j, denG S d lg (brElR a1 b) i j = brk S lg (denG S d lg a1 0 0) (denG S d lg b 0 0) := by
    intro b hndb ih i j
    unfold brElR
    split
    · rename_i hc
      simp only [Bool.or_eq_true] at hc
      rw [denG_zero]
      rcases hc with (hn | hn) | he
      · rw [brk_const_left S lg _ _ (number_const S d lg a1 hn hnd1)]
      · rw [brk_const_right S lg _ _ (number_const S d lg b hn hndb)]
      · have := hbeq a1 b he
        subst this
        rw [brk_self]
    · exact ih i j
  induction b using E.rec
    (motive_2 := fun bs => ∀ b ∈ bs, Scal d b = true → NonDegG S d lg b → ∀ i j,
      denG S d lg (brRight a1 b) i j = brk S lg (denG S d lg a1 0 0) (denG S d lg b 0 0)) with
  | add bs ih =>
    intro i j
    have hs' : ∀ a ∈ bs, Scal d a = true := by simpa [Scal, ScalList_iff] using hs
    have hnd' := NonDegG_add_mem S d lg bs hnd
    rw [brRight_add]
    simp only [denG]
    rw [denGSum_map, (brk_right_deriv S lg (denG S d lg a1 0 0)).sum S d lg bs]
    congr 1
    apply List.map_congr_left
    intro b hb
    exact hel b (hnd' b hb) (ih b hb (hs' b hb) (hnd' b hb)) i j
  | mul bs ih =>
    intro i j
    have hs' : ∀ a ∈ bs, Scal d a = true := by simpa [Scal, ScalList_iff] using hs
    have hnd' : ∀ a ∈ bs, NonDegG S d lg a :=
      fun a ha => NonDegGList_mem S d lg bs (by simpa [NonDegG] using hnd) a ha
    rw [brRight_mul]
    exact brMul_sound S d lg (brk_right_deriv S lg (denG S d lg a1 0 0))
      (fun x hx => brk_const_right S lg _ x hx) i j (brElR a1) bs hs'
      (fun b hb => hel b (hnd' b hb) (ih b hb (hs' b hb) (hnd' b hb)) i j)
  | nil => cases ‹_ ∈ []›
  | cons a as iha ihas =>
    rename_i x hx h1 h2 i j
    rcases List.mem_cons.mp hx with rfl | hx
    · exact iha h1 h2 i j
    · exact ihas x hx h1 h2 i j
  | _ =>
    intro i j
    have := brLeafR_sound S d lg hbeq a1 _ hnd1 hnd i j
    simpa only [brRight, brLeafR] using this

theorem brLeft_add (a2 : E) (as : List E) : brLeft a2 (add as) = add (as.map (brElL a2)) := by
  simp only [brLeft, brLeftList_eq]

theorem brLeft_mul (a2 : E) (as : List E) : brLeft a2 (mul as) = brMul (brElL a2) as := by
  simp only [brLeft, brLeftList_eq, brMul]

def brLeafL (a2 a : E) : E := if isCoef a then zero else brRight a a2

theorem brLeafL_sound (S : DRing K) (d : Nat) (lg : Bool) (hbeq : BEqSound) (a2 : E)
    (hs2 : Scal d a2 = true) (hnd2 : NonDegG S d lg a2) (a : E) (hnd : NonDegG S d lg a) (i j : Nat) :
    denG S d lg (brLeafL a2 a) i j = brk S lg (denG S d lg a 0 0) (denG S d lg a2 0 0) := by
  unfold brLeafL
  split
  · rename_i hc
    rw [denG_zero, brk_const_left S lg _ _ (fun k => isCoef_const S d lg _ hc k 0 0)]
  · exact brRight_sound S d lg hbeq _ hnd a2 hs2 hnd2 i j

theorem brLeft_sound (S : DRing K) (d : Nat) (lg : Bool) (hbeq : BEqSound) (a2 : E)
    (hs2 : Scal d a2 = true) (hnd2 : NonDegG S d lg a2)
    (a : E) (hs : Scal d a = true) (hnd : NonDegG S d lg a) :
    ∀ i j, denG S d lg (brLeft a2 a) i j
      = brk S lg (denG S d lg a 0 0) (denG S d lg a2 0 0) := by
  have hel : ∀ a, NonDegG S d lg a →
      (∀ i j, denG S d lg (brLeft a2 a) i j = brk S lg (denG S d lg a 0 0) (denG S d lg a2 0 0)) →
      ∀ i j, denG S d lg (brElL a2 a) i j = brk S lg (denG S d lg a 0 0) (denG S d lg a2 0 0) := by
    intro a hnda ih i j
    unfold brElL
    split
    · rename_i hc
      simp only [Bool.or_eq_true] at hc
      rw [denG_zero]
      rcases hc with (hn | hn) | he
      · rw [brk_const_left S lg _ _ (number_const S d lg a hn hnda)]
      · rw [brk_const_right S lg _ _ (number_const S d lg a2 hn hnd2)]
      · have := hbeq a a2 he
        subst this
        rw [brk_self]
    · exact ih i j
  induction a using E.rec
    (motive_2 := fun as => ∀ a ∈ as, Scal d a = true → NonDegG S d lg a → ∀ i j,
      denG S d lg (brLeft a2 a) i j = brk S lg (denG S d lg a 0 0) (denG S d lg a2 0 0)) with
  | add as ih =>
    intro i j
    have hs' : ∀ a ∈ as, Scal d a = true := by simpa [Scal, ScalList_iff] using hs
    have hnd' := NonDegG_add_mem S d lg as hnd
    rw [brLeft_add]
    simp only [denG]
    rw [denGSum_map, (brk_left_deriv S lg (denG S d lg a2 0 0)).sum S d lg as]
    congr 1
    apply List.map_congr_left
    intro b hb
    exact hel b (hnd' b hb) (ih b hb (hs' b hb) (hnd' b hb)) i j
  | mul as ih =>
    intro i j
    have hs' : ∀ a ∈ as, Scal d a = true := by simpa [Scal, ScalList_iff] using hs
    have hnd' : ∀ a ∈ as, NonDegG S d lg a :=
      fun a ha => NonDegGList_mem S d lg as (by simpa [NonDegG] using hnd) a ha
    rw [brLeft_mul]
    exact brMul_sound S d lg (brk_left_deriv S lg (denG S d lg a2 0 0))
      (fun x hx => brk_const_left S lg x _ hx) i j (brElL a2) as hs'
      (fun b hb => hel b (hnd' b hb) (ih b hb (hs' b hb) (hnd' b hb)) i j)
  | nil => cases ‹_ ∈ []›
  | cons a as iha ihas =>
    rename_i x hx h1 h2 i j
    rcases List.mem_cons.mp hx with rfl | hx
    · exact iha h1 h2 i j
    · exact ihas x hx h1 h2 i j
  | _ =>
    intro i j
    have := brLeafL_sound S d lg hbeq a2 hs2 hnd2 _ hnd i j
    simpa only [brLeft, brLeafL] using this

/-! ### shape invariants of the results of Grad.eval / Curl.eval (arguments of Dot) -/

theorem Scal_rank (d : Nat) (e : E) (h : Scal d e = true) : rank d e = 0 := by
  induction e using E.rec
    (motive_2 := fun as => ∀ a ∈ as, Scal d a = true → rank d a = 0) with
  | num p q => simp [rank]
  | cst s => simp [rank]
  | sym s => simp [rank]
  | sf s k => simp [rank]
  | idx b k _ => simp [rank]
  | add as ih =>
    simp only [Scal, ScalList_iff, List.all_eq_true] at h
    cases as with
    | nil => simp [rank, rankHead]
    | cons a as => simp only [rank, rankHead]; exact ih a (by simp) (h a (by simp))
  | mul as ih =>
    simp only [Scal, ScalList_iff, List.all_eq_true] at h
    simp only [rank]; exact rankMax_zero d as (fun a ha => ih a ha (h a ha))
  | pow b e _ _ => simp [rank]
  | fn f a _ => simp [rank]
  | pd c a iha => simp only [Scal] at h; simp only [rank]; exact iha h
  | op1 o a iha =>
    cases o with
    | curl => simp only [Scal] at h; have hd : ¬ (d = 3) := by simpa using h
              simp [rank, hd]
    | div => simp only [Scal] at h; have hr : rank d a = 1 := by simpa using h
             simp [rank, hr]
    | laplace => simp only [Scal] at h; simp only [rank]; exact iha h
    | _ => simp [Scal] at h
  | op2 o a b _ _ =>
    cases o with
    | dot => simp only [Scal, Bool.and_eq_true, bne_iff_ne, ne_eq] at h; simp [rank, h.1, h.2]
    | cross => simp only [Scal] at h; have hd : ¬ (d = 3) := by simpa using h
               simp [rank, hd]
    | inner => simp [rank]
    | bracket => simp [rank]
    | _ => simp [Scal] at h
  | nil => cases ‹_ ∈ []›
  | cons a as iha ihas =>
    rename_i x hx hs
    rcases List.mem_cons.mp hx with rfl | hx
    · exact iha hs
    · exact ihas x hx hs
  | _ => simp [Scal] at h

/-- a factor: at most a vector, and a genuine scalar if flagged commutative -/
def WF (d : Nat) (x : E) : Prop := rank d x ≤ 1 ∧ (isComm d x = true → Scal d x = true)

/-- invariant of the vector-valued results: usable as an argument of Dot -/
structure GI (d : Nat) (r : E) : Prop where
  rk : rank d r ≤ 1
  fac : ∀ x ∈ factors r, isComm d x = true → Scal d x = true
  cs : isComm d r = true → Scal d r = true
  terms : ∀ ts, r = add ts → ∀ t ∈ ts, rank d t ≤ 1 ∧ ∀ x ∈ factors t, isComm d x = true → Scal d x = true

theorem GI.wf {d : Nat} {r : E} (h : GI d r) : WF d r := ⟨h.rk, h.cs⟩

theorem WF_scal (d : Nat) (x : E) (h : Scal d x = true) : WF d x :=
  ⟨by rw [Scal_rank d x h]; exact Nat.zero_le _, fun _ => h⟩

theorem allComm_iff (d : Nat) (as : List E) : allComm d as = as.all (isComm d) := by
  induction as with
  | nil => simp [allComm]
  | cons a as ih => simp [allComm, ih]

theorem rankMax_le (d : Nat) (l : List E) (n : Nat) (h : ∀ x ∈ l, rank d x ≤ n) : rankMax d l ≤ n := by
  induction l with
  | nil => simp [rankMax]
  | cons a l ih =>
    simp only [rankMax]
    exact Nat.max_le.mpr ⟨h a (by simp), ih (fun x hx => h x (by simp [hx]))⟩

theorem GI_zero (d : Nat) : GI d E.zero where
  rk := by simp [E.zero, rank]
  fac := by intro x hx _; simp [E.zero, factors] at hx; subst hx; simp [Scal]
  cs := by intro _; simp [E.zero, Scal]
  terms := by intro ts h; simp [E.zero] at h

/-- any non-sum, non-product node that is at most a vector and scalar if commutative -/
theorem GI_atom (d : Nat) (r : E) (hw : WF d r) (hna : ∀ ts, r = add ts → False)
    (hnm : ∀ ts, r = mul ts → False) : GI d r where
  rk := hw.1
  fac := by
    intro x hx
    have : factors r = [r] := by
      cases r <;> first | rfl | exact absurd rfl (hnm _)
    rw [this] at hx
    simp at hx; subst hx; exact hw.2
  cs := hw.2
  terms := by intro ts h; exact absurd h (hna ts)

theorem GI_mul (d : Nat) (l : List E) (h : ∀ x ∈ l, WF d x) : GI d (mul l) where
  rk := by simp only [rank]; exact rankMax_le d l 1 (fun x hx => (h x hx).1)
  fac := by intro x hx; simp only [factors] at hx; exact (h x hx).2
  cs := by
    intro hc
    simp only [isComm, allComm_iff, List.all_eq_true] at hc
    simp only [Scal, ScalList_iff, List.all_eq_true]
    exact fun x hx => (h x hx).2 (hc x hx)
  terms := by intro ts h; cases h

theorem GI_add (d : Nat) (l : List E) (h : ∀ t ∈ l, GI d t) : GI d (add l) := by
  have hcs : isComm d (add l) = true → Scal d (add l) = true := by
    intro hc
    simp only [isComm, allComm_iff, List.all_eq_true] at hc
    simp only [Scal, ScalList_iff, List.all_eq_true]
    exact fun x hx => (h x hx).cs (hc x hx)
  exact {
    rk := by
      cases l with
      | nil => simp [rank, rankHead]
      | cons a l => simp only [rank, rankHead]; exact (h a (by simp)).rk
    fac := by intro x hx; simp only [factors, List.mem_singleton] at hx; subst hx; exact hcs
    cs := hcs
    terms := by
      intro ts hts t ht
      injection hts with hts; subst hts
      exact ⟨(h t ht).rk, (h t ht).fac⟩ }

theorem GI_BilOK (d : Nat) (r : E) (h : GI d r) : BilOK d r = true ∧ isMat d r = false := by
  have hm : ∀ t, rank d t ≤ 1 → isMat d t = false := by
    intro t ht
    simp only [isMat, beq_eq_false_iff_ne, ne_eq]
    omega
  have hf : ∀ t, (∀ x ∈ factors t, isComm d x = true → Scal d x = true) → facOK d t = true := by
    intro t ht
    simp only [facOK, List.all_eq_true, csOK, Bool.or_eq_true, Bool.not_eq_true']
    intro x hx
    cases hc : isComm d x
    · exact Or.inl rfl
    · exact Or.inr (ht x hx hc)
  refine ⟨?_, hm r h.rk⟩
  by_cases hadd : ∃ ts, r = add ts
  · obtain ⟨ts, rfl⟩ := hadd
    simp only [BilOK, List.all_eq_true, Bool.and_eq_true, beq_iff_eq]
    intro t ht
    have := h.terms ts rfl t ht
    exact ⟨hf t this.2, by rw [hm t this.1, hm _ h.rk]⟩
  · rw [BilOK_nonadd d r (fun as has => hadd ⟨as, has⟩)]
    exact hf r h.fac

theorem seqE_mem (l : List (E × Except Err E)) (rs : List E) (h : seqE (l.map (·.2)) = .ok rs) :
    ∀ r ∈ rs, ∃ p ∈ l, p.2 = .ok r := by
  induction l generalizing rs with
  | nil =>
    simp only [List.map, seqE] at h
    injection h with h; subst h
    intro r hr; cases hr
  | cons p rest ih =>
    simp only [List.map, seqE, bind, Except.bind] at h
    cases hp : p.2 with
    | error e => rw [hp] at h; cases h
    | ok r0 =>
      rw [hp] at h
      simp only at h
      cases hrest : seqE (rest.map (·.2)) with
      | error e => rw [hrest] at h; cases h
      | ok rs' =>
        rw [hrest] at h
        injection h with h; subst h
        intro r hr
        rcases List.mem_cons.mp hr with rfl | hr
        · exact ⟨p, by simp, hp⟩
        · obtain ⟨q, hq, hq2⟩ := ih rs' hrest r hr
          exact ⟨q, by simp [hq], hq2⟩

theorem addBranch_GI (d : Nat) (o : Op1) (ev : E → Except Err E) (as : List E)
    (hn1 : GI d (op1 o (add as)))
    (hn2 : GI d (op1 o (addOf (as.filter (fun x => !hasF x)))))
    (ih : ∀ a ∈ as, ∀ r, ev a = .ok r → GI d r)
    (r : E) (h : addBranch o ev as = .ok r) : GI d r := by
  unfold addBranch at h
  split at h
  · split at h
    · injection h with h; subst h; exact GI_zero d
    · injection h with h; subst h; exact hn1
  · simp only [bind, Except.bind] at h
    split at h
    · cases h
    · rename_i ra hra
      injection h with h; subst h
      apply GI_add
      intro t ht
      rcases List.mem_append.mp ht with ht | ht
      · obtain ⟨p, hp, hp2⟩ := seqE_mem _ ra hra t ht
        have hm := mem_zip_map ev as p (List.mem_filter.mp hp).1
        rw [hm.2] at hp2
        exact ih p.1 hm.1 t hp2
      · simp only [List.mem_singleton] at ht
        subst ht
        split
        · exact GI_zero d
        · exact hn2

theorem leafBranch_GI (d : Nat) (o : Op1) (e : E) (hn : GI d (op1 o e))
    (r : E) (h : leafBranch o e = .ok r) : GI d r := by
  unfold leafBranch at h
  split at h
  · split at h
    · injection h with h; subst h; exact GI_zero d
    · injection h with h; subst h; exact hn
  · rw [atomNode_ok o e r h]; exact hn

theorem mulLin_GI (d : Nat) (o : Op1) (as : List E) (hn : ∀ x, WF d (op1 o x))
    (r : E) (h : mulLin o as = .ok r) : GI d r := by
  unfold mulLin at h
  split at h
  · split at h
    · injection h with h; subst h; exact GI_zero d
    · injection h with h; subst h
      exact GI_atom d _ (hn _) (by intro ts h; cases h) (by intro ts h; cases h)
  · injection h with h; subst h
    apply GI_mul
    intro x hx
    simp only [List.mem_cons, List.not_mem_nil, or_false] at hx
    rcases hx with rfl | rfl
    · exact WF_scal d _ (Scal_mulOf d _ (fun a ha => isNumber_Scal d a (List.mem_filter.mp ha).2))
    · exact hn _

/-! Curl -/

theorem WF_curl (d : Nat) (x : E) : WF d (op1 .curl x) := by
  constructor
  · simp only [rank]; split <;> omega
  · intro hc
    simp only [isComm, Bool.and_eq_true, beq_iff_eq] at hc
    simp [Scal, hc.1]

theorem GI_curl (d : Nat) (x : E) : GI d (op1 .curl x) :=
  GI_atom d _ (WF_curl d x) (by intro ts h; cases h) (by intro ts h; cases h)

theorem curlEval_GI (d : Nat) (e : E) (r : E) (h : curlEval d e = .ok r) : GI d r := by
  have key : ∀ e r, leafBranch .curl e = .ok r → GI d r :=
    fun e r h => leafBranch_GI d .curl e (GI_curl d e) r h
  induction e using E.rec
    (motive_2 := fun as => ∀ a ∈ as, ∀ r, curlEval d a = .ok r → GI d r)
    generalizing r with
  | add as ih =>
    rw [curlEval_add] at h
    exact addBranch_GI d .curl (curlEval d) as (GI_curl d _) (GI_curl d _) ih r h
  | mul as _ =>
    rw [curlEval_mul] at h
    exact mulLin_GI d .curl as (WF_curl d) r h
  | nil => cases ‹_ ∈ []›
  | cons a as iha ihas =>
    rename_i x hx r' hr
    rcases List.mem_cons.mp hx with rfl | hx
    · exact iha r' hr
    · exact ihas x hx r' hr
  | op1 o a _ =>
    cases o with
    | grad =>
      simp only [curlEval] at h
      split at h
      · split at h
        · injection h with h; subst h; exact GI_zero d
        · injection h with h; subst h; exact GI_curl d _
      · injection h with h; subst h; exact GI_zero d
    | _ =>
      exact key _ r (by simpa only [curlEval, leafBranch] using h)
  | _ =>
    exact key _ r (by simpa only [curlEval, leafBranch] using h)

/-! Grad of scalar expressions -/

theorem WF_grad (d : Nat) (x : E) (h : Scal d x = true) : WF d (op1 .grad x) := by
  constructor
  · simp only [rank, Scal_rank d x h]; omega
  · intro hc; simp [isComm] at hc

theorem GI_grad (d : Nat) (x : E) (h : Scal d x = true) : GI d (op1 .grad x) :=
  GI_atom d _ (WF_grad d x h) (by intro ts h; cases h) (by intro ts h; cases h)

theorem gradEval_add (d : Nat) (as : List E) :
    gradEval d (add as) = addBranch .grad (gradEval d) as := by
  simp only [gradEval, gradEvalListE_eq, addBranch]

theorem gradProd_GI (d : Nat) (l : List (E × Except Err E))
    (hl : ∀ p ∈ l, Scal d p.1 = true ∧ ∀ r, p.2 = .ok r → GI d r)
    (v : E) (h : gradProd l = .ok v) : GI d v := by
  induction l generalizing v with
  | nil =>
    simp only [gradProd] at h
    injection h with h; subst h; exact GI_zero d
  | cons p rest ih =>
    obtain ⟨f, g⟩ := p
    have hp := hl (f, g) (by simp)
    cases rest with
    | nil =>
      simp only [gradProd] at h
      exact hp.2 v h
    | cons q rest' =>
      have hrest : ∀ p ∈ q :: rest', Scal d p.1 = true ∧ ∀ r, p.2 = .ok r → GI d r :=
        fun p hp' => hl p (by simp [hp'])
      simp only [gradProd, bind, Except.bind] at h
      cases hg : g with
      | error e => rw [hg] at h; cases h
      | ok g1 =>
        rw [hg] at h
        simp only at h
        cases hg2 : gradProd (q :: rest') with
        | error e => rw [hg2] at h; cases h
        | ok g2 =>
          rw [hg2] at h
          injection h with h; subst h
          have h1 := hp.2 g1 hg
          have h2 := ih hrest g2 hg2
          apply GI_add
          intro t ht
          simp only [List.mem_cons, List.not_mem_nil, or_false] at ht
          rcases ht with rfl | rfl
          · apply GI_mul
            intro x hx
            simp only [List.mem_cons, List.not_mem_nil, or_false] at hx
            rcases hx with rfl | rfl
            · exact WF_scal d _ hp.1
            · exact h2.wf
          · apply GI_mul
            intro x hx
            simp only [List.mem_cons, List.not_mem_nil, or_false] at hx
            rcases hx with rfl | rfl
            · exact h1.wf
            · apply WF_scal
              apply Scal_mulOf
              intro a ha
              obtain ⟨p', hp', rfl⟩ := List.mem_map.mp ha
              exact (hrest p' hp').1

theorem WF_of_mem4 {d : Nat} {a b c : E} (ha : WF d a) (hb : WF d b) (hc : WF d c) :
    ∀ x ∈ [a, b, c], WF d x := by
  intro x hx
  simp only [List.mem_cons, List.not_mem_nil, or_false] at hx
  rcases hx with rfl | rfl | rfl <;> assumption

theorem WF_of_mem2 {d : Nat} {a b : E} (ha : WF d a) (hb : WF d b) :
    ∀ x ∈ [a, b], WF d x := by
  intro x hx
  simp only [List.mem_cons, List.not_mem_nil, or_false] at hx
  rcases hx with rfl | rfl <;> assumption

theorem GI_of_mem2 {d : Nat} {a b : E} (ha : GI d a) (hb : GI d b) :
    ∀ x ∈ [a, b], GI d x := by
  intro x hx
  simp only [List.mem_cons, List.not_mem_nil, or_false] at hx
  rcases hx with rfl | rfl <;> assumption

theorem Scal_predExp (d : Nat) (e : E) (h : Scal d e = true) : Scal d (predExp e) = true := by
  unfold predExp
  split
  · simp [Scal]
  · simp [Scal, ScalList, h]

/-- the result of `Grad.eval` on a scalar expression is an admissible argument of Dot -/
theorem gradEval_GI (d : Nat) (e : E) (hs : Scal d e = true) (r : E) (h : gradEval d e = .ok r) :
    GI d r := by
  have key : ∀ e r, Scal d e = true → leafBranch .grad e = .ok r → GI d r :=
    fun e r hs h => leafBranch_GI d .grad e (GI_grad d e hs) r h
  induction e using E.rec
    (motive_2 := fun as => ∀ a ∈ as, Scal d a = true → ∀ r, gradEval d a = .ok r → GI d r)
    generalizing r with
  | add as ih =>
    have hs' : ∀ a ∈ as, Scal d a = true := by simpa [Scal, ScalList_iff] using hs
    rw [gradEval_add] at h
    exact addBranch_GI d .grad (gradEval d) as (GI_grad d _ hs)
      (GI_grad d _ (Scal_addOf d _ (fun a ha => hs' a (List.mem_filter.mp ha).1)))
      (fun a ha r hr => ih a ha (hs' a ha) r hr) r h
  | mul as ih =>
    have hs' : ∀ a ∈ as, Scal d a = true := by simpa [Scal, ScalList_iff] using hs
    have hsub : ∀ (p : E → Bool), ∀ a ∈ as.filter p, a ∈ as := fun p a ha => (List.mem_filter.mp ha).1
    have hm : ∀ (l : List E), (∀ a ∈ l, a ∈ as) → Scal d (Calc.mulOf l) = true :=
      fun l hl => Scal_mulOf d l (fun a ha => hs' a (hl a ha))
    simp only [gradEval] at h
    split at h
    · split at h
      · injection h with h; subst h; exact GI_zero d
      · injection h with h; subst h; exact GI_grad d _ hs
    · simp only [gradEvalListE_eq] at h
      have hcfS : ∀ p ∈ (as.zip (as.map (gradEval d))).filter
          (fun p => isComm d p.1 && !Calc.isNumber p.1 && hasF p.1),
          Scal d p.1 = true ∧ ∀ r, p.2 = .ok r → GI d r := by
        intro p hp
        have hm' := mem_zip_map (gradEval d) as p (List.mem_filter.mp hp).1
        refine ⟨hs' _ hm'.1, ?_⟩
        intro r hr
        rw [hm'.2] at hr
        exact ih p.1 hm'.1 (hs' _ hm'.1) r hr
      have hA : WF d (Calc.mulOf ((as.filter (isComm d)).filter Calc.isNumber)) :=
        WF_scal d _ (hm _ (fun a ha => hsub _ a (List.mem_filter.mp ha).1))
      have hB1 : Scal d (Calc.mulOf ((as.filter (isComm d)).filter (fun x => !Calc.isNumber x && !hasF x))) = true :=
        hm _ (fun a ha => hsub _ a (List.mem_filter.mp ha).1)
      have hB2 : Scal d (Calc.mulOf (((as.zip (as.map (gradEval d))).filter
          (fun p => isComm d p.1 && !Calc.isNumber p.1 && hasF p.1)).map (·.1))) = true := by
        rw [filter_zip_fst (fun x => isComm d x && !Calc.isNumber x && hasF x) (gradEval d) as]
        exact hm _ (hsub _)
      split at h
      · injection h with h; subst h
        apply GI_mul
        apply WF_of_mem2 hA
        apply WF_grad
        simp only [Scal, ScalList, Bool.and_true, Bool.and_eq_true]
        exact ⟨hB1, hB2, hm _ (hsub _)⟩
      · split at h
        · simp only [bind, Except.bind] at h
          split at h
          · cases h
          · rename_i db2 hdb2
            injection h with h; subst h
            have hg := gradProd_GI d _ hcfS db2 hdb2
            apply GI_add
            apply GI_of_mem2
            · exact GI_mul d _ (WF_of_mem4 hA (WF_scal d _ hB1) hg.wf)
            · exact GI_mul d _ (WF_of_mem4 hA (WF_grad d _ hB1) (WF_scal d _ hB2))
        · split at h
          · simp only [bind, Except.bind] at h
            split at h
            · cases h
            · rename_i db2 hdb2
              injection h with h; subst h
              have hg := gradProd_GI d _ hcfS db2 hdb2
              exact GI_mul d _ (WF_of_mem2 hA hg.wf)
          · injection h with h; subst h; exact GI_zero d
  | nil => cases ‹_ ∈ []›
  | cons a as iha ihas =>
    rename_i x hx h1 r' hr
    rcases List.mem_cons.mp hx with rfl | hx
    · exact iha h1 r' hr
    · exact ihas x hx h1 r' hr
  | pow b e ihb ihe =>
    have hsb : Scal d b = true := by simp only [Scal, Bool.and_eq_true] at hs; exact hs.1
    have hse : Scal d e = true := by simp only [Scal, Bool.and_eq_true] at hs; exact hs.2
    simp only [gradEval] at h
    split at h
    · split at h
      · injection h with h; subst h; exact GI_zero d
      · injection h with h; subst h; exact GI_grad d _ hs
    · simp only [bind, Except.bind] at h
      cases hgb : gradEval d b with
      | error x => rw [hgb] at h; cases h
      | ok gb =>
        rw [hgb] at h
        simp only at h
        have hb := ihb hsb gb hgb
        have hp : Scal d (pow b (predExp e)) = true := by
          simp only [Scal, Bool.and_eq_true]; exact ⟨hsb, Scal_predExp d e hse⟩
        have ht1 : GI d (mul [e, gb, pow b (predExp e)]) :=
          GI_mul d _ (WF_of_mem4 (WF_scal d _ hse) hb.wf (WF_scal d _ hp))
        split at h
        · injection h with h; subst h; exact ht1
        · cases hge : gradEval d e with
          | error x => rw [hge] at h; cases h
          | ok ge =>
            rw [hge] at h
            injection h with h; subst h
            have he := ihe hse ge hge
            apply GI_add
            apply GI_of_mem2 ht1
            apply GI_mul
            apply WF_of_mem4 _ _ he.wf
            · exact WF_scal d _ (by simpa [Scal] using hsb)
            · exact WF_scal d _ hs
  | _ => exact key _ r hs (by simpa only [gradEval, leafBranch] using h)

/-! ### Laplace -/

theorem laplaceEvalListE_eq (d : Nat) (as : List E) :
    laplaceEvalListE d as = as.map (laplaceEval d) := by
  induction as with
  | nil => simp [laplaceEvalListE]
  | cons a as ih => simp [laplaceEvalListE, ih]

theorem laplaceEval_add (d : Nat) (as : List E) :
    laplaceEval d (add as) = addBranch .laplace (laplaceEval d) as := by
  simp only [laplaceEval, laplaceEvalListE_eq, addBranch]

mutual
/-- the product rule of `Laplace.eval` (two non-numeric factors, both flagged commutative) is
    only applied to genuine scalars -/
def LapOK (d : Nat) : E → Bool
  | add as => LapOKList d as
  | mul as =>
      (match nonNum as with
       | [f, g] => !(isComm d f && isComm d g) || (Scal d f && Scal d g)
       | _ => true)
  | _ => true
def LapOKList (d : Nat) : List E → Bool
  | [] => true
  | a :: as => LapOK d a && LapOKList d as
end

theorem LapOKList_iff (d : Nat) (as : List E) : LapOKList d as = as.all (LapOK d) := by
  induction as with
  | nil => simp [LapOKList]
  | cons a as ih => simp [LapOKList, ih]

theorem Scal_LapOK (d : Nat) (e : E) (h : Scal d e = true) : LapOK d e = true := by
  induction e using E.rec
    (motive_2 := fun as => ∀ a ∈ as, Scal d a = true → LapOK d a = true) with
  | add as ih =>
    simp only [Scal, ScalList_iff, List.all_eq_true] at h
    simp only [LapOK, LapOKList_iff, List.all_eq_true]
    exact fun a ha => ih a ha (h a ha)
  | mul as _ =>
    simp only [Scal, ScalList_iff, List.all_eq_true] at h
    simp only [LapOK]
    split
    · rename_i f g hfg
      have hf : f ∈ as := (List.mem_filter.mp (by rw [show List.filter _ as = nonNum as from rfl, hfg]; simp : f ∈ as.filter _)).1
      have hg : g ∈ as := (List.mem_filter.mp (by rw [show List.filter _ as = nonNum as from rfl, hfg]; simp : g ∈ as.filter _)).1
      simp [h f hf, h g hg]
    · rfl
  | nil => cases ‹_ ∈ []›
  | cons a as iha ihas =>
    rename_i x hx hs
    rcases List.mem_cons.mp hx with rfl | hx
    · exact iha hs
    · exact ihas x hx hs
  | _ => simp [LapOK]

/-- Dot of two computed gradients = Dot of the gradient nodes -/
theorem dot_grads (S : DRing K) (d : Nat) (lg : Bool) (f g gf gg : E)
    (hf : Scal d f = true) (hg : Scal d g = true) (hgf : GI d gf) (hgg : GI d gg)
    (sf : ∀ i j, denG S d lg gf i j = Di S lg i (denG S d lg f 0 0))
    (sg : ∀ i j, denG S d lg gg i j = Di S lg i (denG S d lg g 0 0)) (i j : Nat) :
    denG S d lg (op2 .dot gf gg) i j = denG S d lg (op2 .dot (op1 .grad f) (op1 .grad g)) i j := by
  have e1 := bil_is S d lg .dot gf gg i j
  have e2 := bil_is S d lg .dot (op1 .grad f) (op1 .grad g) i j
  simp only [BK.op] at e1 e2
  have m1 : isMat d (op1 .grad f) = false := by simp [isMat, rank, Scal_rank d f hf]
  have m2 : isMat d (op1 .grad g) = false := by simp [isMat, rank, Scal_rank d g hg]
  rw [e1, e2, (GI_BilOK d gf hgf).2, (GI_BilOK d gg hgg).2, m1, m2]
  simp only [bilSem, Bool.false_eq_true, if_false]
  apply sumN_congr
  intro k _
  rw [sf, sg]
  simp [denG, Scal_rank d f hf, Scal_rank d g hg]

/-- the product-rule branch of `Laplace.eval` -/
theorem lapProd_sound (S : DRing K) (d : Nat) (lg : Bool) (as : List E) (f g : E)
    (hnn : nonNum as = [f, g]) (hsf : Scal d f = true) (hsg : Scal d g = true)
    (hnd : NonDegG S d lg (mul as))
    (lf lg' gf gg dt : E)
    (hlf : ∀ i j, denG S d lg lf i j = denG S d lg (op1 .laplace f) i j)
    (hlg : ∀ i j, denG S d lg lg' i j = denG S d lg (op1 .laplace g) i j)
    (hgf : gradEval d f = .ok gf) (hgg : gradEval d g = .ok gg)
    (hdt : mkBilin d .dot gf gg = .ok dt) :
    ∀ i j, denG S d lg (mul [Calc.mulOf (numCoeffs as),
        add [mul [f, lg'], mul [g, lf], mul [num 2 1, dt]]]) i j
      = denG S d lg (op1 .laplace (mul as)) i j := by
  intro i j
  have hnd' : ∀ a ∈ as, NonDegG S d lg a :=
    fun a ha => NonDegGList_mem S d lg as (by simpa [NonDegG] using hnd) a ha
  have hfm : f ∈ as := (List.mem_filter.mp (by
    rw [show List.filter _ as = nonNum as from rfl, hnn]; simp : f ∈ as.filter _)).1
  have hgm : g ∈ as := (List.mem_filter.mp (by
    rw [show List.filter _ as = nonNum as from rfl, hnn]; simp : g ∈ as.filter _)).1
  have sf := gradEval_sound S d lg f hsf (hnd' f hfm) gf hgf
  have sg := gradEval_sound S d lg g hsg (hnd' g hgm) gg hgg
  have gif := gradEval_GI d f hsf gf hgf
  have gig := gradEval_GI d g hsg gg hgg
  have hdot : denG S d lg dt i j = denG S d lg (op2 .dot (op1 .grad f) (op1 .grad g)) i j := by
    have := mkBilin_sound' S d lg .dot gf gg (GI_BilOK d gf gif).1 (Or.inr (GI_BilOK d gg gig).1)
      (by intro h; cases h) (by intro h; cases h) dt hdt i j
    rw [this]
    exact dot_grads S d lg f g gf gg hsf hsg gif gig sf sg i j
  have hpull := pullNum_sound S d lg .laplace _ (lap_lin S d lg) as (lap_is S d lg _) (lap_is S d lg _) hnd i j
  rw [← hpull, denG_mul2, denG_mul2, hnn]
  congr 1
  have hm : Calc.mulOf [f, g] = mul [f, g] := rfl
  rw [hm, laplace_mul S d lg f g (Scal_rank d f hsf) (Scal_rank d g hsg)
    (Scal_spec S d lg f hsf).2 (Scal_spec S d lg g hsg).2 i j]
  simp only [denG, denGSum, denGProd] at hlf hlg hdot ⊢
  rw [hlf, hlg, hdot]

/-! ### Div -/

theorem divEvalListE_eq (d : Nat) (as : List E) : divEvalListE d as = as.map (divEval d) := by
  induction as with
  | nil => simp [divEvalListE]
  | cons a as ih => simp [divEvalListE, ih]

theorem divEval_add (d : Nat) (as : List E) :
    divEval d (add as) = addBranch .div (divEval d) as := by
  simp only [divEval, divEvalListE_eq, addBranch]

/-- Dot of two non-matrix arguments -/
theorem dot_vec (S : DRing K) (d : Nat) (lg : Bool) (a b : E) (ha : isMat d a = false)
    (hb : isMat d b = false) (i j : Nat) :
    denG S d lg (op2 .dot a b) i j = sumN d (fun k => denG S d lg a k 0 * denG S d lg b k 0) := by
  have e1 := bil_is S d lg .dot a b i j
  simp only [BK.op] at e1
  rw [e1, ha, hb]
  simp only [bilSem, Bool.false_eq_true, if_false]

theorem isMat_of_rank_le (d : Nat) (t : E) (h : rank d t ≤ 1) : isMat d t = false := by
  simp only [isMat, beq_eq_false_iff_ne, ne_eq]; omega

/-- **div(f F) = f div F + F · grad f** for either order of the two factors -/
theorem div_prod (S : DRing K) (d : Nat) (lg : Bool) (F f X : E) (hX : X = mul [F, f] ∨ X = mul [f, F])
    (hF : rank d F = 1) (hf : Scal d f = true) (i j : Nat) :
    denG S d lg (op1 .div X) i j
      = denG S d lg f 0 0 * denG S d lg (op1 .div F) i j
        + sumN d (fun k => denG S d lg F k 0 * Di S lg k (denG S d lg f 0 0)) := by
  have hfr := Scal_rank d f hf
  have hfree := (Scal_spec S d lg f hf).2
  have hr : rank d X = 1 := by
    rcases hX with rfl | rfl <;> simp [rank, rankMax, hF, hfr]
  have hval : ∀ k, denG S d lg X k 0 = denG S d lg f 0 0 * denG S d lg F k 0 := by
    intro k
    rcases hX with rfl | rfl <;> simp only [denG, denGProd, mul_one] <;> rw [hfree k 0] <;> ring
  simp only [denG, hr, hF, if_true]
  simp only [hval]
  rw [← sumN_mul_left, ← sumN_add]
  apply sumN_congr
  intro k _
  rw [Di_mul]; ring

/-- **div(a × b) = b · curl a − a · curl b** (3D) -/
theorem div_cross (S : DRing K) (lg : Bool) (a b : E) (i j : Nat) :
    denG S 3 lg (op1 .div (op2 .cross a b)) i j
      = sumN 3 (fun k => denG S 3 lg b k 0 * denG S 3 lg (op1 .curl a) k 0)
        - sumN 3 (fun k => denG S 3 lg a k 0 * denG S 3 lg (op1 .curl b) k 0) := by
  have hr : rank 3 (op2 .cross a b) = 1 := by simp [rank]
  simp only [denG, hr, if_true, sumN, Di_sub, Di_mul]
  ring

theorem isVecLike_spec (d : Nat) (a : E) (h : isVecLike a = true) :
    BilOK d a = true ∧ rank d a = 1 := by
  cases a <;> simp_all [isVecLike, BilOK, facOK, factors, csOK, isComm, rank]

theorem rank_mul_nonNum (d : Nat) (as : List E) : rank d (mul as) = rankMax d (nonNum as) := by
  simp only [rank]
  exact rankMax_filter d Calc.isNumber as (fun x _ hx => isNumber_rank d x hx)

theorem div_is_rank (S : DRing K) (d : Nat) (lg : Bool) (a : E) (r : Nat) (h : rank d a = r) :
    OpIs S d lg .div (divSem S d lg r) a := by
  subst h; exact div_is S d lg a

/-- numeric factors come out of Div -/
theorem div_pullNum (S : DRing K) (d : Nat) (lg : Bool) (as : List E) (hnd : NonDegG S d lg (mul as)) :
    ∀ i j, denG S d lg (mul [Calc.mulOf (numCoeffs as), op1 .div (Calc.mulOf (nonNum as))]) i j
      = denG S d lg (op1 .div (mul as)) i j :=
  pullNum_sound S d lg .div _ (div_lin S d lg (rank d (mul as))) as (div_is S d lg _)
    (div_is_rank S d lg _ _ (by rw [rank_mulOf, rank_mul_nonNum])) hnd

/-- the product-rule branch of `Div.eval` (vector `F`, scalar `f`, in either order) -/
theorem divProd_sound (S : DRing K) (d : Nat) (lg : Bool) (as : List E) (F f : E)
    (hnn : nonNum as = [F, f] ∨ nonNum as = [f, F])
    (hv : isVecLike F = true) (hsf : Scal d f = true) (hnd : NonDegG S d lg (mul as))
    (gf dt : E) (hgf : gradEval d f = .ok gf) (hdt : mkBilin d .dot F gf = .ok dt) :
    ∀ i j, denG S d lg (mul [Calc.mulOf (numCoeffs as), add [mul [f, op1 .div F], dt]]) i j
      = denG S d lg (op1 .div (mul as)) i j := by
  intro i j
  have hnd' : ∀ a ∈ as, NonDegG S d lg a :=
    fun a ha => NonDegGList_mem S d lg as (by simpa [NonDegG] using hnd) a ha
  have hfm : f ∈ as := by
    have : f ∈ nonNum as := by rcases hnn with h | h <;> rw [h] <;> simp
    exact (List.mem_filter.mp this).1
  obtain ⟨hFb, hFr⟩ := isVecLike_spec d F hv
  have sf := gradEval_sound S d lg f hsf (hnd' f hfm) gf hgf
  have gif := gradEval_GI d f hsf gf hgf
  have hdot : denG S d lg dt i j
      = sumN d (fun k => denG S d lg F k 0 * Di S lg k (denG S d lg f 0 0)) := by
    rw [mkBilin_sound' S d lg .dot F gf hFb (Or.inr (GI_BilOK d gf gif).1)
      (by intro h; cases h) (by intro h; cases h) dt hdt i j]
    have e := dot_vec S d lg F gf (isMat_of_rank_le d F (by omega)) (GI_BilOK d gf gif).2 i j
    simp only [BK.op]
    rw [e]
    apply sumN_congr
    intro k _
    rw [sf]
  rw [← div_pullNum S d lg as hnd i j, denG_mul2, denG_mul2]
  congr 1
  have hX : Calc.mulOf (nonNum as) = mul [F, f] ∨ Calc.mulOf (nonNum as) = mul [f, F] := by
    rcases hnn with h | h
    · left; rw [h]; rfl
    · right; rw [h]; rfl
  rw [div_prod S d lg F f _ hX hFr hsf i j, denG_add2, denG_mul2, hdot,
    (Scal_spec S d lg f hsf).2 i j]

/-- the `div(a × b)` branch of `Div.eval` (3D) -/
theorem divCross_sound (S : DRing K) (lg : Bool) (a b : E)
    (hBa : BilOK 3 a = true) (hBb : BilOK 3 b = true) (hra : rank 3 a ≤ 1) (hrb : rank 3 b ≤ 1)
    (hnda : NonDegG S 3 lg a) (hndb : NonDegG S 3 lg b)
    (ca cb t1 t2 : E) (hca : curlEval 3 a = .ok ca) (hcb : curlEval 3 b = .ok cb)
    (ht1 : mkBilin 3 .dot b ca = .ok t1) (ht2 : mkBilin 3 .dot a cb = .ok t2) :
    ∀ i j, denG S 3 lg (add [t1, mul [num (-1) 1, t2]]) i j
      = denG S 3 lg (op1 .div (op2 .cross a b)) i j := by
  intro i j
  have sa := curlEval_sound' S 3 lg a hnda ca hca
  have sb := curlEval_sound' S 3 lg b hndb cb hcb
  have ga := curlEval_GI 3 a ca hca
  have gb := curlEval_GI 3 b cb hcb
  have h1 : denG S 3 lg t1 i j
      = sumN 3 (fun k => denG S 3 lg b k 0 * denG S 3 lg (op1 .curl a) k 0) := by
    rw [mkBilin_sound' S 3 lg .dot b ca hBb (Or.inr (GI_BilOK 3 ca ga).1)
      (by intro h; cases h) (by intro h; cases h) t1 ht1 i j]
    have e := dot_vec S 3 lg b ca (isMat_of_rank_le 3 b hrb) (GI_BilOK 3 ca ga).2 i j
    simp only [BK.op]
    rw [e]
    apply sumN_congr
    intro k _
    rw [sa]
  have h2 : denG S 3 lg t2 i j
      = sumN 3 (fun k => denG S 3 lg a k 0 * denG S 3 lg (op1 .curl b) k 0) := by
    rw [mkBilin_sound' S 3 lg .dot a cb hBa (Or.inr (GI_BilOK 3 cb gb).1)
      (by intro h; cases h) (by intro h; cases h) t2 ht2 i j]
    have e := dot_vec S 3 lg a cb (isMat_of_rank_le 3 a hra) (GI_BilOK 3 cb gb).2 i j
    simp only [BK.op]
    rw [e]
    apply sumN_congr
    intro k _
    rw [sb]
  rw [div_cross, denG_add2, denG_mul2, h1, h2]
  have hm1 : denG S 3 lg (num (-1) 1) i j = -1 := by simp [denG]
  rw [hm1]
  ring

mutual
/-- well-formedness of the argument of `Div.eval`: the terms of a sum have the same tensor rank;
    where the product rule `div(f F)` fires the other factor is a genuine scalar; `div(a × b)`
    and `div(curl a)` are rewritten in 3D only, `a` and `b` being admissible arguments of Dot
    of rank at most 1 -/
def DivOK (d : Nat) : E → Bool
  | add as => DivOKList d as && as.all (fun t => rank d t == rank d (add as))
  | mul as =>
      (match nonNum as with
       | [a, b] => if isVecLike a then Scal d b else if isVecLike b then Scal d a else true
       | _ => true)
  | op2 .cross a b =>
      !(hasF a || hasF b)
        || (d == 3 && BilOK d a && BilOK d b && decide (rank d a ≤ 1) && decide (rank d b ≤ 1))
  | op1 .curl a => !hasF a || d == 3
  | _ => true
def DivOKList (d : Nat) : List E → Bool
  | [] => true
  | a :: as => DivOK d a && DivOKList d as
end

theorem DivOKList_iff (d : Nat) (as : List E) : DivOKList d as = as.all (DivOK d) := by
  induction as with
  | nil => simp [DivOKList]
  | cons a as ih => simp [DivOKList, ih]

mutual
/-- `NonDegG` of the expression, of the terms of its sums, and of the two arguments of a Cross
    product that gets rewritten (`NonDegG` itself does not look inside operator nodes) -/
def NonDegD (S : DRing K) (d : Nat) (lg : Bool) : E → Prop
  | add as => NonDegG S d lg (add as) ∧ NonDegDList S d lg as
  | op2 .cross a b => NonDegG S d lg a ∧ NonDegG S d lg b
  | e => NonDegG S d lg e
def NonDegDList (S : DRing K) (d : Nat) (lg : Bool) : List E → Prop
  | [] => True
  | a :: as => NonDegD S d lg a ∧ NonDegDList S d lg as
end

theorem NonDegDList_mem (S : DRing K) (d : Nat) (lg : Bool) (as : List E) (h : NonDegDList S d lg as)
    (a : E) (ha : a ∈ as) : NonDegD S d lg a := by
  induction as with
  | nil => cases ha
  | cons x xs ih =>
    simp only [NonDegDList] at h
    rcases List.mem_cons.mp ha with rfl | ha
    · exact h.1
    · exact ih h.2 ha

theorem NonDegD_G (S : DRing K) (d : Nat) (lg : Bool) (e : E) (h : NonDegD S d lg e) :
    NonDegG S d lg e := by
  cases e with
  | add as => exact h.1
  | op2 o a b => cases o <;> simp [NonDegG]
  | _ => exact h

end Sympde
