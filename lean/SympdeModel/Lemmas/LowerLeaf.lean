/-
  Helper lemmas for C01 (`lower_sound`), part 3: the generic leaf step for unary and binary
  operators (through the generated index `Gen.leaf_index`), the forms of lowered values, and
  sums and products of lowered values.
-/
import SympdeModel.Lemmas.LowerOps
import SympdeModel.Gen.LeafThms
namespace Sympde.Lower
open E Gen
open DRing (sumN)

variable {K : Type} [CommRing K] [Algebra ℚ K]

/-! ### the generated index of leaf theorems -/

def findEntry (cn sg : String) : Option LeafEntry :=
  leafIndex.find? (fun r => r.cname == cn && r.sigs == sg)

theorem findEntry_sound (S : DRing K) (cn sg : String) (r : LeafEntry) (h : findEntry cn sg = some r) :
    ∀ i j, i < r.ri → j < r.rj → den S r.F i j = denG S r.dim r.lg r.node i j :=
  leaf_index S r (List.mem_of_find?_eq_some h)

/-- the placeholder argument of signature `c` at position `k` in dimension `d`
    (harness/translate/leaf.py `placeholder_term`) -/
def ph (k : Nat) (c : Char) (d : Nat) : E :=
  if c = 'v' then
    mat d 1 ((List.range d).map (fun i => sf ("@" ++ toString k ++ "_" ++ toString i) .undef))
  else if c = 'm' then
    mat d d ((List.range d).flatMap (fun i => (List.range d).map (fun j =>
      sf ("@" ++ toString k ++ "_" ++ toString i ++ "_" ++ toString j) .undef)))
  else sf ("@" ++ toString k) .undef

/-- **unary leaf step**: a covered class applied to a lowered argument returns a value, and every
    value it returns has the shape and the components of the classical operator -/
theorem leaf1_sound (S : DRing K) (d : Nat) (hd : 1 ≤ d) (lg : Bool) (o : Op1) (τa τ : Ty)
    (hty : ty1 d o τa = some τ) (cname : String) (c : Char) (r : LeafEntry) (P : E)
    (hk : classKnown cname = true)
    (hr : findEntry cname (String.ofList [c]) = some r)
    (hl : lookup cname (String.ofList [c]) = some (.formula r.F))
    (hdim : r.dim = d) (hlg : r.lg = lg) (hnode : r.node = op1 o P)
    (hri : r.ri = rows d τ) (hrj : r.rj = cols d τ)
    (hF : shapeOK d τ r.F = true)
    (hrk : d = 1 ∨ rank d P = rk τa)
    (a a' : E) (hVF : VF a' = true) (hsig : sigOf d a' = some c)
    (hra : rank d a = rk τa)
    (hP : ∀ i j, InR d τa i j → denG (bindS S (sigmaOf d [a'])) d lg P i j = den S a' i j)
    (IH : ∀ i j, InR d τa i j → den S a' i j = denG S d lg a i j) :
    (∃ t, applyLeaf d cname [a'] = .ok t) ∧ ∀ t, applyLeaf d cname [a'] = .ok t →
      hasShape d τ t = true ∧ ∀ i j, InR d τ i j → den S t i j = denG S d lg (op1 o a) i j := by
  have hsigs : [a'].mapM (sigOf d) = some [c] := by simp [hsig]
  rw [applyLeaf_formula d cname [a'] [c] r.F hk hsigs hl]
  have hσ := sigmaOf_LS d [a'] (by simpa using hVF)
  refine ⟨inst_shape_total d _ hσ τ r.F hF, fun t h => ?_⟩
  obtain ⟨hshape, hden⟩ := inst_shape S d _ hσ τ r.F hF t h
  refine ⟨hshape, fun i j hij => ?_⟩
  rw [hden i j]
  have hb := (InR_iff d τ i j).mp hij
  rw [findEntry_sound (bindS S _) cname _ r hr i j (by rw [hri]; exact hb.1) (by rw [hrj]; exact hb.2),
    hdim, hlg, hnode]
  rw [denG_op1, denG_op1, op1sem_bindS, hra]
  have hcongr := op1sem_congr S d hd lg o τa τ hty (denG (bindS S (sigmaOf d [a'])) d lg P)
    (denG S d lg a) (fun i j h => (hP i j h).trans (IH i j h)) i j hij
  rcases hrk with h1 | hrP
  · subst h1
    obtain ⟨rfl, rfl⟩ := (InR_one τ i j).mp hij
    rw [op1sem_rank_1d S lg o τa τ hty (rank 1 P) (rk τa)]
    exact hcongr
  · rw [hrP]; exact hcongr

/-- **binary leaf step** -/
theorem leaf2_sound (S : DRing K) (d : Nat) (hd : 1 ≤ d) (lg : Bool) (o : Op2) (τa τb τ : Ty)
    (hty : ty2 d o τa τb = some τ) (cname : String) (ca cb : Char) (r : LeafEntry) (P Q : E)
    (hk : classKnown cname = true)
    (hr : findEntry cname (String.ofList [ca, cb]) = some r)
    (hl : lookup cname (String.ofList [ca, cb]) = some (.formula r.F))
    (hdim : r.dim = d) (hlg : r.lg = lg ∨ o = .dot ∨ o = .cross ∨ o = .inner)
    (hnode : r.node = op2 o P Q)
    (hri : r.ri = rows d τ) (hrj : r.rj = cols d τ)
    (hF : shapeOK d τ r.F = true)
    (hrk : d = 1 ∨ (rank d P = rk τa ∧ rank d Q = rk τb))
    (a b a' b' : E) (hVFa : VF a' = true) (hVFb : VF b' = true)
    (hsiga : sigOf d a' = some ca) (hsigb : sigOf d b' = some cb)
    (hra : rank d a = rk τa) (hrb : rank d b = rk τb)
    (hP : ∀ i j, InR d τa i j → denG (bindS S (sigmaOf d [a', b'])) d r.lg P i j = den S a' i j)
    (hQ : ∀ i j, InR d τb i j → denG (bindS S (sigmaOf d [a', b'])) d r.lg Q i j = den S b' i j)
    (IHa : ∀ i j, InR d τa i j → den S a' i j = denG S d lg a i j)
    (IHb : ∀ i j, InR d τb i j → den S b' i j = denG S d lg b i j) :
    (∃ t, applyLeaf d cname [a', b'] = .ok t) ∧ ∀ t, applyLeaf d cname [a', b'] = .ok t →
      hasShape d τ t = true ∧ ∀ i j, InR d τ i j → den S t i j = denG S d lg (op2 o a b) i j := by
  have hsigs : [a', b'].mapM (sigOf d) = some [ca, cb] := by simp [hsiga, hsigb]
  rw [applyLeaf_formula d cname [a', b'] [ca, cb] r.F hk hsigs hl]
  have hσ := sigmaOf_LS d [a', b'] (by
    intro x hx
    simp only [List.mem_cons, List.not_mem_nil, or_false] at hx
    rcases hx with rfl | rfl <;> assumption)
  refine ⟨inst_shape_total d _ hσ τ r.F hF, fun t h => ?_⟩
  obtain ⟨hshape, hden⟩ := inst_shape S d _ hσ τ r.F hF t h
  refine ⟨hshape, fun i j hij => ?_⟩
  rw [hden i j]
  have hb := (InR_iff d τ i j).mp hij
  rw [findEntry_sound (bindS S _) cname _ r hr i j (by rw [hri]; exact hb.1) (by rw [hrj]; exact hb.2),
    hdim, hnode]
  rw [denG_op2, denG_op2, op2sem_bindS, hra, hrb, op2sem_lg S d r.lg lg o hlg]
  have hcongr := op2sem_congr S d hd lg o τa τb τ hty
    (denG (bindS S (sigmaOf d [a', b'])) d r.lg P) (denG S d lg a)
    (denG (bindS S (sigmaOf d [a', b'])) d r.lg Q) (denG S d lg b)
    (fun i j h => (hP i j h).trans (IHa i j h)) (fun i j h => (hQ i j h).trans (IHb i j h)) i j hij
  rcases hrk with h1 | hrP
  · subst h1
    obtain ⟨rfl, rfl⟩ := (InR_one τ i j).mp hij
    rw [op2sem_rank_1d S lg o τa τb τ hty (rank 1 P) (rank 1 Q) (rk τa) (rk τb)]
    exact hcongr
  · rw [hrP.1, hrP.2]; exact hcongr

/-! ### reading the components of a lowered value -/

theorem denNth_nth (S : DRing K) (l : List E) (n : Nat) : denNth S l n = den S (nth l n) 0 0 := by
  induction l generalizing n with
  | nil => simp [denNth, nth, den_zero]
  | cons x l ih =>
    cases n with
    | zero => simp [denNth, nth]
    | succ n => simpa [denNth, nth] using ih n

theorem den_mat_nth (S : DRing K) (r c : Nat) (es : List E) (i j : Nat) :
    den S (mat r c es) i j = if i < r ∧ j < c then den S (nth es (i * c + j)) 0 0 else 0 := by
  simp only [den, denNth_nth]

theorem sigmaOf_one (d : Nat) (a : E) : sigmaOf d [a] = bindArg d 0 a := by
  simp [sigmaOf, List.zipIdx]

theorem sigmaOf_two (d : Nat) (a b : E) : sigmaOf d [a, b] = bindArg d 0 a ++ bindArg d 1 b := by
  simp [sigmaOf, List.zipIdx]

theorem bindArg_LS_eq (d k : Nat) (a : E) (h : LS a = true) :
    bindArg d k a = [("@" ++ toString k, a)] := by
  cases a <;> simp_all [bindArg, LS]

/-- the three forms of a lowered value: a scalar form (always for a scalar; in dimension 1 also
    for a vector or matrix), a column (vectors), a square matrix (matrices; 1×1 in dimension 1) -/
theorem shape_cases (d : Nat) (τ : Ty) (t : E) (h : hasShape d τ t = true) :
    (LS t = true ∧ (τ = .s ∨ d = 1)) ∨
    (∃ es, t = mat d 1 es ∧ LSList es = true ∧ es.length = d ∧ τ = .v) ∨
    (∃ es, t = mat d d es ∧ LSList es = true ∧ es.length = d * d ∧ τ = .m) := by
  cases τ
  · left; exact ⟨by simpa [hasShape] using h, Or.inl rfl⟩
  · by_cases hm : ∃ r c es, t = mat r c es
    · obtain ⟨r, c, es, rfl⟩ := hm
      simp only [hasShape, Bool.and_eq_true, beq_iff_eq] at h
      obtain ⟨⟨⟨rfl, rfl⟩, hl⟩, hs⟩ := h
      right; left; exact ⟨es, rfl, hs, hl, rfl⟩
    · left
      cases t <;> simp_all [hasShape]
  · by_cases hm : ∃ r c es, t = mat r c es
    · obtain ⟨r, c, es, rfl⟩ := hm
      simp only [hasShape, Bool.and_eq_true, beq_iff_eq] at h
      obtain ⟨⟨⟨rfl, rfl⟩, hl⟩, hs⟩ := h
      right; right; exact ⟨es, rfl, hs, hl, rfl⟩
    · left
      cases t <;> simp_all [hasShape]

/-- the signature of a scalar form: `d` for a derivative node in dimension 1, `s` otherwise -/
theorem sigOf_LS (d : Nat) (t : E) (h : LS t = true) :
    sigOf d t = some 's' ∨ (d = 1 ∧ sigOf d t = some 'd') := by
  cases t <;> simp_all [sigOf, LS]
  by_cases hd : d = 1 <;> simp [hd]

theorem LS_VF (t : E) (h : LS t = true) : VF t = true := by
  cases t <;> simp_all [VF, LS]

/-! ### shapes: matrices and non-matrices -/

theorem hasShape_nonmat (d : Nat) (τ : Ty) (t : E) (h : hasShape d τ t = true)
    (hm : ∀ r c es, t ≠ mat r c es) : LS t = true ∧ (τ = .s ∨ d = 1) := by
  rcases shape_cases d τ t h with h1 | ⟨es, rfl, _⟩ | ⟨es, rfl, _⟩
  · exact h1
  · exact absurd rfl (hm _ _ _)
  · exact absurd rfl (hm _ _ _)

theorem hasShape_mat (d : Nat) (τ : Ty) (r c : Nat) (es : List E)
    (h : hasShape d τ (mat r c es) = true) :
    r = d ∧ c = cols d τ ∧ es.length = d * cols d τ ∧ LSList es = true ∧ τ ≠ .s := by
  cases τ <;> simp_all [hasShape, cols, LS]

theorem hasShape_mk_mat (d : Nat) (τ : Ty) (es : List E) (hτ : τ ≠ .s) (hs : LSList es = true)
    (hl : es.length = d * cols d τ) : hasShape d τ (mat d (cols d τ) es) = true := by
  cases τ <;> simp_all [hasShape, cols]

theorem hasShape_mk_LS (d : Nat) (τ : Ty) (t : E) (hs : LS t = true) (hτ : τ = .s ∨ d = 1) :
    hasShape d τ t = true := by
  cases τ
  · simpa [hasShape] using hs
  · have hd : d = 1 := by simpa using hτ
    cases t <;> simp_all [hasShape, LS]
  · have hd : d = 1 := by simpa using hτ
    cases t <;> simp_all [hasShape, LS]

theorem LS_not_mat (t : E) (h : LS t = true) : ∀ r c es, t ≠ mat r c es := by
  intro r c es he; subst he; simp [LS] at h

/-! ### sums and products of lowered values (sympy `+` and `*` on scalars and matrices) -/

theorem addV_LS (a b : E) (ha : LS a = true) (hb : LS b = true) : addV a b = .ok (add [a, b]) := by
  cases a <;> cases b <;> first | rfl | (simp only [LS] at ha; exact absurd ha Bool.false_ne_true) | (simp only [LS] at hb; exact absurd hb Bool.false_ne_true)

theorem addV_LS_mat (a : E) (ha : LS a = true) (r c : Nat) (es : List E) :
    addV a (mat r c es) = if r == 1 && c == 1 then
      .ok (mat 1 1 (([a].zip es).map (fun p => add [p.1, p.2]))) else .error .typeError := by
  cases a <;> first | rfl | (simp only [LS] at ha; exact absurd ha Bool.false_ne_true)

theorem addV_mat_LS (b : E) (hb : LS b = true) (r c : Nat) (es : List E) :
    addV (mat r c es) b = if r == 1 && c == 1 then
      .ok (mat 1 1 ((es.zip [b]).map (fun p => add [p.1, p.2]))) else .error .typeError := by
  cases b <;> first | rfl | (simp only [LS] at hb; exact absurd hb Bool.false_ne_true)

theorem mulV_LS (a b : E) (ha : LS a = true) (hb : LS b = true) : mulV a b = .ok (mul [a, b]) := by
  cases a <;> cases b <;> first | rfl | (simp only [LS] at ha; exact absurd ha Bool.false_ne_true) | (simp only [LS] at hb; exact absurd hb Bool.false_ne_true)

theorem mulV_LS_mat (a : E) (ha : LS a = true) (r c : Nat) (es : List E) :
    mulV a (mat r c es) = .ok (mat r c (es.map (fun e => mul [a, e]))) := by
  cases a <;> first | rfl | (simp only [LS] at ha; exact absurd ha Bool.false_ne_true)

theorem mulV_mat_LS (b : E) (hb : LS b = true) (r c : Nat) (es : List E) :
    mulV (mat r c es) b = .ok (mat r c (es.map (fun e => mul [e, b]))) := by
  cases b <;> first | rfl | (simp only [LS] at hb; exact absurd hb Bool.false_ne_true)

theorem denNth_zip_add (S : DRing K) (es es' : List E) (h : es.length = es'.length) (n : Nat) :
    denNth S ((es.zip es').map (fun p => add [p.1, p.2])) n = denNth S es n + denNth S es' n := by
  induction es generalizing es' n with
  | nil =>
    cases es' with
    | nil => simp [denNth]
    | cons y ys => simp at h
  | cons x xs ih =>
    cases es' with
    | nil => simp at h
    | cons y ys =>
      cases n with
      | zero => simp [denNth, den, denSum]
      | succ n => simpa [denNth] using ih ys (by simpa using h) n

theorem denNth_map_mul_left (S : DRing K) (s : E) (es : List E) (n : Nat) :
    denNth S (es.map (fun e => mul [s, e])) n = den S s 0 0 * denNth S es n := by
  induction es generalizing n with
  | nil => simp [denNth]
  | cons x xs ih =>
    cases n with
    | zero => simp [denNth, den, denProd]
    | succ n => simpa [denNth] using ih n

theorem denNth_map_mul_right (S : DRing K) (s : E) (es : List E) (n : Nat) :
    denNth S (es.map (fun e => mul [e, s])) n = denNth S es n * den S s 0 0 := by
  induction es generalizing n with
  | nil => simp [denNth]
  | cons x xs ih =>
    cases n with
    | zero => simp [denNth, den, denProd]
    | succ n => simpa [denNth] using ih n

theorem LSList_zip_add (es es' : List E) (h : LSList es = true) (h' : LSList es' = true) :
    LSList ((es.zip es').map (fun p => add [p.1, p.2])) = true := by
  apply LSList_of_mem
  intro x hx
  obtain ⟨p, hp, rfl⟩ := List.mem_map.mp hx
  have := List.of_mem_zip hp
  simp [LS, LSList, LSList_mem h this.1, LSList_mem h' this.2]

theorem LSList_map_mul (es : List E) (h : LSList es = true) (f : E → E)
    (hf : ∀ e, LS e = true → LS (f e) = true) : LSList (es.map f) = true := by
  apply LSList_of_mem
  intro x hx
  obtain ⟨e, he, rfl⟩ := List.mem_map.mp hx
  exact hf e (LSList_mem h he)

/-- a matrix-shaped and a scalar-shaped lowered value of one type: only in dimension 1, where the
    matrix is 1×1 -/
theorem mixed_1d (d : Nat) (τ : Ty) (es : List E) (hτ : τ ≠ .s) (hb : τ = .s ∨ d = 1)
    (hl : es.length = d * cols d τ) : d = 1 ∧ cols d τ = 1 ∧ ∃ e0, es = [e0] := by
  have hd : d = 1 := hb.resolve_left hτ
  subst hd
  have hc : cols 1 τ = 1 := by cases τ <;> simp_all [cols]
  rw [hc] at hl
  refine ⟨rfl, hc, ?_⟩
  cases es with
  | nil => simp at hl
  | cons x xs =>
    cases xs with
    | nil => exact ⟨x, rfl⟩
    | cons _ _ => simp at hl

/-- the sum of two lowered values of one type is a lowered value of that type, component-wise
    (in dimension 1 a scalar form and a 1×1 matrix add up to a 1×1 matrix) -/
theorem addV_sound (S : DRing K) (d : Nat) (τ : Ty) (a b t : E)
    (ha : hasShape d τ a = true) (hb : hasShape d τ b = true) (h : addV a b = .ok t) :
    hasShape d τ t = true ∧ ∀ i j, InR d τ i j → den S t i j = den S a i j + den S b i j := by
  by_cases hma : ∃ r c es, a = mat r c es
  · obtain ⟨r, c, es, rfl⟩ := hma
    obtain ⟨hr, hc, hl, hs, hτ⟩ := hasShape_mat d τ r c es ha
    subst r c
    by_cases hmb : ∃ r c es, b = mat r c es
    · obtain ⟨r', c', es', rfl⟩ := hmb
      obtain ⟨hr', hc', hl', hs', _⟩ := hasShape_mat d τ r' c' es' hb
      subst r' c'
      simp only [addV, beq_self_eq_true, Bool.and_self, if_true] at h
      injection h with h; subst h
      refine ⟨hasShape_mk_mat d τ _ hτ (LSList_zip_add es es' hs hs') (by simp [hl, hl']), ?_⟩
      intro i j _
      simp only [den]
      split
      · exact denNth_zip_add S es es' (by rw [hl, hl']) _
      · simp
    · have hb' := hasShape_nonmat d τ b hb (by
        intro r c es he; exact hmb ⟨r, c, es, he⟩)
      obtain ⟨hd, hc, e0, rfl⟩ := mixed_1d d τ es hτ hb'.2 hl
      subst hd
      rw [hc] at h ⊢
      rw [addV_mat_LS b hb'.1] at h
      simp only [beq_self_eq_true, Bool.and_self, if_true] at h
      injection h with h; subst h
      have he0 : LS e0 = true := LSList_mem hs (by simp)
      refine ⟨?_, fun i j hij => ?_⟩
      · cases τ <;> simp_all [hasShape, LS, LSList]
      · obtain ⟨rfl, rfl⟩ := (InR_one τ i j).mp hij
        simp [den, denNth, denSum]
  · have ha' := hasShape_nonmat d τ a ha (by intro r c es he; exact hma ⟨r, c, es, he⟩)
    by_cases hmb : ∃ r c es, b = mat r c es
    · obtain ⟨r', c', es', rfl⟩ := hmb
      obtain ⟨hr, hc, hl, hs, hτ⟩ := hasShape_mat d τ r' c' es' hb
      subst r' c'
      obtain ⟨hd, hc, e0, rfl⟩ := mixed_1d d τ es' hτ ha'.2 hl
      subst hd
      rw [hc] at h ⊢
      rw [addV_LS_mat a ha'.1] at h
      simp only [beq_self_eq_true, Bool.and_self, if_true] at h
      injection h with h; subst h
      have he0 : LS e0 = true := LSList_mem hs (by simp)
      refine ⟨?_, fun i j hij => ?_⟩
      · cases τ <;> simp_all [hasShape, LS, LSList]
      · obtain ⟨rfl, rfl⟩ := (InR_one τ i j).mp hij
        simp [den, denNth, denSum]
    · have hb' := hasShape_nonmat d τ b hb (by intro r c es he; exact hmb ⟨r, c, es, he⟩)
      rw [addV_LS a b ha'.1 hb'.1] at h
      injection h with h; subst h
      refine ⟨hasShape_mk_LS d τ _ (by simp [LS, LSList, ha'.1, hb'.1]) ha'.2, ?_⟩
      intro i j _; simp [den, denSum]

/-- types of products: at most one factor is not a scalar -/
def tmul : Ty → Ty → Option Ty
  | .s, τ => some τ
  | τ, .s => some τ
  | _, _ => none

theorem tmul_cases (τa τb τ : Ty) (h : tmul τa τb = some τ) :
    (τa = .s ∧ τ = τb) ∨ (τb = .s ∧ τ = τa) := by
  cases τa <;> cases τb <;> simp_all [tmul]

/-- the product of a scalar and a lowered value (either order) is a lowered value, component-wise -/
theorem mulV_sound (S : DRing K) (d : Nat) (τa τb τ : Ty) (a b t : E)
    (ha : hasShape d τa a = true) (hb : hasShape d τb b = true) (htm : tmul τa τb = some τ)
    (h : mulV a b = .ok t) :
    hasShape d τ t = true ∧ ∀ i j, den S t i j = den S a i j * den S b i j := by
  by_cases hma : ∃ r c es, a = mat r c es
  · obtain ⟨r, c, es, rfl⟩ := hma
    obtain ⟨hr, hc, hl, hs, hτ⟩ := hasShape_mat d τa r c es ha
    subst r c
    by_cases hmb : ∃ r c es, b = mat r c es
    · obtain ⟨r', c', es', rfl⟩ := hmb
      obtain ⟨_, _, _, _, hτ'⟩ := hasShape_mat d τb r' c' es' hb
      rcases tmul_cases τa τb τ htm with h1 | h1
      · exact absurd h1.1 hτ
      · exact absurd h1.1 hτ'
    · have hb' := hasShape_nonmat d τb b hb (by intro r c es he; exact hmb ⟨r, c, es, he⟩)
      have hτe : τb = .s ∧ τ = τa := by
        rcases tmul_cases τa τb τ htm with h1 | h1
        · exact absurd h1.1 hτ
        · exact h1
      obtain ⟨_, rfl⟩ := hτe
      rw [mulV_mat_LS b hb'.1] at h
      injection h with h; subst h
      refine ⟨hasShape_mk_mat d τ _ hτ (LSList_map_mul es hs _ (fun e he => by
        simp [LS, LSList, he, hb'.1])) (by simp [hl]), ?_⟩
      intro i j
      simp only [den]
      split
      · rw [denNth_map_mul_right, den_LS_free S b hb'.1 i j]
      · simp
  · have ha' := hasShape_nonmat d τa a ha (by intro r c es he; exact hma ⟨r, c, es, he⟩)
    by_cases hmb : ∃ r c es, b = mat r c es
    · obtain ⟨r', c', es', rfl⟩ := hmb
      obtain ⟨hr, hc, hl, hs, hτ⟩ := hasShape_mat d τb r' c' es' hb
      subst r' c'
      have hτe : τa = .s ∧ τ = τb := by
        rcases tmul_cases τa τb τ htm with h1 | h1
        · exact h1
        · exact absurd h1.1 hτ
      obtain ⟨_, rfl⟩ := hτe
      rw [mulV_LS_mat a ha'.1] at h
      injection h with h; subst h
      refine ⟨hasShape_mk_mat d τ _ hτ (LSList_map_mul es' hs _ (fun e he => by
        simp [LS, LSList, he, ha'.1])) (by simp [hl]), ?_⟩
      intro i j
      simp only [den]
      split
      · rw [denNth_map_mul_left, den_LS_free S a ha'.1 i j]
      · simp
    · have hb' := hasShape_nonmat d τb b hb (by intro r c es he; exact hmb ⟨r, c, es, he⟩)
      rw [mulV_LS a b ha'.1 hb'.1] at h
      injection h with h; subst h
      have hτ : τ = .s ∨ d = 1 := by
        rcases tmul_cases τa τb τ htm with h1 | h1
        · rw [h1.2]; exact hb'.2
        · rw [h1.2]; exact ha'.2
      refine ⟨hasShape_mk_LS d τ _ (by simp [LS, LSList, ha'.1, hb'.1]) hτ, ?_⟩
      intro i j; simp [den, denProd]

theorem foldAdd_soundR (S : DRing K) (d : Nat) (τ : Ty) (ts : List E) (acc t : E)
    (hacc : hasShape d τ acc = true) (hts : ∀ x ∈ ts, hasShape d τ x = true)
    (h : ts.foldlM addV acc = .ok t) :
    hasShape d τ t = true ∧
      ∀ i j, InR d τ i j → den S t i j = den S acc i j + denSum S ts i j := by
  induction ts generalizing acc with
  | nil =>
    simp only [List.foldlM_nil, pure, Except.pure] at h
    injection h with h; subst h
    exact ⟨hacc, fun i j _ => by simp [denSum]⟩
  | cons x ts ih =>
    simp only [List.foldlM_cons, bind, Except.bind] at h
    cases h1 : addV acc x with
    | error e => rw [h1] at h; cases h
    | ok acc' =>
      rw [h1] at h
      have hx := addV_sound S d τ acc x acc' hacc (hts x (by simp)) h1
      have := ih acc' hx.1 (fun y hy => hts y (by simp [hy])) h
      refine ⟨this.1, fun i j hij => ?_⟩
      rw [this.2 i j hij, hx.2 i j hij]; simp only [denSum]; ring

/-- the sum of scalar forms, at every pair of indices (statement kept for Lemmas/NormLower.lean; the
    general, in-range statement is `foldAdd_soundR`) -/
theorem foldAdd_sound (S : DRing K) (d : Nat) (τ : Ty) (ts : List E) (acc t : E)
    (hacc : hasShape d τ acc = true) (hts : ∀ x ∈ ts, hasShape d τ x = true)
    (h : ts.foldlM addV acc = .ok t) (hτ : τ = .s := by rfl) :
    hasShape d τ t = true ∧ ∀ i j, den S t i j = den S acc i j + denSum S ts i j := by
  subst hτ
  have := foldAdd_soundR S d .s ts acc t hacc hts h
  refine ⟨this.1, fun i j => ?_⟩
  rw [den_LS_free S t (hasShape_s_LS d t this.1) i j, this.2 0 0 ⟨rfl, rfl⟩,
    den_LS_free S acc (hasShape_s_LS d acc hacc) i j]
  congr 1
  exact (denSum_congr S ts i j 0 0 (fun x hx => den_LS_free S x (hasShape_s_LS d x (hts x hx)) i j)).symm

/-- the type of a product, accumulated from the left -/
def tmulList : Ty → List Ty → Option Ty
  | τ, [] => some τ
  | τ, τx :: τs => (tmul τ τx).bind (fun τ' => tmulList τ' τs)

theorem foldMul_sound (S : DRing K) (d : Nat) (ts : List E) (τs : List Ty) (acc t : E) (τacc τ : Ty)
    (hacc : hasShape d τacc acc = true) (hts : List.Forall₂ (fun x τx => hasShape d τx x = true) ts τs)
    (hτ : tmulList τacc τs = some τ) (h : ts.foldlM mulV acc = .ok t) :
    hasShape d τ t = true ∧ ∀ i j, den S t i j = den S acc i j * denProd S ts i j := by
  induction hts generalizing acc τacc with
  | nil =>
    simp only [List.foldlM_nil, pure, Except.pure] at h
    injection h with h; subst h
    simp only [tmulList, Option.some.injEq] at hτ; subst hτ
    exact ⟨hacc, fun i j => by simp [denProd]⟩
  | @cons x τx ts τs hx _ ih =>
    simp only [List.foldlM_cons, bind, Except.bind] at h
    simp only [tmulList] at hτ
    cases hm : tmul τacc τx with
    | none => rw [hm] at hτ; simp at hτ
    | some τ' =>
      rw [hm] at hτ
      simp only [Option.bind_some] at hτ
      cases h1 : mulV acc x with
      | error e => rw [h1] at h; cases h
      | ok acc' =>
        rw [h1] at h
        have hx' := mulV_sound S d τacc τx τ' acc x acc' hacc hx hm h1
        have := ih acc' τ' hx'.1 hτ h
        refine ⟨this.1, fun i j => ?_⟩
        rw [this.2 i j, hx'.2 i j]; simp only [denProd]; ring

/-! ### sums and products never fail on values of matching shapes -/

/-- the sum of two lowered values of one type exists (in dimension 1 also when one is a scalar form
    and the other a 1×1 matrix: the repaired `Add` branch) -/
theorem addV_total (d : Nat) (τ : Ty) (a b : E)
    (ha : hasShape d τ a = true) (hb : hasShape d τ b = true) : ∃ t, addV a b = .ok t := by
  by_cases hma : ∃ r c es, a = mat r c es
  · obtain ⟨r, c, es, rfl⟩ := hma
    obtain ⟨hr, hc, hl, _, hτ⟩ := hasShape_mat d τ r c es ha
    by_cases hmb : ∃ r c es, b = mat r c es
    · obtain ⟨r', c', es', rfl⟩ := hmb
      obtain ⟨hr', hc', _, _, _⟩ := hasShape_mat d τ r' c' es' hb
      subst r c r' c'
      simp [addV]
    · have hb' := hasShape_nonmat d τ b hb (by intro r c es he; exact hmb ⟨r, c, es, he⟩)
      subst r c
      obtain ⟨hd, hc, _⟩ := mixed_1d d τ es hτ hb'.2 hl
      subst hd
      rw [hc, addV_mat_LS b hb'.1]
      simp
  · have ha' := hasShape_nonmat d τ a ha (by intro r c es he; exact hma ⟨r, c, es, he⟩)
    by_cases hmb : ∃ r c es, b = mat r c es
    · obtain ⟨r', c', es', rfl⟩ := hmb
      obtain ⟨hr, hc, hl, _, hτ⟩ := hasShape_mat d τ r' c' es' hb
      subst r' c'
      obtain ⟨hd, hc, _⟩ := mixed_1d d τ es' hτ ha'.2 hl
      subst hd
      rw [hc, addV_LS_mat a ha'.1]
      simp
    · have hb' := hasShape_nonmat d τ b hb (by intro r c es he; exact hmb ⟨r, c, es, he⟩)
      exact ⟨_, addV_LS a b ha'.1 hb'.1⟩

theorem mulV_total (d : Nat) (τa τb τ : Ty) (a b : E)
    (ha : hasShape d τa a = true) (hb : hasShape d τb b = true) (htm : tmul τa τb = some τ) :
    ∃ t, mulV a b = .ok t := by
  by_cases hma : ∃ r c es, a = mat r c es
  · obtain ⟨r, c, es, rfl⟩ := hma
    obtain ⟨_, _, _, _, hτ⟩ := hasShape_mat d τa r c es ha
    by_cases hmb : ∃ r c es, b = mat r c es
    · obtain ⟨r', c', es', rfl⟩ := hmb
      obtain ⟨_, _, _, _, hτ'⟩ := hasShape_mat d τb r' c' es' hb
      rcases tmul_cases τa τb τ htm with h1 | h1
      · exact absurd h1.1 hτ
      · exact absurd h1.1 hτ'
    · have hb' := hasShape_nonmat d τb b hb (by intro r c es he; exact hmb ⟨r, c, es, he⟩)
      exact ⟨_, mulV_mat_LS b hb'.1 r c es⟩
  · have ha' := hasShape_nonmat d τa a ha (by intro r c es he; exact hma ⟨r, c, es, he⟩)
    by_cases hmb : ∃ r c es, b = mat r c es
    · obtain ⟨r', c', es', rfl⟩ := hmb
      exact ⟨_, mulV_LS_mat a ha'.1 r' c' es'⟩
    · have hb' := hasShape_nonmat d τb b hb (by intro r c es he; exact hmb ⟨r, c, es, he⟩)
      exact ⟨_, mulV_LS a b ha'.1 hb'.1⟩

theorem foldAdd_total_all (S : DRing K) (d : Nat) (τ : Ty) (ts : List E) (acc : E)
    (hacc : hasShape d τ acc = true) (hts : ∀ x ∈ ts, hasShape d τ x = true) :
    ∃ t, ts.foldlM addV acc = .ok t := by
  induction ts generalizing acc with
  | nil => exact ⟨acc, rfl⟩
  | cons x ts ih =>
    obtain ⟨acc', h1⟩ := addV_total d τ acc x hacc (hts x (by simp))
    have hx := addV_sound S d τ acc x acc' hacc (hts x (by simp)) h1
    obtain ⟨t, ht⟩ := ih acc' hx.1 (fun y hy => hts y (by simp [hy]))
    exact ⟨t, by simp only [List.foldlM_cons, bind, Except.bind, h1, ht]⟩

/-- (statement kept for Lemmas/NormLower.lean; `foldAdd_total_all` needs no hypothesis on `d`) -/
theorem foldAdd_total (S : DRing K) (d : Nat) (_hd : d ≠ 1) (τ : Ty) (ts : List E) (acc : E)
    (hacc : hasShape d τ acc = true) (hts : ∀ x ∈ ts, hasShape d τ x = true) :
    ∃ t, ts.foldlM addV acc = .ok t :=
  foldAdd_total_all S d τ ts acc hacc hts

theorem foldMul_total (S : DRing K) (d : Nat) (ts : List E) (τs : List Ty) (acc : E) (τacc τ : Ty)
    (hacc : hasShape d τacc acc = true)
    (hts : List.Forall₂ (fun x τx => hasShape d τx x = true) ts τs)
    (hτ : tmulList τacc τs = some τ) : ∃ t, ts.foldlM mulV acc = .ok t := by
  induction hts generalizing acc τacc with
  | nil => exact ⟨acc, rfl⟩
  | @cons x τx ts τs hx _ ih =>
    simp only [tmulList] at hτ
    cases hm : tmul τacc τx with
    | none => rw [hm] at hτ; simp at hτ
    | some τ' =>
      rw [hm] at hτ
      simp only [Option.bind_some] at hτ
      obtain ⟨acc', h1⟩ := mulV_total d τacc τx τ' acc x hacc hx hm
      have hx' := mulV_sound S d τacc τx τ' acc x acc' hacc hx hm h1
      obtain ⟨t, ht⟩ := ih acc' τ' hx'.1 hτ
      exact ⟨t, by simp only [List.foldlM_cons, bind, Except.bind, h1, ht]⟩

/-- closes a "reading" goal once dimension, type, signature and argument forms are concrete -/
syntax "reads_tac" : tactic
macro_rules
  | `(tactic| reads_tac) => `(tactic|
      (intro i j hij
       simp only [InR] at hij
       obtain ⟨hi, hj⟩ := hij
       (try subst hi) <;> (try subst hj) <;> (try interval_cases i) <;> (try interval_cases j) <;>
         (try simp only [den_mat_nth]) <;> rfl))

end Sympde.Lower
