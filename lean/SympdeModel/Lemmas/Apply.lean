/-
  Helper lemmas for C10 (Model/Apply.lean): the leaf-wise reading of a substitution whose keys
  are functions / constants (`mapLeaves`), rules with pairwise distinct keys, the exchange of two
  argument lists.
-/
import SympdeModel.Model.Apply
import SympdeModel.Lemmas.Subst
namespace Sympde.Apply
open E
open Sympde.Sub

/-- functions and constants: the only things a form call replaces -/
def isLeafKey : E → Bool
  | sf _ _ => true
  | vf _ _ => true
  | cst _ => true
  | _ => false

mutual
/-- apply `ρ` to every function / constant leaf, independently, and to nothing else -/
def mapLeaves (ρ : E → E) : E → E
  | sf n k => ρ (sf n k)
  | vf n k => ρ (vf n k)
  | cst n => ρ (cst n)
  | idx b i => idx (mapLeaves ρ b) i
  | add as => add (mapLeavesList ρ as)
  | mul as => mul (mapLeavesList ρ as)
  | pow b e => pow (mapLeaves ρ b) (mapLeaves ρ e)
  | fn f a => fn f (mapLeaves ρ a)
  | pd c a => pd c (mapLeaves ρ a)
  | op1 o a => op1 o (mapLeaves ρ a)
  | op2 o a b => op2 o (mapLeaves ρ a) (mapLeaves ρ b)
  | mat r c es => mat r c (mapLeavesList ρ es)
  | tup as => tup (mapLeavesList ρ as)
  | other t as => other t (mapLeavesList ρ as)
  | e => e
def mapLeavesList (ρ : E → E) : List E → List E
  | [] => []
  | a :: as => mapLeaves ρ a :: mapLeavesList ρ as
end

/-- the leaf map of a rule -/
def ruleFn (σ : Rule) (t : E) : E := (lookup σ t).getD t

theorem lookup_nonleaf (σ : Rule) (hk : ∀ p ∈ σ, isLeafKey p.1 = true) (t : E) (ht : isLeafKey t = false) :
    lookup σ t = none := by
  cases h : lookup σ t with
  | none => rfl
  | some v =>
    have := hk _ (lookup_some h)
    simp only at this
    rw [this] at ht; cases ht

/-- **simultaneous replacement, leaf by leaf**: when the keys are functions / constants, the
    result is the tree in which every leaf is replaced by what the rule says about *that leaf of the
    original tree* — replaced values are never visited again -/
theorem subst_eq_mapLeaves (σ : Rule) (hk : ∀ p ∈ σ, isLeafKey p.1 = true) (e : E) :
    subst σ e = mapLeaves (ruleFn σ) e := by
  have hn := lookup_nonleaf σ hk
  induction e using E.rec (motive_2 := fun as => substList σ as = mapLeavesList (ruleFn σ) as) with
  | nil => rfl
  | cons a as iha ihas => simp [substList, mapLeavesList, iha, ihas]
  | sf n k => simp [subst, mapLeaves, ruleFn]
  | vf n k => simp [subst, mapLeaves, ruleFn]
  | cst n => simp [subst, mapLeaves, ruleFn]
  | idx b i ih => simp [subst, mapLeaves, hn (idx b i) rfl, ih]
  | add as ih => simp [subst, mapLeaves, hn (add as) rfl, ih]
  | mul as ih => simp [subst, mapLeaves, hn (mul as) rfl, ih]
  | tup as ih => simp [subst, mapLeaves, hn (tup as) rfl, ih]
  | mat r c es ih => simp [subst, mapLeaves, hn (mat r c es) rfl, ih]
  | other t as ih => simp [subst, mapLeaves, hn (other t as) rfl, ih]
  | pow x y ihx ihy => simp [subst, mapLeaves, hn (pow x y) rfl, ihx, ihy]
  | op2 o x y ihx ihy => simp [subst, mapLeaves, hn (op2 o x y) rfl, ihx, ihy]
  | fn f a ih => simp [subst, mapLeaves, hn (fn f a) rfl, ih]
  | pd c a ih => simp [subst, mapLeaves, hn (pd c a) rfl, ih]
  | op1 o a ih => simp [subst, mapLeaves, hn (op1 o a) rfl, ih]
  | num p q => simp [subst, mapLeaves, hn (num p q) rfl]
  | sym n => simp [subst, mapLeaves, hn (sym n) rfl]
  | normal k => simp [subst, mapLeaves, hn (normal k) rfl]

theorem mapLeaves_congr (ρ ρ' : E → E) (h : ∀ t, isLeafKey t = true → ρ t = ρ' t) (e : E) :
    mapLeaves ρ e = mapLeaves ρ' e := by
  induction e using E.rec (motive_2 := fun as => mapLeavesList ρ as = mapLeavesList ρ' as) with
  | nil => rfl
  | cons a as iha ihas => simp [mapLeavesList, iha, ihas]
  | sf n k => simp [mapLeaves, h (sf n k) rfl]
  | vf n k => simp [mapLeaves, h (vf n k) rfl]
  | cst n => simp [mapLeaves, h (cst n) rfl]
  | _ => simp_all [mapLeaves]

theorem mapLeaves_id (ρ : E → E) (h : ∀ t, isLeafKey t = true → ρ t = t) (e : E) : mapLeaves ρ e = e := by
  induction e using E.rec (motive_2 := fun as => mapLeavesList ρ as = as) with
  | nil => rfl
  | cons a as iha ihas => simp [mapLeavesList, iha, ihas]
  | sf n k => simp [mapLeaves, h (sf n k) rfl]
  | vf n k => simp [mapLeaves, h (vf n k) rfl]
  | cst n => simp [mapLeaves, h (cst n) rfl]
  | _ => simp_all [mapLeaves]

/-- composition of two leaf maps, the first of which sends leaves to leaves -/
theorem mapLeaves_mapLeaves (ρ ρ' : E → E) (h : ∀ t, isLeafKey t = true → isLeafKey (ρ' t) = true) (e : E) :
    mapLeaves ρ (mapLeaves ρ' e) = mapLeaves (fun t => ρ (ρ' t)) e := by
  have leaf : ∀ t, isLeafKey t = true → mapLeaves ρ t = ρ t := by
    intro t ht; cases t <;> simp_all [isLeafKey, mapLeaves]
  induction e using E.rec
    (motive_2 := fun as => mapLeavesList ρ (mapLeavesList ρ' as) = mapLeavesList (fun t => ρ (ρ' t)) as) with
  | nil => rfl
  | cons a as iha ihas => simp [mapLeavesList, iha, ihas]
  | sf n k => simp only [mapLeaves]; exact leaf _ (h (sf n k) rfl)
  | vf n k => simp only [mapLeaves]; exact leaf _ (h (vf n k) rfl)
  | cst n => simp only [mapLeaves]; exact leaf _ (h (cst n) rfl)
  | _ => simp_all [mapLeaves]

/-! ### rules with pairwise distinct keys -/

theorem lookup_append (a b : Rule) (t : E) : lookup (a ++ b) t = (lookup a t).orElse (fun _ => lookup b t) := by
  induction a with
  | nil => simp [lookup]
  | cons p r ih =>
    obtain ⟨k, v⟩ := p
    simp only [List.cons_append, lookup]
    split
    · simp
    · exact ih

theorem lookup_none_of_not_mem (σ : Rule) (t : E) (h : t ∉ σ.map (·.1)) : lookup σ t = none := by
  cases hl : lookup σ t with
  | none => rfl
  | some v => exact absurd (List.mem_map.mpr ⟨(t, v), lookup_some hl, rfl⟩) h

/-- with pairwise distinct keys the order of the pairs does not matter -/
theorem lookup_reverse (σ : Rule) (hnd : (σ.map (·.1)).Nodup) (t : E) : lookup σ.reverse t = lookup σ t := by
  induction σ with
  | nil => rfl
  | cons p r ih =>
    obtain ⟨k, v⟩ := p
    simp only [List.map_cons, List.nodup_cons] at hnd
    rw [List.reverse_cons, lookup_append, ih hnd.2]
    simp only [lookup]
    by_cases hk : eqb k t = true
    · have : k = t := eqb_eq k t hk
      subst this
      rw [lookup_none_of_not_mem r k hnd.1]
      simp [hk]
    · have hk' : eqb k t = false := by simpa using hk
      simp only [hk', Bool.false_eq_true, if_false]
      cases lookup r t <;> simp

theorem lookup_of_mem (σ : Rule) (hnd : (σ.map (·.1)).Nodup) (k v : E) (h : (k, v) ∈ σ) :
    lookup σ k = some v := by
  induction σ with
  | nil => cases h
  | cons p r ih =>
    obtain ⟨k', v'⟩ := p
    simp only [List.map_cons, List.nodup_cons] at hnd
    simp only [lookup]
    rcases List.mem_cons.mp h with h | h
    · injection h with h1 h2
      subst h1 h2
      simp [eqb_refl]
    · have hne : k' ≠ k := by
        intro e; subst e
        exact hnd.1 (List.mem_map.mpr ⟨(k', v), h, rfl⟩)
      have : eqb k' k = false := by
        cases hh : eqb k' k with
        | false => rfl
        | true => exact absurd (eqb_eq _ _ hh) hne
      simp only [this, Bool.false_eq_true, if_false]
      exact ih hnd.2 h

/-! ### exchanging two argument lists -/

/-- the leaf map that exchanges `us[i]` and `vs[i]` -/
def swapLeaf (us vs : List E) (t : E) : E :=
  ((lookup (us.zip vs) t).orElse (fun _ => lookup (vs.zip us) t)).getD t

theorem zip_map_fst (us vs : List E) (h : us.length = vs.length) : (us.zip vs).map (·.1) = us := by
  induction us generalizing vs with
  | nil => rfl
  | cons u us ih =>
    cases vs with
    | nil => simp at h
    | cons v vs => simp [ih vs (by simpa using h)]

theorem mem_zip_swap (us vs : List E) (a b : E) (h : (a, b) ∈ us.zip vs) : (b, a) ∈ vs.zip us := by
  induction us generalizing vs with
  | nil => simp at h
  | cons u us ih =>
    cases vs with
    | nil => simp at h
    | cons v vs =>
      simp only [List.zip_cons_cons, List.mem_cons, Prod.mk.injEq] at h ⊢
      rcases h with ⟨rfl, rfl⟩ | h
      · exact Or.inl ⟨rfl, rfl⟩
      · exact Or.inr (ih vs h)

theorem mem_zip_self (l : List E) : ∀ p ∈ l.zip l, p.1 = p.2 := by
  induction l with
  | nil => intro p hp; simp at hp
  | cons a l ih =>
    intro p hp
    simp only [List.zip_cons_cons, List.mem_cons] at hp
    rcases hp with rfl | hp
    · rfl
    · exact ih p hp

theorem applyRule_id (σ : Rule) (h : ∀ p ∈ σ, p.1 = p.2) (ints : List (String × E)) : applyRule σ ints = ints := by
  unfold applyRule
  induction ints with
  | nil => rfl
  | cons p ps ih => simp [subst_id σ h, ih]


/-- keys of a keyword rule are free variables of the form -/
theorem kwRule_keys (f : Form) (kws : List (String × E)) (kw : Rule) (h : kwRule f kws = .ok kw) :
    ∀ p ∈ kw, p.1 ∈ freeVars f := by
  induction kws generalizing kw with
  | nil => simp only [kwRule] at h; injection h with h; subst h; intro p hp; cases hp
  | cons q rest ih =>
    obtain ⟨n, v⟩ := q
    simp only [kwRule] at h
    cases hv : freeVar f n with
    | none => simp [hv] at h
    | some var =>
      simp only [hv] at h
      cases hr : kwRule f rest with
      | error e => simp [hr] at h
      | ok r =>
        simp only [hr] at h
        injection h with h; subst h
        intro p hp
        rcases List.mem_cons.mp hp with rfl | hp
        · unfold freeVar at hv
          have := List.mem_of_getLast? hv
          exact (List.mem_filter.mp this).1
        · exact ih r hr p hp


theorem kwRule_unknown (f : Form) (kws : List (String × E)) (h : ∃ p ∈ kws, freeVar f p.1 = none) :
    kwRule f kws = .error .valueError := by
  induction kws with
  | nil => obtain ⟨p, hp, _⟩ := h; cases hp
  | cons q rest ih =>
    obtain ⟨n, v⟩ := q
    simp only [kwRule]
    cases hv : freeVar f n with
    | none => rfl
    | some var =>
      obtain ⟨p, hp, hn⟩ := h
      rcases List.mem_cons.mp hp with rfl | hp
      · simp only at hn; rw [hv] at hn; cases hn
      · simp [ih ⟨p, hp, hn⟩]


end Sympde.Apply
