/-
  Semantics of the symbolic matrix expressions of Model/MatSym.lean and the lemmas behind
  Props/C02d.lean.

  `den v e` is the value of `e` in the ring of n×n matrices over an arbitrary commutative ring K:
  Jacobian symbols are interpreted by an arbitrary valuation, the inverse-Jacobian atom and
  `Inverse` by the (nonsingular) matrix inverse, numbers / Constants / Symbols / traces /
  determinants / elements by scalar matrices (so that "scalar times matrix" is the matrix product,
  and one semantics serves matrix-valued and number-valued expressions).
-/
import SympdeModel.Model.MatSym
import Mathlib.LinearAlgebra.Matrix.ZPow
import Mathlib.LinearAlgebra.Matrix.Trace
import Mathlib.Algebra.BigOperators.Group.List.Lemmas

namespace Sympde
namespace MatSym
open ME
open scoped Matrix

/-- valuation: Constants, Symbols, Jacobian symbols -/
structure Val (n : ℕ) (K : Type) where
  cst : String → K
  sy : String → K
  jm : String → Matrix (Fin n) (Fin n) K

variable {n : ℕ} {K : Type} [CommRing K]

/-- entry (i, j) of a matrix, 0 outside the index range -/
def entry (M : Matrix (Fin n) (Fin n) K) (i j : ℕ) : K :=
  if h : i < n ∧ j < n then M ⟨i, h.1⟩ ⟨j, h.2⟩ else 0

mutual
noncomputable def den (v : Val n K) : ME → Matrix (Fin n) (Fin n) K
  | num k => (k : K) • (1 : Matrix (Fin n) (Fin n) K)
  | sym s => v.cst s • (1 : Matrix (Fin n) (Fin n) K)
  | var s => v.sy s • (1 : Matrix (Fin n) (Fin n) K)
  | jac s => v.jm s
  | jinv s => (v.jm s)⁻¹
  | add xs => denSum v xs
  | mul xs => denProd v xs
  | pow b k _ => den v b ^ k
  | transpose a => (den v a)ᵀ
  | inv a => (den v a)⁻¹
  | tr a => (den v a).trace • (1 : Matrix (Fin n) (Fin n) K)
  | det a => (den v a).det • (1 : Matrix (Fin n) (Fin n) K)
  | elem a i j => entry (den v a) i j • (1 : Matrix (Fin n) (Fin n) K)
/-- sum of the values of a list -/
noncomputable def denSum (v : Val n K) : List ME → Matrix (Fin n) (Fin n) K
  | [] => 0
  | a :: as => den v a + denSum v as
/-- ordered product of the values of a list -/
noncomputable def denProd (v : Val n K) : List ME → Matrix (Fin n) (Fin n) K
  | [] => 1
  | a :: as => den v a * denProd v as
end

variable (v : Val n K)

theorem denSum_eq (xs : List ME) : denSum v xs = (xs.map (den v)).sum := by
  induction xs with
  | nil => simp [denSum]
  | cons a as ih => simp [denSum, ih]

theorem denProd_eq (xs : List ME) : denProd v xs = (xs.map (den v)).prod := by
  induction xs with
  | nil => simp [denProd]
  | cons a as ih => simp [denProd, ih]

theorem denSum_append (xs ys : List ME) : denSum v (xs ++ ys) = denSum v xs + denSum v ys := by
  simp [denSum_eq]

theorem denProd_append (xs ys : List ME) : denProd v (xs ++ ys) = denProd v xs * denProd v ys := by
  simp [denProd_eq]

/-! ### central, symmetric matrices: the values of the commutative expressions -/

/-- commutes with every matrix and is symmetric (true of every scalar matrix) -/
def Cen (M : Matrix (Fin n) (Fin n) K) : Prop := (∀ N : Matrix (Fin n) (Fin n) K, Commute M N) ∧ Mᵀ = M

theorem cen_smul_one (k : K) : Cen (k • (1 : Matrix (Fin n) (Fin n) K)) := by
  refine ⟨fun N => ?_, ?_⟩
  · exact (Commute.one_left N).smul_left k
  · simp

theorem cen_zero : Cen (0 : Matrix (Fin n) (Fin n) K) := ⟨fun N => Commute.zero_left N, by simp⟩
theorem cen_one : Cen (1 : Matrix (Fin n) (Fin n) K) := ⟨fun N => Commute.one_left N, by simp⟩

theorem Cen.add {A B : Matrix (Fin n) (Fin n) K} (ha : Cen A) (hb : Cen B) : Cen (A + B) :=
  ⟨fun N => (ha.1 N).add_left (hb.1 N), by rw [Matrix.transpose_add, ha.2, hb.2]⟩

theorem Cen.mul {A B : Matrix (Fin n) (Fin n) K} (ha : Cen A) (hb : Cen B) : Cen (A * B) :=
  ⟨fun N => (ha.1 N).mul_left (hb.1 N), by rw [Matrix.transpose_mul, ha.2, hb.2]; exact (ha.1 B).eq.symm⟩

theorem Cen.zpow {A : Matrix (Fin n) (Fin n) K} (ha : Cen A) (k : ℤ) : Cen (A ^ k) :=
  ⟨fun N => Matrix.Commute.zpow_left (ha.1 N) k, by rw [Matrix.transpose_zpow, ha.2]⟩

theorem commL_iff (xs : List ME) : commL xs = true ↔ ∀ x ∈ xs, comm x = true := by
  induction xs with
  | nil => simp [commL]
  | cons a as ih => simp [commL, ih]

theorem cen_of_comm (a : ME) : comm a = true → Cen (den v a) := by
  induction a using ME.rec
    (motive_2 := fun xs => commL xs = true → Cen (denSum v xs) ∧ Cen (denProd v xs)) with
  | num k => intro _; simp only [den]; exact cen_smul_one _
  | sym s => intro _; simp only [den]; exact cen_smul_one _
  | var s => intro _; simp only [den]; exact cen_smul_one _
  | jac s => intro h; simp [comm] at h
  | jinv s => intro h; simp [comm] at h
  | add xs ih => intro h; simp only [comm] at h; simpa [den] using (ih h).1
  | mul xs ih => intro h; simp only [comm] at h; simpa [den] using (ih h).2
  | pow b k r ih => intro h; simp only [comm] at h; simpa [den] using (ih h).zpow k
  | transpose a _ => intro h; simp [comm] at h
  | inv a _ => intro h; simp [comm] at h
  | tr a _ => intro _; simp only [den]; exact cen_smul_one _
  | det a _ => intro _; simp only [den]; exact cen_smul_one _
  | elem a i j _ => intro h; simp [comm] at h
  | nil => exact ⟨by simpa [denSum] using cen_zero, by simpa [denProd] using cen_one⟩
  | cons a as iha ihas =>
    rename_i h
    simp only [commL, Bool.and_eq_true] at h
    exact ⟨by simpa [denSum] using (iha h.1).add (ihas h.2).1,
           by simpa [denProd] using (iha h.1).mul (ihas h.2).2⟩

theorem cen_denProd (xs : List ME) (h : ∀ x ∈ xs, comm x = true) : Cen (denProd v xs) := by
  induction xs with
  | nil => simpa [denProd] using cen_one
  | cons a as ih =>
    simp only [denProd]
    exact (cen_of_comm v a (h a (by simp))).mul (ih (fun x hx => h x (by simp [hx])))

/-! ### sympy equality gives equal values -/

theorem den_eq_of_beq (a b : ME) (h : beq a b = true) : den v a = den v b := by
  induction a using ME.rec
    (motive_2 := fun xs => ∀ ys, beqL xs ys = true →
      denSum v xs = denSum v ys ∧ denProd v xs = denProd v ys)
    generalizing b with
  | num k => cases b <;> simp_all [beq, den]
  | sym s => cases b <;> simp_all [beq, den]
  | var s => cases b <;> simp_all [beq, den]
  | jac s => cases b <;> simp_all [beq, den]
  | jinv s => cases b <;> simp_all [beq, den]
  | add xs ih => cases b <;> simp_all [beq, den] <;> exact (ih _ h).1
  | mul xs ih => cases b <;> simp_all [beq, den] <;> exact (ih _ h).2
  | pow c k r ih => cases b <;> simp_all [beq, den] <;> rw [ih _ h.1]
  | transpose a ih => cases b <;> simp_all [beq, den] <;> rw [ih _ h]
  | inv a ih => cases b <;> simp_all [beq, den] <;> rw [ih _ h]
  | tr a ih => cases b <;> simp_all [beq, den] <;> rw [ih _ h]
  | det a ih => cases b <;> simp_all [beq, den] <;> rw [ih _ h]
  | elem a i j ih => cases b <;> simp_all [beq, den] <;> rw [ih _ h.1.1]
  | nil => rename_i ys h; cases ys <;> simp_all [beqL, denSum, denProd]
  | cons a as iha ihas =>
    rename_i ys h
    cases ys with
    | nil => simp [beqL] at h
    | cons y ys =>
      simp only [beqL, Bool.and_eq_true] at h
      simp only [denSum, denProd]
      rw [iha _ h.1, (ihas _ h.2).1, (ihas _ h.2).2]
      exact ⟨rfl, rfl⟩

theorem den_eq_of_eq (a b : ME) (h : (a == b) = true) : den v a = den v b := den_eq_of_beq v a b h

/-! ### the canonical order -/

theorem insertK_perm (x : ME) (ys : List ME) : (insertK x ys).Perm (x :: ys) := by
  induction ys with
  | nil => simp [insertK]
  | cons y ys ih =>
    unfold insertK
    split
    · exact List.Perm.refl _
    · exact (List.Perm.cons y ih).trans (List.Perm.swap x y ys)

theorem sortK_perm (xs : List ME) : (sortK xs).Perm xs := by
  induction xs with
  | nil => simp [sortK]
  | cons a as ih =>
    have : sortK (a :: as) = insertK a (sortK as) := rfl
    rw [this]
    exact (insertK_perm a _).trans (List.Perm.cons a ih)

theorem denSum_perm {xs ys : List ME} (h : xs.Perm ys) : denSum v xs = denSum v ys := by
  rw [denSum_eq, denSum_eq]; exact (h.map (den v)).sum_eq

theorem denSum_sortK (xs : List ME) : denSum v (sortK xs) = denSum v xs := denSum_perm v (sortK_perm xs)

theorem denProd_perm {xs ys : List ME} (h : xs.Perm ys) (hc : ∀ x ∈ xs, comm x = true) :
    denProd v xs = denProd v ys := by
  rw [denProd_eq, denProd_eq]
  refine (h.map (den v)).prod_eq' ?_
  rw [List.pairwise_map]
  exact List.Pairwise.imp_of_mem (R := fun _ _ => True)
    (fun {a b} ha _ _ => (cen_of_comm v a (hc a ha)).1 (den v b)) (List.pairwise_of_forall (fun _ _ => trivial))

theorem denProd_sortK (xs : List ME) (hc : ∀ x ∈ xs, comm x = true) :
    denProd v (sortK xs) = denProd v xs :=
  (denProd_perm v (sortK_perm xs).symm hc).symm

theorem mem_sortK {xs : List ME} {x : ME} : x ∈ sortK xs ↔ x ∈ xs := (sortK_perm xs).mem_iff

/-! ### flattening -/

theorem denSum_flatAdd (xs : List ME) : denSum v (flatAdd xs) = denSum v xs := by
  induction xs with
  | nil => simp [flatAdd]
  | cons a as ih =>
    cases a <;> simp [flatAdd, denSum, denSum_append, ih, den]

theorem denProd_flatMul (xs : List ME) : denProd v (flatMul xs) = denProd v xs := by
  induction xs with
  | nil => simp [flatMul]
  | cons a as ih =>
    cases a <;> simp [flatMul, denProd, denProd_append, ih, den]

theorem comm_flatMul (xs : List ME) (h : ∀ x ∈ xs, comm x = true) : ∀ x ∈ flatMul xs, comm x = true := by
  induction xs with
  | nil => simp [flatMul]
  | cons a as ih =>
    have ha := h a (by simp)
    have ih' := ih (fun x hx => h x (by simp [hx]))
    cases a <;> simp only [flatMul, List.mem_cons, List.mem_append] <;> intro x hx
    case mul ys =>
      rcases hx with hx | hx
      · exact (commL_iff ys).1 (by simpa [comm] using ha) x hx
      · exact ih' x hx
    all_goals
      rcases hx with hx | hx
      · rw [hx]; exact ha
      · exact ih' x hx

/-! ### MatSymbolicAdd -/

theorem den_isZero {a : ME} (h : isZero a = true) : den v a = 0 := by
  cases a <;> simp_all [isZero, den]

theorem den_isOne {a : ME} (h : isOne a = true) : den v a = 1 := by
  cases a <;> simp_all [isOne, den]

theorem denSum_filter_isZero (xs : List ME) :
    denSum v (xs.filter (fun a => !isZero a)) = denSum v xs := by
  induction xs with
  | nil => simp
  | cons a as ih =>
    by_cases h : isZero a = true
    · simp [List.filter, h, denSum, ih, den_isZero v h]
    · simp [List.filter, h, denSum, ih]

theorem denProd_filter_isOne (xs : List ME) :
    denProd v (xs.filter (fun a => !isOne a)) = denProd v xs := by
  induction xs with
  | nil => simp
  | cons a as ih =>
    by_cases h : isOne a = true
    · simp [List.filter, h, denProd, ih, den_isOne v h]
    · simp [List.filter, h, denProd, ih]

theorem den_addOf (xs : List ME) : den v (addOf xs) = denSum v xs := by
  unfold addOf
  split
  · simp [den, denSum]
  · simp [denSum]
  · simp only [den]; exact denSum_sortK v xs

/-- MatSymbolicAdd(*args) denotes the sum of its arguments -/
theorem den_mkAdd (xs : List ME) : den v (mkAdd xs) = denSum v xs := by
  unfold mkAdd
  rw [den_addOf, denSum_flatAdd, denSum_filter_isZero]

/-! ### sympy Add: like terms -/

/-- value of the `terms` dictionary of Add.flatten -/
noncomputable def termsVal (v : Val n K) : List (ME × Int) → Matrix (Fin n) (Fin n) K
  | [] => 0
  | (s, c) :: rest => (c : K) • den v s + termsVal v rest

theorem den_asCoeffMul (t : ME) : den v t = ((asCoeffMul t).1 : K) • den v (asCoeffMul t).2 := by
  unfold asCoeffMul
  split
  · simp [den, denProd]
  · simp [den, denProd]
  · simp

theorem termsVal_addTerm (s : ME) (c : Int) (ts : List (ME × Int)) :
    termsVal v (addTerm s c ts) = termsVal v ts + (c : K) • den v s := by
  induction ts with
  | nil => simp [addTerm, termsVal]
  | cons p rest ih =>
    obtain ⟨s', c'⟩ := p
    unfold addTerm
    by_cases h : (s' == s) = true
    · rw [if_pos h]
      simp only [termsVal]
      rw [← den_eq_of_eq v s' s h]
      push_cast
      rw [add_smul]; abel
    · rw [if_neg h]
      simp only [termsVal, ih]; abel

theorem den_collect (xs : List ME) :
    denSum v xs = ((collect xs).1 : K) • (1 : Matrix (Fin n) (Fin n) K) + termsVal v (collect xs).2 := by
  induction xs with
  | nil => simp [collect, denSum, termsVal]
  | cons a as ih =>
    have gen : ∀ t : ME, (∀ k, t ≠ num k) → collect (t :: as) =
        ((collect as).1, addTerm (asCoeffMul t).2 (asCoeffMul t).1 (collect as).2) := by
      intro t ht
      cases t <;> first | (exact absurd rfl (ht _)) | rfl
    cases a with
    | num k =>
      simp only [collect, denSum, den, ih]
      push_cast
      rw [add_smul]; abel
    | _ =>
      rw [gen _ (by intro k hk; cases hk)]
      simp only [denSum, termsVal_addTerm, ih]
      rw [← den_asCoeffMul]; abel

theorem den_rebuild (s : ME) (c : Int) : den v (rebuild s c) = (c : K) • den v s := by
  unfold rebuild
  split <;> simp [den, denProd]

theorem denSum_rebuildAll (ts : List (ME × Int)) : denSum v (rebuildAll ts) = termsVal v ts := by
  induction ts with
  | nil => simp [rebuildAll, denSum, termsVal]
  | cons p rest ih =>
    obtain ⟨s, c⟩ := p
    unfold rebuildAll
    by_cases h0 : (c == 0) = true
    · have : c = 0 := by simpa using h0
      rw [if_pos h0, ih]; simp [termsVal, this]
    · rw [if_neg h0]
      by_cases h1 : (c == 1) = true
      · have : c = 1 := by simpa using h1
        rw [if_pos h1]; simp [denSum, termsVal, ih, this]
      · rw [if_neg h1]; simp [denSum, termsVal, ih, den_rebuild]

theorem den_sympyAddOf (xs : List ME) : den v (sympyAddOf xs) = denSum v xs := by
  unfold sympyAddOf
  split
  · simp [den, denSum]
  · simp [denSum]
  · split
    · exact den_mkAdd v xs
    · simp only [den]; exact denSum_sortK v xs

/-- sympy `Add(*terms)` (with the post-processor) denotes the sum of the terms -/
theorem den_sympyAdd (xs : List ME) : den v (sympyAdd xs) = denSum v xs := by
  unfold sympyAdd
  simp only
  rw [den_sympyAddOf, ← denSum_flatAdd v xs, den_collect v (flatAdd xs)]
  by_cases h0 : ((collect (flatAdd xs)).1 == 0) = true
  · have : (collect (flatAdd xs)).1 = 0 := by simpa using h0
    rw [if_pos h0, denSum_rebuildAll, this]; simp
  · rw [if_neg h0]; simp [denSum, den, denSum_rebuildAll]

/-! ### sympy Mul on commutative factors -/

theorem den_splitNums (xs : List ME) :
    denProd v xs = ((splitNums xs).1 : K) • denProd v (splitNums xs).2 := by
  induction xs with
  | nil => simp [splitNums, denProd]
  | cons a as ih =>
    have gen : ∀ t : ME, (∀ k, t ≠ num k) → splitNums (t :: as) =
        ((splitNums as).1, t :: (splitNums as).2) := by
      intro t ht
      cases t <;> first | (exact absurd rfl (ht _)) | rfl
    cases a with
    | num k =>
      simp only [splitNums, denProd, den]
      rw [ih]; push_cast
      rw [smul_mul_assoc, one_mul, smul_smul]
    | _ =>
      rw [gen _ (by intro k hk; cases hk)]
      simp only [denProd]
      rw [ih, mul_smul_comm]

theorem mem_splitNums (xs : List ME) : ∀ x ∈ (splitNums xs).2, x ∈ xs := by
  induction xs with
  | nil => simp [splitNums]
  | cons a as ih =>
    have gen : ∀ t : ME, (∀ k, t ≠ num k) → splitNums (t :: as) =
        ((splitNums as).1, t :: (splitNums as).2) := by
      intro t ht
      cases t <;> first | (exact absurd rfl (ht _)) | rfl
    cases a with
    | num k =>
      intro x hx
      simp only [splitNums] at hx
      exact List.mem_cons_of_mem _ (ih x hx)
    | _ =>
      rw [gen _ (by intro k hk; cases hk)]
      intro x hx
      simp only [List.mem_cons] at hx ⊢
      rcases hx with hx | hx
      · exact Or.inl hx
      · exact Or.inr (ih x hx)

theorem den_scalOf (k : Int) (rest : List ME) : den v (scalOf k rest) = (k : K) • denProd v rest := by
  unfold scalOf
  by_cases h0 : (k == 0) = true
  · have : k = 0 := by simpa using h0
    rw [if_pos h0]; simp [den, this]
  · rw [if_neg h0]
    split
    · simp [den, denProd]
    · by_cases h1 : (k == 1) = true
      · have : k = 1 := by simpa using h1
        rw [if_pos h1]; simp [denProd, this]
      · rw [if_neg h1]; simp [den, denProd]
    · by_cases h1 : (k == 1) = true
      · have : k = 1 := by simpa using h1
        rw [if_pos h1]; simp [den, this]
      · rw [if_neg h1]; simp [den, denProd]

/-- sympy `Mul(*coeffs)` on commutative factors denotes their product -/
theorem den_scalMul (cs : List ME) (hc : ∀ x ∈ cs, comm x = true) :
    den v (scalMul cs) = denProd v cs := by
  unfold scalMul
  simp only
  rw [den_scalOf, denProd_sortK, ← den_splitNums, denProd_flatMul]
  intro x hx
  exact comm_flatMul cs hc x (mem_splitNums _ x hx)

theorem den_scalTimes (c t : ME) : den v (scalTimes c t) = den v c * den v t := by
  unfold scalTimes
  simp only
  rw [den_scalOf, ← den_splitNums, denProd_flatMul]
  simp [denProd]

/-! ### MatSymbolicMul -/

theorem cen_denProd' (xs : List ME) (h : ∀ x ∈ xs, Cen (den v x)) : Cen (denProd v xs) := by
  induction xs with
  | nil => simpa [denProd] using cen_one
  | cons a as ih =>
    simp only [denProd]
    exact (h a (by simp)).mul (ih (fun x hx => h x (by simp [hx])))

/-- the factors selected by `p` have central values: they can be moved to the front -/
theorem denProd_partition (p : ME → Bool) (xs : List ME) (hp : ∀ x ∈ xs, p x = true → Cen (den v x)) :
    denProd v xs = denProd v (xs.filter p) * denProd v (xs.filter (fun a => !p a)) := by
  induction xs with
  | nil => simp [denProd]
  | cons a as ih =>
    have ih' := ih (fun x hx => hp x (by simp [hx]))
    have hC : Cen (denProd v (as.filter p)) :=
      cen_denProd' v _ (fun x hx => hp x (by simp [(List.mem_filter.1 hx).1]) (List.mem_filter.1 hx).2)
    by_cases h : p a = true
    · simp only [List.filter, h, denProd, Bool.not_true]
      rw [ih', mul_assoc]
    · simp only [Bool.not_eq_true] at h
      simp only [List.filter, h, denProd, Bool.not_false]
      rw [ih', ← mul_assoc, ← mul_assoc, (hC.1 (den v a)).eq]

theorem splitAdd_some : ∀ (args pre p es post : List ME), splitAdd pre args = some (p, es, post) →
    pre.reverse ++ args = p ++ add es :: post := by
  intro args
  induction args with
  | nil => intro pre p es post h; simp [splitAdd] at h
  | cons a as ih =>
    intro pre p es post h
    have gen : (∀ ys, a ≠ add ys) → splitAdd pre (a :: as) = splitAdd (a :: pre) as := by
      intro ha
      cases a <;> first | (exact absurd rfl (ha _)) | rfl
    cases a with
    | add ys =>
      simp only [splitAdd, Option.some.injEq, Prod.mk.injEq] at h
      obtain ⟨h1, h2, h3⟩ := h
      rw [← h1, ← h2, ← h3]
    | _ =>
      rw [gen (by intro ys hy; cases hy)] at h
      have := ih _ _ _ _ h
      simpa using this

theorem denSum_map_of (g : ME → ME) (es : List ME) (P Q : Matrix (Fin n) (Fin n) K)
    (hg : ∀ e ∈ es, den v (g e) = P * den v e * Q) :
    denSum v (es.map g) = P * denSum v es * Q := by
  induction es with
  | nil => simp [denSum]
  | cons e es ih =>
    simp only [List.map, denSum]
    rw [hg e (by simp), ih (fun x hx => hg x (by simp [hx])), mul_add, add_mul]

theorem denProd_mid (p post : List ME) (e : ME) :
    denProd v (p ++ e :: post) = denProd v p * den v e * denProd v post := by
  rw [denProd_append]; simp [denProd, mul_assoc]

theorem den_mulOf (xs : List ME) : den v (mulOf xs) = denProd v xs := by
  unfold mulOf
  split <;> simp [den, denProd]

theorem denProd_spliceCoeff (c : ME) (ncs : List ME) :
    denProd v (spliceCoeff c ncs) = den v c * denProd v ncs := by
  unfold spliceCoeff
  split
  · simp [den, denProd_append]
  · split
    · rename_i h; simp [den_isOne v h]
    · simp [denProd]

theorem denProd_mulArgs (cs ncs : List ME) (hc : ∀ x ∈ cs, comm x = true) :
    denProd v (mulArgs cs ncs) = denProd v cs * denProd v ncs := by
  unfold mulArgs
  split
  · rename_i h
    have : cs = [] := by simpa using h
    simp [this, denProd]
  · split
    · rename_i h
      have : ncs = [] := by simpa using h
      simp [this, denProd, den_scalMul v cs hc]
    · rw [denProd_spliceCoeff, den_scalMul v cs hc]

/-- MatSymbolicMul(*args) denotes the ordered product of its arguments -/
theorem den_mkMul : ∀ (f : Nat) (xs : List ME), den v (mkMul f xs) = denProd v xs := by
  intro f
  induction f with
  | zero => intro xs; simp [mkMul, den]
  | succ f ih =>
    intro xs
    rw [← denProd_filter_isOne v xs, mkMul]
    simp only
    generalize xs.filter (fun a => !isOne a) = args
    split
    · rename_i p es post h
      have hs := splitAdd_some args [] p es post h
      simp only [List.reverse_nil, List.nil_append] at hs
      have key : denSum v (es.map (fun e => mkMul f (p ++ e :: post))) = denProd v args := by
        rw [denSum_map_of v _ es (denProd v p) (denProd v post)
          (fun e _ => by rw [ih, denProd_mid]), hs, denProd_mid]
        simp [den]
      split
      · rw [den_mkAdd, key]
      · rw [den_sympyAdd, key]
    · rw [den_mulOf, denProd_mulArgs v _ _ (fun x hx => (List.mem_filter.1 hx).2),
        ← denProd_partition v comm _ (fun x _ hx => cen_of_comm v x hx), denProd_flatMul]

/-! ### sub-expressions, well-definedness -/

/-- `Sub a e`: `a` occurs in `e` -/
inductive Sub : ME → ME → Prop
  | refl (a : ME) : Sub a a
  | add {a x : ME} {xs : List ME} : x ∈ xs → Sub a x → Sub a (add xs)
  | mul {a x : ME} {xs : List ME} : x ∈ xs → Sub a x → Sub a (mul xs)
  | pow {a b : ME} {k : Int} {r : Bool} : Sub a b → Sub a (pow b k r)
  | transpose {a b : ME} : Sub a b → Sub a (transpose b)
  | inv {a b : ME} : Sub a b → Sub a (inv b)
  | tr {a b : ME} : Sub a b → Sub a (tr b)
  | det {a b : ME} : Sub a b → Sub a (det b)
  | elem {a b : ME} {i j : Nat} : Sub a b → Sub a (elem b i j)

/-- every negative power that occurs in `e` has an invertible base -/
def NegPowUnits (v : Val n K) (e : ME) : Prop :=
  ∀ b k r, Sub (pow b k r) e → k < 0 → IsUnit (den v b).det

/-- every `Inverse` node that occurs in `e` is applied to an invertible matrix -/
def InvUnits (v : Val n K) (e : ME) : Prop :=
  ∀ y, Sub (inv y) e → IsUnit (den v y).det

theorem NegPowUnits.of_add {xs : List ME} (h : NegPowUnits v (add xs)) : ∀ x ∈ xs, NegPowUnits v x :=
  fun _ hx b k r hs hk => h b k r (Sub.add hx hs) hk

theorem NegPowUnits.of_mul {xs : List ME} (h : NegPowUnits v (mul xs)) : ∀ x ∈ xs, NegPowUnits v x :=
  fun _ hx b k r hs hk => h b k r (Sub.mul hx hs) hk

theorem NegPowUnits.of_pow {b : ME} {k : Int} {r : Bool} (h : NegPowUnits v (pow b k r)) :
    NegPowUnits v b ∧ (k < 0 → IsUnit (den v b).det) :=
  ⟨fun b' k' r' hs hk => h b' k' r' (Sub.pow hs) hk, fun hk => h b k r (Sub.refl _) hk⟩

theorem NegPowUnits.mk_pow {b : ME} {k : Int} {r : Bool} (hb : NegPowUnits v b)
    (hk : k < 0 → IsUnit (den v b).det) : NegPowUnits v (pow b k r) := by
  intro b' k' r' hs hk'
  cases hs with
  | refl => exact hk hk'
  | pow hs' => exact hb b' k' r' hs' hk'

theorem negPowUnits_num (k : Int) : NegPowUnits v (num k) := by
  intro b k' r hs _; cases hs

/-! ### sympy Mul on non-commutative factors: neighbours with the same base -/

theorem den_asBaseExp (x : ME) : den v x = den v (asBaseExp x).1 ^ (asBaseExp x).2.1 := by
  cases x <;> simp [asBaseExp, den]

theorem negPowUnits_asBaseExp {x : ME} (h : NegPowUnits v x) :
    NegPowUnits v (asBaseExp x).1 ∧ ((asBaseExp x).2.1 < 0 → IsUnit (den v (asBaseExp x).1).det) := by
  cases x
  case pow b k r => exact NegPowUnits.of_pow v h
  all_goals exact ⟨h, fun hk => absurd hk (by simp [asBaseExp])⟩

theorem zpow_combine (M : Matrix (Fin n) (Fin n) K) (e1 e2 : ℤ)
    (h1 : e1 < 0 → IsUnit M.det) (h2 : e2 < 0 → IsUnit M.det) :
    M ^ e1 * M ^ e2 = M ^ (e1 + e2) := by
  by_cases h : 0 ≤ e1 ∧ 0 ≤ e2
  · exact (Matrix.zpow_add_of_nonneg h.1 h.2).symm
  · have hu : IsUnit M.det := by
      by_cases h1' : e1 < 0
      · exact h1 h1'
      · exact h2 (by omega)
    exact (Matrix.zpow_add hu e1 e2).symm

theorem den_mkPow (b : ME) (e : Int) : den v (mkPow b e) = den v b ^ e := by
  unfold mkPow
  split
  · simp [den]
  · split
    · rename_i h; have : e = 0 := by simpa using h
      simp [den, this]
    · split
      · rename_i h; have : e = 1 := by simpa using h
        simp [this]
      · simp [den]

theorem negPowUnits_mkPow {b : ME} {e : Int} (hb : NegPowUnits v b)
    (he : e < 0 → IsUnit (den v b).det) : NegPowUnits v (mkPow b e) := by
  unfold mkPow
  split
  · exact NegPowUnits.mk_pow v hb he
  · split
    · exact negPowUnits_num v 1
    · split
      · exact hb
      · exact NegPowUnits.mk_pow v hb he

theorem ncStep_inv (st : List ME × Bool) (o : ME) (hst : ∀ x ∈ st.1, NegPowUnits v x)
    (ho : NegPowUnits v o) :
    (∀ x ∈ (ncStep st o).1, NegPowUnits v x) ∧
      denProd v (ncStep st o).1.reverse = denProd v st.1.reverse * den v o := by
  obtain ⟨stk, fl⟩ := st
  cases stk with
  | nil =>
    simp only [ncStep]
    exact ⟨fun x hx => by simp at hx; rw [hx]; exact ho, by simp [denProd]⟩
  | cons o1 rest =>
    have ho1 : NegPowUnits v o1 := hst o1 (by simp)
    have hrest : ∀ x ∈ rest, NegPowUnits v x := fun x hx => hst x (by simp [hx])
    obtain ⟨hb1, hu1⟩ := negPowUnits_asBaseExp v ho1
    obtain ⟨_, hu2⟩ := negPowUnits_asBaseExp v ho
    simp only [ncStep]
    by_cases hb : ((asBaseExp o1).1 == (asBaseExp o).1) = true
    · rw [if_pos hb]
      have hbe : den v (asBaseExp o1).1 = den v (asBaseExp o).1 := den_eq_of_eq v _ _ hb
      have hsum : (asBaseExp o1).2.1 + (asBaseExp o).2.1 < 0 → IsUnit (den v (asBaseExp o1).1).det := by
        intro hs
        by_cases h1 : (asBaseExp o1).2.1 < 0
        · exact hu1 h1
        · rw [hbe]; exact hu2 (by omega)
      have hp := negPowUnits_mkPow v (e := (asBaseExp o1).2.1 + (asBaseExp o).2.1) hb1 hsum
      have hval : den v (mkPow (asBaseExp o1).1 ((asBaseExp o1).2.1 + (asBaseExp o).2.1))
          = den v o1 * den v o := by
        rw [den_mkPow, den_asBaseExp v o1, den_asBaseExp v o, ← hbe]
        exact (zpow_combine _ _ _ hu1 (by rw [hbe]; exact hu2)).symm
      by_cases h1 : isOne (mkPow (asBaseExp o1).1 ((asBaseExp o1).2.1 + (asBaseExp o).2.1)) = true
      · simp only [h1, if_true]
        refine ⟨hrest, ?_⟩
        have := den_isOne v h1
        rw [hval] at this
        simp only [List.reverse_cons, denProd_append, denProd, mul_one]
        rw [mul_assoc, this, mul_one]
      · simp only [h1]
        refine ⟨fun x hx => ?_, ?_⟩
        · simp only [Bool.false_eq_true, if_false, List.mem_cons] at hx
          rcases hx with hx | hx
          · rw [hx]; exact hp
          · exact hrest x hx
        · simp only [Bool.false_eq_true, if_false, List.reverse_cons, denProd_append, denProd, mul_one]
          rw [hval, mul_assoc]
    · rw [if_neg hb]
      refine ⟨fun x hx => ?_, ?_⟩
      · simp only [List.mem_cons] at hx
        rcases hx with hx | hx | hx
        · rw [hx]; exact ho
        · rw [hx]; exact ho1
        · exact hrest x hx
      · simp [List.reverse_cons, denProd_append, denProd, mul_assoc]

theorem ncFold_inv (xs : List ME) : ∀ (st : List ME × Bool), (∀ x ∈ st.1, NegPowUnits v x) →
    (∀ x ∈ xs, NegPowUnits v x) →
    denProd v (xs.foldl ncStep st).1.reverse = denProd v st.1.reverse * denProd v xs := by
  induction xs with
  | nil => intro st _ _; simp [denProd]
  | cons a as ih =>
    intro st hst hxs
    obtain ⟨h1, h2⟩ := ncStep_inv v st a hst (hxs a (by simp))
    simp only [List.foldl]
    rw [ih _ h1 (fun x hx => hxs x (by simp [hx])), h2]
    simp [denProd, mul_assoc]

theorem den_ncOf (f : Nat) (ys : List ME) : den v (ncOf f ys) = denProd v ys := by
  unfold ncOf
  split
  · simp [den, denProd]
  · simp [denProd]
  · exact den_mkMul v f ys

/-- sympy `Mul(*args)` on non-commutative factors denotes their ordered product, provided every
    negative power among them has an invertible base (`A * A**-1` is rewritten to `A**0`) -/
theorem den_sympyMulNC (f : Nat) (ncs : List ME) (h : ∀ x ∈ ncs, NegPowUnits v x) :
    den v (sympyMulNC f ncs) = denProd v ncs := by
  unfold sympyMulNC ncFold
  rw [den_ncOf, ncFold_inv v ncs ([], false) (by simp) h]
  simp [denProd]

/-! ### Transpose, Inverse, SymbolicTrace -/

theorem denSum_map_transpose (g : ME → ME) (xs : List ME) (hg : ∀ x ∈ xs, den v (g x) = (den v x)ᵀ) :
    denSum v (xs.map g) = (denSum v xs)ᵀ := by
  induction xs with
  | nil => simp [denSum]
  | cons a as ih =>
    simp only [List.map, denSum, Matrix.transpose_add]
    rw [hg a (by simp), ih (fun x hx => hg x (by simp [hx]))]

/-- Transpose(a) denotes the transpose of the value of `a` -/
theorem den_mkTranspose : ∀ (f : Nat) (a : ME), NegPowUnits v a →
    den v (mkTranspose f a) = (den v a)ᵀ := by
  intro f
  induction f with
  | zero => intro a _; simp [mkTranspose, den]
  | succ f ih =>
    intro a ha
    cases a with
    | transpose y => simp [mkTranspose, den]
    | add xs =>
      simp only [mkTranspose, den]
      rw [den_sympyAdd]
      exact denSum_map_transpose v _ xs (fun x hx => ih x (NegPowUnits.of_add v ha x hx))
    | mul xs =>
      simp only [mkTranspose, den]
      rw [den_mkMul]
      simp only [denProd, den, mul_one]
      rw [den_scalMul v _ (fun x hx => (List.mem_filter.1 hx).2),
        den_sympyMulNC v f _ (fun x hx => NegPowUnits.of_mul v ha x (List.mem_filter.1 hx).1),
        denProd_partition v comm xs (fun x _ hx => cen_of_comm v x hx), Matrix.transpose_mul]
      have hC : Cen (denProd v (xs.filter comm)) :=
        cen_denProd v _ (fun x hx => (List.mem_filter.1 hx).2)
      rw [hC.2]
      exact hC.1 _
    | _ => simp [mkTranspose, den]

/-- Inverse(a) denotes the inverse of the value of `a`, provided an `Inverse` node is only ever
    applied to an invertible matrix -/
theorem den_mkInverse (a : ME) (h : InvUnits v a) : den v (mkInverse a) = (den v a)⁻¹ := by
  cases a with
  | inv y =>
    simp only [mkInverse, den]
    exact (Matrix.nonsing_inv_nonsing_inv _ (h y (Sub.refl _))).symm
  | _ => simp [mkInverse, den]

theorem den_methodInv (a : ME) (h : InvUnits v a) : den v (methodInv a) = (den v a)⁻¹ := by
  cases a with
  | jac s => simp [methodInv, den]
  | inv y => exact den_mkInverse v _ h
  | _ => simp [methodInv, mkInverse, den]

theorem comm_of_isCoeff {x : ME} (h : isCoeff x = true) : comm x = true := by
  cases x <;> simp_all [isCoeff, comm]

theorem scalar_of_coeffs (cs : List ME) (h : ∀ x ∈ cs, isCoeff x = true) :
    ∃ κ : K, denProd v cs = κ • (1 : Matrix (Fin n) (Fin n) K) := by
  induction cs with
  | nil => exact ⟨1, by simp [denProd]⟩
  | cons a as ih =>
    obtain ⟨κ, hκ⟩ := ih (fun x hx => h x (by simp [hx]))
    have ha := h a (by simp)
    cases a <;> simp [isCoeff] at ha
    case num k => exact ⟨κ * (k : K), by simp [denProd, den, hκ, smul_smul]⟩
    case sym s => exact ⟨κ * v.cst s, by simp [denProd, den, hκ, smul_smul]⟩

theorem denSum_map_trace (g : ME → ME) (xs : List ME)
    (hg : ∀ x ∈ xs, den v (g x) = (den v x).trace • (1 : Matrix (Fin n) (Fin n) K)) :
    denSum v (xs.map g) = (denSum v xs).trace • (1 : Matrix (Fin n) (Fin n) K) := by
  induction xs with
  | nil => simp [denSum]
  | cons a as ih =>
    simp only [List.map, denSum, Matrix.trace_add, add_smul]
    rw [hg a (by simp), ih (fun x hx => hg x (by simp [hx]))]

/-- SymbolicTrace(a) denotes the trace of the value of `a` -/
theorem den_mkTrace : ∀ (f : Nat) (a : ME),
    den v (mkTrace f a) = (den v a).trace • (1 : Matrix (Fin n) (Fin n) K) := by
  intro f
  induction f with
  | zero => intro a; simp [mkTrace, den]
  | succ f ih =>
    intro a
    cases a with
    | add xs =>
      simp only [mkTrace, den]
      rw [den_sympyAdd]
      exact denSum_map_trace v _ xs (fun x _ => ih x)
    | mul xs =>
      simp only [mkTrace]
      split
      · simp [den]
      · rw [den_scalTimes, ih, den_mkMul,
          den_scalMul v _ (fun x hx => comm_of_isCoeff (List.mem_filter.1 hx).2)]
        simp only [den]
        rw [denProd_partition v isCoeff xs (fun x _ hx => cen_of_comm v x (comm_of_isCoeff hx))]
        obtain ⟨κ, hκ⟩ := scalar_of_coeffs v (xs.filter isCoeff) (fun x hx => (List.mem_filter.1 hx).2)
        rw [hκ]
        simp [Matrix.trace_smul, smul_smul, mul_comm]
    | _ => simp [mkTrace, den]

end MatSym
end Sympde
