/-
  Helper lemmas for C01 (`lower_sound_ext`, the fragment with powers and elementary functions), part 1:
  the extended lowered scalar forms `LX` (the forms `LS` plus `pow` and `fn`), the budgeted
  non-degeneracy condition `NDk S k t` ("`t` may be differentiated `k` more times": bases of powers
  that reach a negative exponent within `k` derivatives, arguments of `log`, values of `tan` are
  invertible; functions that are differentiated are in the table of the model of `sympy.diff`), and
  closure + exactness of the coordinate operators: `dEval` maps `LX ∧ NDk (k+1)` to `LX ∧ NDk k`
  (exactness is `dEval_sound`, Props/C05).
-/
import SympdeModel.Lemmas.Lower
import SympdeModel.Props.C05
namespace Sympde.Lower
open E PD

variable {K : Type} [CommRing K] [Algebra ℚ K]

/-! ### extended lowered scalar forms -/

mutual
def LX : E → Bool
  | num _ _ => true
  | cst _ => true
  | sym _ => true
  | sf _ _ => true
  | idx (vf _ _) _ => true
  | pd _ a => LX a
  | add as => LXList as
  | mul as => LXList as
  | pow b e => LX b && LX e
  | fn _ a => LX a
  | _ => false
def LXList : List E → Bool
  | [] => true
  | a :: as => LX a && LXList as
end

theorem LXList_iff (as : List E) : LXList as = as.all LX := by
  induction as with
  | nil => simp [LXList]
  | cons a as ih => simp [LXList, ih]

theorem LXList_mem {as : List E} (h : LXList as = true) {a : E} (ha : a ∈ as) : LX a = true := by
  rw [LXList_iff, List.all_eq_true] at h
  exact h a ha

theorem LXList_of_mem {as : List E} (h : ∀ a ∈ as, LX a = true) : LXList as = true := by
  rw [LXList_iff, List.all_eq_true]; exact h

theorem LX_zero : LX zero = true := rfl
theorem LX_one : LX one = true := rfl

/-- the value of an extended scalar form does not depend on the component indices -/
theorem den_LX_free (S : DRing K) (e : E) (h : LX e = true) (i j : Nat) :
    den S e i j = den S e 0 0 := by
  induction e using E.rec
    (motive_2 := fun as => ∀ a ∈ as, LX a = true → den S a i j = den S a 0 0) with
  | add as ih =>
    simp only [den]
    exact denSum_congr S as i j 0 0 (fun a ha => ih a ha (LXList_mem (by simpa [LX] using h) ha))
  | mul as ih =>
    simp only [den]
    exact denProd_congr S as i j 0 0 (fun a ha => ih a ha (LXList_mem (by simpa [LX] using h) ha))
  | pd c a ih => simp only [den]; rw [ih (by simpa [LX] using h)]
  | pow b e ihb ihe =>
    simp only [LX, Bool.and_eq_true] at h
    simp only [den]; rw [ihb h.1, ihe h.2]
  | fn f a ih => simp only [den]; rw [ih (by simpa [LX] using h)]
  | idx b k _ => simp [den]
  | nil => cases ‹_ ∈ []›
  | cons a as iha ihas =>
    rename_i x hx hs
    rcases List.mem_cons.mp hx with rfl | hx
    · exact iha hs
    · exact ihas x hx hs
  | num _ _ => simp [den]
  | cst _ => simp [den]
  | sym _ => simp [den]
  | sf _ _ => simp [den]
  | _ => simp [LX] at h

theorem mulOf_LX (l : List E) (h : ∀ a ∈ l, LX a = true) : LX (mulOf l) = true := by
  match l, h with
  | [], _ => rfl
  | [a], h => exact h a (by simp)
  | a :: b :: rest, h =>
    simp only [mulOf, LX]
    exact LXList_of_mem h

/-! ### budgeted non-degeneracy -/

/-- `b` is a unit, with inverse `S.inv b`, at every component -/
def Inv1 (S : DRing K) (b : E) : Prop := ∀ i j, den S b i j * S.inv (den S b i j) = 1

/-- the condition on the base of a power that is differentiated `k` more times: a literal exponent
    `n ≥ k` never reaches a negative exponent; otherwise the base must be invertible -/
def powCond (S : DRing K) (k : Nat) (b e : E) : Prop :=
  match intLit e with
  | some (Int.ofNat n) => k ≤ n ∨ Inv1 S b
  | _ => k = 0 ∨ Inv1 S b

/-- the condition on an elementary function that is differentiated `k` more times -/
def fnCond (S : DRing K) (k : Nat) (f : String) (a : E) : Prop :=
  k = 0 ∨ (knownFn f = true ∧ (f = "log" → Inv1 S a) ∧ (f = "tan" → k ≤ 3 ∨ Inv1 S (fn "tan" a)))

mutual
/-- `t` may be differentiated `k` more times -/
def NDk (S : DRing K) (k : Nat) : E → Prop
  | pow b e => powCond S k b e ∧ NDk S k b ∧ NDk S k e
  | fn f a => fnCond S k f a ∧ NDk S k a
  | add as => NDkList S k as
  | mul as => NDkList S k as
  | pd _ a => NDk S k a
  | _ => True
def NDkList (S : DRing K) (k : Nat) : List E → Prop
  | [] => True
  | a :: as => NDk S k a ∧ NDkList S k as
end

theorem NDkList_mem (S : DRing K) (k : Nat) (as : List E) (h : NDkList S k as) (a : E) (ha : a ∈ as) :
    NDk S k a := by
  induction as with
  | nil => cases ha
  | cons x xs ih =>
    simp only [NDkList] at h
    rcases List.mem_cons.mp ha with rfl | ha
    · exact h.1
    · exact ih h.2 ha

theorem NDkList_of_mem (S : DRing K) (k : Nat) (as : List E) (h : ∀ a ∈ as, NDk S k a) :
    NDkList S k as := by
  induction as with
  | nil => trivial
  | cons a as ih => exact ⟨h a (by simp), ih (fun x hx => h x (by simp [hx]))⟩

theorem powCond_mono (S : DRing K) (k k' : Nat) (hk : k ≤ k') (b e : E) (h : powCond S k' b e) :
    powCond S k b e := by
  unfold powCond at *
  split at h
  · rcases h with h | h
    · exact Or.inl (by omega)
    · exact Or.inr h
  · rcases h with h | h
    · exact Or.inl (by omega)
    · exact Or.inr h

theorem fnCond_mono (S : DRing K) (k k' : Nat) (hk : k ≤ k') (f : String) (a : E)
    (h : fnCond S k' f a) : fnCond S k f a := by
  unfold fnCond at *
  rcases h with h | ⟨h1, h2, h3⟩
  · exact Or.inl (by omega)
  · refine Or.inr ⟨h1, h2, fun hf => ?_⟩
    rcases h3 hf with h | h
    · exact Or.inl (by omega)
    · exact Or.inr h

theorem NDk_mono (S : DRing K) (k k' : Nat) (hk : k ≤ k') (e : E) (h : NDk S k' e) : NDk S k e := by
  induction e using E.rec (motive_2 := fun as => ∀ a ∈ as, NDk S k' a → NDk S k a) with
  | add as ih =>
    simp only [NDk] at *
    exact NDkList_of_mem S k as (fun a ha => ih a ha (NDkList_mem S k' as h a ha))
  | mul as ih =>
    simp only [NDk] at *
    exact NDkList_of_mem S k as (fun a ha => ih a ha (NDkList_mem S k' as h a ha))
  | pd c a ih => simp only [NDk] at *; exact ih h
  | pow b e ihb ihe =>
    simp only [NDk] at *
    exact ⟨powCond_mono S k k' hk b e h.1, ihb h.2.1, ihe h.2.2⟩
  | fn f a ih =>
    simp only [NDk] at *
    exact ⟨fnCond_mono S k k' hk f a h.1, ih h.2⟩
  | nil => cases ‹_ ∈ []›
  | cons a as iha ihas =>
    rename_i x hx hs
    rcases List.mem_cons.mp hx with rfl | hx
    · exact iha hs
    · exact ihas x hx hs
  | _ => trivial

/-- a scalar form of the old class satisfies every budget -/
theorem LS_LX_NDk (S : DRing K) (k : Nat) (e : E) (h : LS e = true) : LX e = true ∧ NDk S k e := by
  induction e using E.rec
    (motive_2 := fun as => ∀ a ∈ as, LS a = true → LX a = true ∧ NDk S k a) with
  | add as ih =>
    have hs : ∀ a ∈ as, LS a = true := fun a ha => LSList_mem (by simpa [LS] using h) ha
    exact ⟨by simp only [LX]; exact LXList_of_mem (fun a ha => (ih a ha (hs a ha)).1),
      by simp only [NDk]; exact NDkList_of_mem S k as (fun a ha => (ih a ha (hs a ha)).2)⟩
  | mul as ih =>
    have hs : ∀ a ∈ as, LS a = true := fun a ha => LSList_mem (by simpa [LS] using h) ha
    exact ⟨by simp only [LX]; exact LXList_of_mem (fun a ha => (ih a ha (hs a ha)).1),
      by simp only [NDk]; exact NDkList_of_mem S k as (fun a ha => (ih a ha (hs a ha)).2)⟩
  | pd c a ih =>
    have := ih (by simpa [LS] using h)
    exact ⟨by simpa [LX] using this.1, by simpa [NDk] using this.2⟩
  | idx b i _ => cases b <;> simp_all [LS, LX, NDk]
  | nil => cases ‹_ ∈ []›
  | cons a as iha ihas =>
    rename_i x hx hs
    rcases List.mem_cons.mp hx with rfl | hx
    · exact iha hs
    · exact ihas x hx hs
  | num _ _ => exact ⟨rfl, trivial⟩
  | cst _ => exact ⟨rfl, trivial⟩
  | sym _ => exact ⟨rfl, trivial⟩
  | sf _ _ => exact ⟨rfl, trivial⟩
  | _ => simp [LS] at h

/-- a form that may be differentiated once more is in the fragment on which the coordinate operators
    are exact (Props/C05) -/
theorem NDk_SuppS (S : DRing K) (k : Nat) (e : E) (hL : LX e = true) (hN : NDk S (k + 1) e) :
    SuppS e = true ∧ NonDeg S e := by
  induction e using E.rec
    (motive_2 := fun as => ∀ a ∈ as, LX a = true → NDk S (k + 1) a → SuppS a = true ∧ NonDeg S a) with
  | add as ih =>
    have hs : ∀ a ∈ as, LX a = true := fun a ha => LXList_mem (by simpa [LX] using hL) ha
    simp only [NDk] at hN
    have := fun a ha => ih a ha (hs a ha) (NDkList_mem S _ as hN a ha)
    exact ⟨by simp only [SuppS, SuppSList_iff, List.all_eq_true]; exact fun a ha => (this a ha).1,
      by simp only [NonDeg]; exact NonDegList_of_mem S as (fun a ha => (this a ha).2)⟩
  | mul as ih =>
    have hs : ∀ a ∈ as, LX a = true := fun a ha => LXList_mem (by simpa [LX] using hL) ha
    simp only [NDk] at hN
    have := fun a ha => ih a ha (hs a ha) (NDkList_mem S _ as hN a ha)
    exact ⟨by simp only [SuppS, SuppSList_iff, List.all_eq_true]; exact fun a ha => (this a ha).1,
      by simp only [NonDeg]; exact NonDegList_of_mem S as (fun a ha => (this a ha).2)⟩
  | pd c a ih =>
    have := ih (by simpa [LX] using hL) (by simpa [NDk] using hN)
    exact ⟨by simpa [SuppS] using this.1, by simpa [NonDeg] using this.2⟩
  | pow b e ihb ihe =>
    simp only [LX, Bool.and_eq_true] at hL
    simp only [NDk] at hN
    have hb := ihb hL.1 hN.2.1
    have he := ihe hL.2 hN.2.2
    refine ⟨by simp [SuppS, hb.1, he.1], ?_⟩
    simp only [NonDeg]
    refine ⟨?_, hb.2, he.2⟩
    have hc := hN.1
    unfold powCond at hc
    split
    · rename_i m hm
      rw [hm] at hc
      rcases hc with h | h
      · omega
      · exact h
    · trivial
  | fn f a ih =>
    simp only [NDk] at hN
    have ha := ih (by simpa [LX] using hL) hN.2
    have hc := hN.1
    unfold fnCond at hc
    rcases hc with h | ⟨h1, _, _⟩
    · omega
    · exact ⟨by simp [SuppS, h1, ha.1], by simpa [NonDeg] using ha.2⟩
  | idx b i _ => cases b <;> simp_all [LX, SuppS, NonDeg]
  | nil => cases ‹_ ∈ []›
  | cons a as iha ihas =>
    rename_i x hx h1 h2
    rcases List.mem_cons.mp hx with rfl | hx
    · exact iha h1 h2
    · exact ihas x hx h1 h2
  | num _ _ => exact ⟨rfl, trivial⟩
  | cst _ => exact ⟨rfl, trivial⟩
  | sym _ => exact ⟨rfl, trivial⟩
  | sf _ _ => exact ⟨rfl, trivial⟩
  | _ => simp [LX] at hL

/-! ### closure of the class and of the budget under the coordinate operators -/

/-- an extended scalar form that may be differentiated `k` more times -/
def LN (S : DRing K) (k : Nat) (e : E) : Prop := LX e = true ∧ NDk S k e

theorem LN_zero (S : DRing K) (k : Nat) : LN S k zero := ⟨rfl, trivial⟩
theorem LN_one (S : DRing K) (k : Nat) : LN S k one := ⟨rfl, trivial⟩
theorem LN_num (S : DRing K) (k : Nat) (p : Int) (q : Nat) : LN S k (num p q) := ⟨rfl, trivial⟩

theorem LN_mono (S : DRing K) (k k' : Nat) (hk : k ≤ k') (e : E) (h : LN S k' e) : LN S k e :=
  ⟨h.1, NDk_mono S k k' hk e h.2⟩

theorem LN_add (S : DRing K) (k : Nat) (l : List E) (h : ∀ a ∈ l, LN S k a) : LN S k (add l) :=
  ⟨by simp only [LX]; exact LXList_of_mem (fun a ha => (h a ha).1),
   by simp only [NDk]; exact NDkList_of_mem S k l (fun a ha => (h a ha).2)⟩

theorem LN_mul (S : DRing K) (k : Nat) (l : List E) (h : ∀ a ∈ l, LN S k a) : LN S k (mul l) :=
  ⟨by simp only [LX]; exact LXList_of_mem (fun a ha => (h a ha).1),
   by simp only [NDk]; exact NDkList_of_mem S k l (fun a ha => (h a ha).2)⟩

theorem LN_add_mem (S : DRing K) (k : Nat) (l : List E) (h : LN S k (add l)) : ∀ a ∈ l, LN S k a :=
  fun a ha => ⟨LXList_mem (by simpa [LX] using h.1) ha, NDkList_mem S k l (by simpa [NDk] using h.2) a ha⟩

theorem LN_mul_mem (S : DRing K) (k : Nat) (l : List E) (h : LN S k (mul l)) : ∀ a ∈ l, LN S k a :=
  fun a ha => ⟨LXList_mem (by simpa [LX] using h.1) ha, NDkList_mem S k l (by simpa [NDk] using h.2) a ha⟩

theorem LN_pd (S : DRing K) (k : Nat) (c : Coord) (a : E) : LN S k (pd c a) ↔ LN S k a := by
  simp [LN, LX, NDk]

theorem LN_mulOf (S : DRing K) (k : Nat) (l : List E) (h : ∀ a ∈ l, LN S k a) : LN S k (mulOf l) := by
  match l, h with
  | [], _ => exact LN_one S k
  | [a], h => exact h a (by simp)
  | a :: b :: rest, h => exact LN_mul S k _ h

theorem prodRule_LN (S : DRing K) (k : Nat) (l : List (E × E))
    (h : ∀ p ∈ l, LN S k p.1 ∧ LN S k p.2) : LN S k (prodRule l) := by
  induction l with
  | nil => exact LN_zero S k
  | cons p rest ih =>
    obtain ⟨a, da⟩ := p
    have hp := h (a, da) (by simp)
    have ih' := ih (fun q hq => h q (by simp [hq]))
    cases rest with
    | nil => simpa [prodRule] using hp.2
    | cons q rest' =>
      have e1 : prodRule ((a, da) :: q :: rest')
          = add [mul [a, prodRule (q :: rest')], mul [da, mulOf ((q :: rest').map (·.1))]] := rfl
      rw [e1]
      have hm : LN S k (mulOf ((q :: rest').map (·.1))) := by
        apply LN_mulOf
        intro x hx
        obtain ⟨p, hp', rfl⟩ := List.mem_map.mp hx
        exact (h p (by simp [hp'])).1
      apply LN_add
      intro x hx
      simp only [List.mem_cons, List.not_mem_nil, or_false] at hx
      rcases hx with rfl | rfl
      · apply LN_mul
        intro y hy
        simp only [List.mem_cons, List.not_mem_nil, or_false] at hy
        rcases hy with rfl | rfl
        · exact hp.1
        · exact ih'
      · apply LN_mul
        intro y hy
        simp only [List.mem_cons, List.not_mem_nil, or_false] at hy
        rcases hy with rfl | rfl
        · exact hp.2
        · exact hm

/-- closes `LN S k (mul [..])` / `LN S k (add [..])` goals over explicit lists -/
syntax "ln_list" : tactic
set_option hygiene false in
macro_rules
  | `(tactic| ln_list) => `(tactic|
      (intro x hx
       simp only [List.mem_cons, List.not_mem_nil, or_false] at hx
       rcases hx with rfl | rfl | rfl | rfl <;> assumption))

theorem powRule_LN (S : DRing K) (k : Nat) (b e db de : E) (hb : LN S k b) (he : LN S k e)
    (hdb : LN S k db) (hde : LN S k de) (hc : powCond S (k + 1) b e) :
    LN S k (powRule b e db de) := by
  unfold powRule
  unfold powCond at hc
  cases hl : intLit e with
  | some n =>
    rw [hl] at hc
    simp only
    have hp : LN S k (pow b (num (n - 1) 1)) := by
      refine ⟨by simp [LX, hb.1], ?_⟩
      simp only [NDk]
      refine ⟨?_, hb.2, trivial⟩
      unfold powCond
      have hl' : intLit (num (n - 1) 1) = some (n - 1) := by simp [intLit]
      rw [hl']
      cases n with
      | ofNat m =>
        simp only at hc
        rcases hc with h | h
        · have : (Int.ofNat m - 1 : Int) = Int.ofNat (m - 1) := by
            simp only [Int.ofNat_eq_natCast]; omega
          rw [this]
          exact Or.inl (by omega)
        · cases hq : (Int.ofNat m - 1 : Int) with
          | ofNat j => exact Or.inr h
          | negSucc j => exact Or.inr h
      | negSucc m =>
        simp only at hc
        have h : Inv1 S b := by
          rcases hc with h | h
          · omega
          · exact h
        cases hq : (Int.negSucc m - 1 : Int) with
        | ofNat j => exact Or.inr h
        | negSucc j => exact Or.inr h
    have hn := LN_num S k n 1
    apply LN_mul
    ln_list
  | none =>
    rw [hl] at hc
    simp only at hc
    have hI : Inv1 S b := by
      rcases hc with h | h
      · omega
      · exact h
    simp only
    have hlog : LN S k (fn "log" b) := by
      refine ⟨by simpa [LX] using hb.1, ?_⟩
      simp only [NDk]
      exact ⟨Or.inr ⟨by decide, fun _ => hI, fun h => absurd h (by decide)⟩, hb.2⟩
    have hinv : LN S k (pow b (num (-1) 1)) := by
      refine ⟨by simp [LX, hb.1], ?_⟩
      simp only [NDk]
      refine ⟨?_, hb.2, trivial⟩
      unfold powCond
      have : intLit (num (-1) 1) = some (Int.negSucc 0) := rfl
      rw [this]
      exact Or.inr hI
    have hpow : LN S k (pow b e) := by
      refine ⟨by simp [LX, hb.1, he.1], ?_⟩
      simp only [NDk]
      refine ⟨?_, hb.2, he.2⟩
      unfold powCond
      rw [hl]
      exact Or.inr hI
    have h1 : LN S k (mul [fn "log" b, de]) := by apply LN_mul; ln_list
    have h2 : LN S k (mul [e, db, pow b (num (-1) 1)]) := by apply LN_mul; ln_list
    have h3 : LN S k (add [mul [fn "log" b, de], mul [e, db, pow b (num (-1) 1)]]) := by
      apply LN_add; ln_list
    apply LN_mul
    ln_list

theorem fnDeriv_LN (S : DRing K) (k : Nat) (f : String) (a : E) (ha : LN S k a)
    (hf : knownFn f = true) (hlog : f = "log" → Inv1 S a)
    (htan : f = "tan" → k + 1 ≤ 3 ∨ Inv1 S (fn "tan" a)) : LN S k (fnDeriv f a) := by
  have hfn : ∀ g : String, knownFn g = true → g ≠ "log" → g ≠ "tan" → LN S k (fn g a) := by
    intro g hg h1 h2
    refine ⟨by simpa [LX] using ha.1, ?_⟩
    simp only [NDk]
    exact ⟨Or.inr ⟨hg, fun h => absurd h h1, fun h => absurd h h2⟩, ha.2⟩
  unfold knownFn at hf
  simp only [Bool.or_eq_true, beq_iff_eq] at hf
  rcases hf with (((((rfl | rfl) | rfl) | rfl) | rfl) | rfl) | rfl
  · exact hfn "cos" (by decide) (by decide) (by decide)
  · have h1 := hfn "sin" (by decide) (by decide) (by decide)
    have h2 := LN_num S k (-1) 1
    simp only [fnDeriv]
    apply LN_mul; ln_list
  · exact hfn "exp" (by decide) (by decide) (by decide)
  · have hI := hlog rfl
    simp only [fnDeriv]
    refine ⟨by simp [LX, ha.1], ?_⟩
    simp only [NDk]
    refine ⟨?_, ha.2, trivial⟩
    unfold powCond
    have : intLit (num (-1) 1) = some (Int.negSucc 0) := rfl
    rw [this]
    exact Or.inr hI
  · exact hfn "cosh" (by decide) (by decide) (by decide)
  · exact hfn "sinh" (by decide) (by decide) (by decide)
  · have ht := htan rfl
    have htn : LN S k (fn "tan" a) := by
      refine ⟨by simpa [LX] using ha.1, ?_⟩
      simp only [NDk]
      refine ⟨Or.inr ⟨by decide, fun h => absurd h (by decide), fun _ => ?_⟩, ha.2⟩
      rcases ht with h | h
      · exact Or.inl (by omega)
      · exact Or.inr h
    have hp : LN S k (pow (fn "tan" a) (num 2 1)) := by
      refine ⟨by simp [LX, ha.1], ?_⟩
      simp only [NDk]
      refine ⟨?_, htn.2, trivial⟩
      unfold powCond
      have : intLit (num 2 1) = some (Int.ofNat 2) := rfl
      rw [this]
      rcases ht with h | h
      · exact Or.inl (by omega)
      · exact Or.inr h
    have h1 := LN_one S k
    simp only [fnDeriv]
    apply LN_add; ln_list

theorem hasT_list_false (as : List E) (hf : hasTList as = false) : ∀ a ∈ as, hasT a = false := by
  simp only [hasTList_iff, List.any_eq_false] at hf
  intro a ha; simpa using hf a ha

/-- the model of `sympy.diff` on function-free forms -/
theorem sdiff_LN (S : DRing K) (c : Coord) (k : Nat) (e : E) (hL : LX e = true) (hf : hasT e = false)
    (hN : NDk S (k + 1) e) : LN S k (PD.sdiff c e) := by
  induction e using E.rec
    (motive_2 := fun as => ∀ a ∈ as, LX a = true → hasT a = false → NDk S (k + 1) a →
      LN S k (PD.sdiff c a)) with
  | num p q => exact LN_zero S k
  | cst s => exact LN_zero S k
  | sym s => simp only [PD.sdiff]; split
             · exact LN_one S k
             · exact LN_zero S k
  | add as ih =>
    have hs := LN_add_mem S (k + 1) as ⟨hL, hN⟩
    have hf' := hasT_list_false as (by simpa [hasT] using hf)
    simp only [PD.sdiff, sdiffList_eq]
    apply LN_add
    intro x hx
    obtain ⟨a, ha, rfl⟩ := List.mem_map.mp hx
    exact ih a ha (hs a ha).1 (hf' a ha) (hs a ha).2
  | mul as ih =>
    have hs := LN_mul_mem S (k + 1) as ⟨hL, hN⟩
    have hf' := hasT_list_false as (by simpa [hasT] using hf)
    simp only [PD.sdiff, sdiffList_eq]
    apply prodRule_LN
    intro p hp
    have := mem_zip_map (PD.sdiff c) as p hp
    rw [this.2]
    exact ⟨LN_mono S k (k + 1) (by omega) _ (hs _ this.1),
      ih p.1 this.1 (hs _ this.1).1 (hf' _ this.1) (hs _ this.1).2⟩
  | pow b e ihb ihe =>
    simp only [LX, Bool.and_eq_true] at hL
    simp only [NDk] at hN
    simp only [hasT, Bool.or_eq_false_iff] at hf
    simp only [PD.sdiff]
    exact powRule_LN S k b e _ _ (LN_mono S k (k + 1) (by omega) b ⟨hL.1, hN.2.1⟩)
      (LN_mono S k (k + 1) (by omega) e ⟨hL.2, hN.2.2⟩) (ihb hL.1 hf.1 hN.2.1) (ihe hL.2 hf.2 hN.2.2)
      hN.1
  | fn f a iha =>
    have hLa : LX a = true := by simpa [LX] using hL
    simp only [NDk] at hN
    simp only [hasT] at hf
    have hc := hN.1
    unfold fnCond at hc
    rcases hc with h | ⟨h1, h2, h3⟩
    · omega
    · have hd := fnDeriv_LN S k f a (LN_mono S k (k + 1) (by omega) a ⟨hLa, hN.2⟩) h1 h2 h3
      have hs := iha hLa hf hN.2
      simp only [PD.sdiff]
      apply LN_mul; ln_list
  | nil => cases ‹_ ∈ []›
  | cons a as iha ihas =>
    rename_i x hx h1 h2 h3
    rcases List.mem_cons.mp hx with rfl | hx
    · exact iha h1 h2 h3
    · exact ihas x hx h1 h2 h3
  | idx b i _ => cases b <;> simp_all [LX, hasT]
  | _ => first | (simp [hasT] at hf; done) | (simp [LX] at hL)

theorem noT_LN (S : DRing K) (c : Coord) (k : Nat) (e : E) (hL : LX e = true) (hf : hasT e = false)
    (hN : NDk S (k + 1) e) (b : Bool) : LN S k (if b then zero else PD.sdiff c e) := by
  cases b
  · simpa using sdiff_LN S c k e hL hf hN
  · exact LN_zero S k

theorem stripL_LN (S : DRing K) (k : Nat) (e : E) (h : LN S k e) : LN S k (stripL e) := by
  induction e using E.rec (motive_2 := fun _ => True) with
  | pd c a ih =>
    simp only [stripL]
    split
    · exact ih ((LN_pd S k c a).mp h)
    · exact h
  | nil => trivial
  | cons _ _ _ _ => trivial
  | _ => simpa [stripL] using h

theorem iter_pd_LN (S : DRing K) (k : Nat) (c : Coord) (n : Nat) (a : E) (h : LN S k a) :
    LN S k (iter n (pd c) a) := by
  induction n with
  | zero => exact h
  | succ n ih => exact (LN_pd S k c _).mpr ih

theorem reorderL_LN (S : DRing K) (k : Nat) (c : Coord) (e r : E) (hs : LN S k e)
    (h : reorderL c e = .ok r) : LN S k r := by
  unfold reorderL at h
  have hr : ∀ n1 n2 n3, LN S k (rebuildL n1 n2 n3 (stripL e)) := by
    intro n1 n2 n3
    unfold rebuildL
    exact iter_pd_LN S k _ _ _ (iter_pd_LN S k _ _ _ (iter_pd_LN S k _ _ _ (stripL_LN S k e hs)))
  split at h
  · injection h with h; subst h; exact hr _ _ _
  · injection h with h; subst h; exact (LN_pd S k c _).mpr (hr _ _ _)

theorem dEvalList_LN (S : DRing K) (d : Nat) (c : Coord) (k : Nat) (as : List E)
    (ih : ∀ a ∈ as, ∀ r, dEval d c a = .ok r → LN S k r)
    (rs : List E) (h : dEvalList d c as = .ok rs) : ∀ r ∈ rs, LN S k r := by
  induction as generalizing rs with
  | nil =>
    simp only [dEvalList] at h
    injection h with h; subst h
    intro r hr; cases hr
  | cons a as iha =>
    simp only [dEvalList, bind, Except.bind] at h
    cases h1 : dEval d c a with
    | error e => rw [h1] at h; cases h
    | ok r =>
      rw [h1] at h
      cases h2 : dEvalList d c as with
      | error e => rw [h2] at h; cases h
      | ok rs' =>
        rw [h2] at h
        injection h with h; subst h
        intro x hx
        rcases List.mem_cons.mp hx with rfl | hx
        · exact ih a (by simp) x h1
        · exact iha (fun y hy => ih y (by simp [hy])) rs' h2 x hx

theorem dProd_LN (S : DRing K) (c : Coord) (k : Nat) (l : List (E × Except Err E))
    (hl : ∀ p ∈ l, LN S (k + 1) p.1 ∧ ∀ r, p.2 = .ok r → LN S k r)
    (v : E) (h : dProd c l = .ok v) : LN S k v := by
  induction l generalizing v with
  | nil =>
    simp only [dProd] at h
    injection h with h; subst h
    exact LN_zero S k
  | cons p rest ih =>
    obtain ⟨a, da⟩ := p
    have hp := hl (a, da) (by simp)
    cases rest with
    | nil =>
      simp only [dProd] at h
      exact hp.2 v h
    | cons q rest' =>
      have hrest : ∀ p ∈ q :: rest', LN S (k + 1) p.1 ∧ ∀ r, p.2 = .ok r → LN S k r :=
        fun p hp' => hl p (by simp [hp'])
      have hfst : ∀ x ∈ (q :: rest').map (·.1), LN S (k + 1) x := by
        intro x hx
        obtain ⟨p, hp', rfl⟩ := List.mem_map.mp hx
        exact (hrest p hp').1
      have hfb : ∀ fb, (match (q :: rest') with
            | [(_, dv)] => dv
            | _ => if !hasTList ((q :: rest').map (·.1)) then
                      Except.ok (if allNumber ((q :: rest').map (·.1)) then zero
                                 else PD.sdiff c (mulOf ((q :: rest').map (·.1))))
                    else dProd c (q :: rest')) = Except.ok fb → LN S k fb := by
        intro fb hfb
        cases rest' with
        | nil =>
          simp only at hfb
          exact (hrest q (by simp)).2 fb hfb
        | cons q2 rest'' =>
          simp only at hfb
          split at hfb
          · rename_i hnf
            injection hfb with hfb
            have hnf' : hasTList ((q :: q2 :: rest'').map (·.1)) = false := by simpa using hnf
            have hmul : mulOf ((q :: q2 :: rest'').map (·.1)) = mul ((q :: q2 :: rest'').map (·.1)) := rfl
            have hS := LN_mul S (k + 1) _ hfst
            have hT : hasT (mul ((q :: q2 :: rest'').map (·.1))) = false := by simpa [hasT] using hnf'
            rw [hmul] at hfb
            subst hfb
            exact noT_LN S c k _ hS.1 hT hS.2 _
          · exact ih hrest fb hfb
      simp only [dProd, bind, Except.bind] at h
      cases hda : da with
      | error e => rw [hda] at h; cases h
      | ok fa =>
        rw [hda] at h
        simp only at h
        split at h
        · cases h
        · rename_i fb hfbeq
          injection h with h; subst h
          have h1 := hp.2 fa hda
          have h2 := hfb fb hfbeq
          have h0 := LN_mono S k (k + 1) (by omega) a hp.1
          have hm : LN S k (mulOf ((q :: rest').map (·.1))) :=
            LN_mulOf S k _ (fun x hx => LN_mono S k (k + 1) (by omega) x (hfst x hx))
          have e1 : LN S k (mul [a, fb]) := by apply LN_mul; ln_list
          have e2 : LN S k (mul [fa, mulOf ((q :: rest').map (·.1))]) := by apply LN_mul; ln_list
          apply LN_add; ln_list

/-- **closure**: the derivative of a form that may be differentiated `k+1` more times is a form
    that may be differentiated `k` more times -/
theorem dEval_LN (S : DRing K) (d : Nat) (c : Coord) (k : Nat) (e : E) (hs : LN S (k + 1) e)
    (r : E) (h : dEval d c e = .ok r) : LN S k r := by
  induction e using E.rec
    (motive_2 := fun as => ∀ a ∈ as, LN S (k + 1) a → ∀ r, dEval d c a = .ok r → LN S k r)
    generalizing r with
  | num p q =>
    simp only [dEval, hasT, isNumber] at h
    simp at h; subst h
    exact LN_zero S k
  | cst s =>
    simp only [dEval, hasT, isNumber] at h
    simp at h; subst h
    exact LN_zero S k
  | sym s =>
    simp only [dEval, hasT, isNumber] at h
    simp at h; subst h
    exact sdiff_LN S c k (sym s) rfl rfl trivial
  | sf s k' =>
    simp only [dEval] at h
    injection h with h; subst h
    exact ⟨rfl, trivial⟩
  | idx b i _ =>
    simp only [dEval] at h
    injection h with h; subst h
    exact (LN_pd S k c _).mpr (LN_mono S k (k + 1) (by omega) _ hs)
  | pd c' a _ =>
    have hs' := LN_mono S k (k + 1) (by omega) _ hs
    simp only [dEval] at h
    split at h
    · exact reorderL_LN S k c (pd c' a) r hs' h
    · injection h with h; subst h
      exact (LN_pd S k c _).mpr hs'
  | add as ih =>
    have hs' := LN_add_mem S (k + 1) as hs
    simp only [dEval] at h
    split at h
    · rename_i hnf
      injection h with h
      have hnf' : hasT (add as) = false := by simpa [hasT] using hnf
      subst h
      exact noT_LN S c k (add as) hs.1 hnf' hs.2 _
    · simp only [bind, Except.bind] at h
      cases hrs : dEvalList d c as with
      | error e => rw [hrs] at h; cases h
      | ok rs =>
        rw [hrs] at h
        injection h with h; subst h
        exact LN_add S k rs (dEvalList_LN S d c k as (fun a ha r hr => ih a ha (hs' a ha) r hr) rs hrs)
  | mul as ih =>
    have hs' := LN_mul_mem S (k + 1) as hs
    simp only [dEval] at h
    split at h
    · rename_i hnf
      injection h with h
      have hnf' : hasT (mul as) = false := by simpa [hasT] using hnf
      subst h
      exact noT_LN S c k (mul as) hs.1 hnf' hs.2 _
    · simp only [bind, Except.bind, dEvalListE_map] at h
      split at h
      · cases h
      · rename_i v hv
        injection h with h; subst h
        have hv' := dProd_LN S c k _ (by
          intro p hp
          have hp' := (List.mem_filter.mp hp).1
          have := mem_zip_map (dEval d c) as p hp'
          refine ⟨hs' _ this.1, ?_⟩
          intro r hr
          rw [this.2] at hr
          exact ih p.1 this.1 (hs' _ this.1) r hr) v hv
        have hc : LN S k (mulOf (as.filter isCoef)) :=
          LN_mulOf S k _ (fun a ha => LN_mono S k (k + 1) (by omega) a (hs' a (List.mem_filter.mp ha).1))
        apply LN_mul; ln_list
  | pow b e ihb ihe =>
    have hL := hs.1
    have hN := hs.2
    simp only [LX, Bool.and_eq_true] at hL
    simp only [NDk] at hN
    simp only [dEval] at h
    split at h
    · rename_i hnf
      injection h with h
      have hnf' : hasT (pow b e) = false := by simpa [hasT] using hnf
      subst h
      exact noT_LN S c k (pow b e) hs.1 hnf' hs.2 _
    · simp only [bind, Except.bind] at h
      cases hdb : dEval d c b with
      | error e' => rw [hdb] at h; cases h
      | ok db =>
        rw [hdb] at h
        cases hde : dEval d c e with
        | error e' => rw [hde] at h; cases h
        | ok de =>
          rw [hde] at h
          injection h with h; subst h
          exact powRule_LN S k b e db de (LN_mono S k (k + 1) (by omega) b ⟨hL.1, hN.2.1⟩)
            (LN_mono S k (k + 1) (by omega) e ⟨hL.2, hN.2.2⟩) (ihb ⟨hL.1, hN.2.1⟩ db hdb)
            (ihe ⟨hL.2, hN.2.2⟩ de hde) hN.1
  | fn f a iha =>
    simp only [dEval] at h
    split at h
    · rename_i hnf
      have hnf' : hasT (fn f a) = false := by simpa using hnf
      split at h
      · injection h with h; subst h
        exact LN_zero S k
      · injection h with h; subst h
        exact sdiff_LN S c k (fn f a) hs.1 hnf' hs.2
    · cases h
  | nil => cases ‹_ ∈ []›
  | cons a as iha ihas =>
    rename_i x hx h1 r' hr
    rcases List.mem_cons.mp hx with rfl | hx
    · exact iha h1 r' hr
    · exact ihas x hx h1 r' hr
  | _ => exact absurd hs.1 (by simp [LX])

/-- closure and exactness together (exactness needs the table of elementary functions) -/
theorem dEval_LX (S : DRing K) (T : FnTable S) (d : Nat) (c : Coord) (k : Nat) (e : E)
    (hs : LN S (k + 1) e) (r : E) (h : dEval d c e = .ok r) :
    LN S k r ∧ ∀ i j, den S r i j = S.D c (den S e i j) := by
  have hS := NDk_SuppS S k e hs.1 hs.2
  exact ⟨dEval_LN S d c k e hs r h, dEval_sound S T d c e hS.1 hS.2 r h⟩

end Sympde.Lower
