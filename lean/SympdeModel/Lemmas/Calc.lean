/-
  The rewriting rules of sympde/calculus/core.py as identities of the classical semantics
  `denG` (Sem/DenG.lean), valid in every differential ring.
-/
import SympdeModel.Sem.DenG
import SympdeModel.Lemmas.PDeriv
import SympdeModel.Model.Calc
namespace Sympde
open E
open DRing (sumN sumN_add sumN_mul_left sumN_congr sumN_zero)

variable {K : Type} [CommRing K] [Algebra ℚ K]

/-- a value that does not depend on the component indices (what a scalar expression denotes) -/
def IndexFree (S : DRing K) (d : Nat) (lg : Bool) (e : E) : Prop :=
  ∀ i j, denG S d lg e i j = denG S d lg e 0 0

theorem Di_add (S : DRing K) (lg : Bool) (i : Nat) (a b : K) : Di S lg i (a + b) = Di S lg i a + Di S lg i b :=
  S.D_add _ a b

theorem Di_mul (S : DRing K) (lg : Bool) (i : Nat) (a b : K) :
    Di S lg i (a * b) = a * Di S lg i b + Di S lg i a * b := S.D_mul _ a b

theorem Di_comm (S : DRing K) (lg : Bool) (i j : Nat) (a : K) :
    Di S lg i (Di S lg j a) = Di S lg j (Di S lg i a) := S.D_comm _ _ a

theorem Di_zero (S : DRing K) (lg : Bool) (i : Nat) : Di S lg i 0 = 0 := S.D_zero _

theorem Di_neg (S : DRing K) (lg : Bool) (i : Nat) (a : K) : Di S lg i (-a) = - Di S lg i a := S.D_neg _ a

theorem Di_sub (S : DRing K) (lg : Bool) (i : Nat) (a b : K) : Di S lg i (a - b) = Di S lg i a - Di S lg i b :=
  S.D_sub _ a b

theorem Di_sumN (S : DRing K) (lg : Bool) (i d : Nat) (f : Nat → K) :
    Di S lg i (sumN d f) = sumN d (fun k => Di S lg i (f k)) := S.D_sumN _ d f

theorem sumN_sub {K : Type} [CommRing K] (d : Nat) (f g : Nat → K) :
    sumN d (fun i => f i - g i) = sumN d f - sumN d g := by
  induction d with
  | zero => simp [sumN]
  | succ n ih => simp only [sumN, ih]; ring

theorem sumN_mul_right {K : Type} [CommRing K] (d : Nat) (a : K) (f : Nat → K) :
    sumN d (fun i => f i * a) = sumN d f * a := by
  induction d with
  | zero => simp [sumN]
  | succ n ih => simp only [sumN, ih]; ring

theorem sumN_comm {K : Type} [CommRing K] (d e : Nat) (f : Nat → Nat → K) :
    sumN d (fun i => sumN e (fun j => f i j)) = sumN e (fun j => sumN d (fun i => f i j)) := by
  induction d with
  | zero => simp [sumN, sumN_zero]
  | succ n ih =>
    simp only [sumN, ih]
    rw [← sumN_add]

/-! ### curl ∘ grad = 0,  div ∘ curl = 0 -/

/-- **curl(grad f) = 0** in 3D (component-wise) and in 2D -/
theorem curl_grad_zero (S : DRing K) (d : Nat) (lg : Bool) (f : E) (hf : rank d f = 0) (i j : Nat) :
    denG S d lg (op1 .curl (op1 .grad f)) i j = 0 := by
  simp only [denG, hf, if_true]
  split
  · split <;> (rw [Di_comm]; ring)
  · rw [Di_comm]; ring

/-- **div(curl F) = 0** in 3D -/
theorem div_curl_zero (S : DRing K) (lg : Bool) (F : E) (i j : Nat) :
    denG S 3 lg (op1 .div (op1 .curl F)) i j = 0 := by
  have hr : rank 3 (op1 .curl F) = 1 := by simp [rank]
  simp only [denG, hr, if_true, sumN, Di_sub]
  rw [Di_comm S lg 0 1, Di_comm S lg 0 2, Di_comm S lg 1 2]
  ring

/-! ### product rules -/

/-- **div(f F) = f div F + F · grad f** (`f` scalar, `F` vector) -/
theorem div_scalar_mul (S : DRing K) (d : Nat) (lg : Bool) (f F : E)
    (hf : rank d f = 0) (hF : rank d F = 1) (hfree : IndexFree S d lg f) (i j : Nat) :
    denG S d lg (op1 .div (mul [f, F])) i j
      = denG S d lg (add [mul [f, op1 .div F], op2 .dot F (op1 .grad f)]) i j := by
  have hr : rank d (mul [f, F]) = 1 := by simp [rank, rankMax, hf, hF]
  have hg : rank d (op1 .grad f) = 1 := by simp [rank, hf]
  simp only [denG, denGSum, denGProd, hr, hF, hf, hg, if_true, mul_one, add_zero]
  have h3 : ¬ ((1 : Nat) = 2) := by decide
  simp only [h3, if_false]
  rw [hfree i j]
  have : ∀ k, Di S lg k (denG S d lg f k 0 * denG S d lg F k 0)
      = denG S d lg f 0 0 * Di S lg k (denG S d lg F k 0)
        + denG S d lg F k 0 * Di S lg k (denG S d lg f 0 0) := by
    intro k
    rw [hfree k 0, Di_mul]; ring
  simp only [this, sumN_add, sumN_mul_left]

/-- **grad(f g) = f grad g + g grad f** -/
theorem grad_mul (S : DRing K) (d : Nat) (lg : Bool) (f g : E)
    (hf : rank d f = 0) (hg : rank d g = 0)
    (hff : IndexFree S d lg f) (hgf : IndexFree S d lg g) (i j : Nat) :
    denG S d lg (op1 .grad (mul [f, g])) i j
      = denG S d lg (add [mul [f, op1 .grad g], mul [op1 .grad f, g]]) i j := by
  have hr : rank d (mul [f, g]) = 0 := by simp [rank, rankMax, hf, hg]
  simp only [denG, denGSum, denGProd, hr, hf, hg, if_true, mul_one, add_zero]
  rw [Di_mul, hff i j, hgf i j]

/-- **laplace(f g) = f laplace g + g laplace f + 2 grad f · grad g** -/
theorem laplace_mul (S : DRing K) (d : Nat) (lg : Bool) (f g : E)
    (hf : rank d f = 0) (hg : rank d g = 0)
    (hff : IndexFree S d lg f) (hgf : IndexFree S d lg g) (i j : Nat) :
    denG S d lg (op1 .laplace (mul [f, g])) i j
      = denG S d lg (add [mul [f, op1 .laplace g], mul [g, op1 .laplace f],
          mul [num 2 1, op2 .dot (op1 .grad f) (op1 .grad g)]]) i j := by
  have hgf' : rank d (op1 .grad f) = 1 := by simp [rank, hf]
  have hgg' : rank d (op1 .grad g) = 1 := by simp [rank, hg]
  have h3 : ¬ ((1 : Nat) = 2) := by decide
  simp only [denG, denGSum, denGProd, hf, hg, hgf', hgg', h3, if_true, if_false, mul_one, add_zero]
  rw [hff i j, hgf i j]
  have : ∀ k, Di S lg k (Di S lg k (denG S d lg f 0 0 * denG S d lg g 0 0))
      = denG S d lg f 0 0 * Di S lg k (Di S lg k (denG S d lg g 0 0))
        + denG S d lg g 0 0 * Di S lg k (Di S lg k (denG S d lg f 0 0))
        + 2 * (Di S lg k (denG S d lg f 0 0) * Di S lg k (denG S d lg g 0 0)) := by
    intro k
    rw [Di_mul, Di_add, Di_mul, Di_mul]; ring
  simp only [this, sumN_add, sumN_mul_left]
  have h2 : algebraMap ℚ K (((2 : ℤ) : ℚ) / ((1 : ℕ) : ℚ)) = 2 := by
    simp
    exact map_ofNat (algebraMap ℚ K) 2
  rw [h2]
  ring

/-! ### syntactically scalar, well-typed expressions -/

mutual
def Scal (d : Nat) : E → Bool
  | num _ _ => true
  | cst _ => true
  | sym _ => true
  | sf _ _ => true
  | idx (vf _ _) _ => true
  | add as => ScalList d as
  | mul as => ScalList d as
  | pow b e => Scal d b && Scal d e
  | fn _ a => Scal d a
  | pd _ a => Scal d a
  | op1 .div a => rank d a == 1
  | op1 .laplace a => Scal d a
  | op1 .curl _ => d != 3
  | op2 .dot a b => rank d a != 2 && rank d b != 2
  | op2 .inner _ _ => true
  | op2 .bracket _ _ => true
  | op2 .cross _ _ => d != 3
  | _ => false
def ScalList (d : Nat) : List E → Bool
  | [] => true
  | a :: as => Scal d a && ScalList d as
end

theorem ScalList_iff (d : Nat) (as : List E) : ScalList d as = as.all (Scal d) := by
  induction as with
  | nil => simp [ScalList]
  | cons a as ih => simp [ScalList, ih]

theorem rankMax_zero (d : Nat) (as : List E) (h : ∀ a ∈ as, rank d a = 0) : rankMax d as = 0 := by
  induction as with
  | nil => simp [rankMax]
  | cons a as ih =>
    simp [rankMax, h a (by simp), ih (fun x hx => h x (by simp [hx]))]

theorem denGSum_congr (S : DRing K) (d : Nat) (lg : Bool) (as : List E) (i j i' j' : Nat)
    (h : ∀ a ∈ as, denG S d lg a i j = denG S d lg a i' j') :
    denGSum S d lg as i j = denGSum S d lg as i' j' := by
  induction as with
  | nil => simp [denGSum]
  | cons a as ih =>
    simp only [denGSum]
    rw [h a (by simp), ih (fun x hx => h x (by simp [hx]))]

theorem denGProd_congr (S : DRing K) (d : Nat) (lg : Bool) (as : List E) (i j i' j' : Nat)
    (h : ∀ a ∈ as, denG S d lg a i j = denG S d lg a i' j') :
    denGProd S d lg as i j = denGProd S d lg as i' j' := by
  induction as with
  | nil => simp [denGProd]
  | cons a as ih =>
    simp only [denGProd]
    rw [h a (by simp), ih (fun x hx => h x (by simp [hx]))]

/-- a syntactically scalar expression has rank 0 and an index-free value -/
theorem Scal_spec (S : DRing K) (d : Nat) (lg : Bool) (e : E) (h : Scal d e = true) :
    rank d e = 0 ∧ IndexFree S d lg e := by
  induction e using E.rec
    (motive_2 := fun as => ∀ a ∈ as, Scal d a = true → rank d a = 0 ∧ IndexFree S d lg a) with
  | num p q => exact ⟨by simp [rank], fun i j => by simp [denG]⟩
  | cst s => exact ⟨by simp [rank], fun i j => by simp [denG]⟩
  | sym s => exact ⟨by simp [rank], fun i j => by simp [denG]⟩
  | sf s k => exact ⟨by simp [rank], fun i j => by simp [denG]⟩
  | vf s k => simp [Scal] at h
  | idx b k _ => exact ⟨by simp [rank], fun i j => by simp [denG]⟩
  | add as ih =>
    simp only [Scal, ScalList_iff, List.all_eq_true] at h
    refine ⟨?_, fun i j => ?_⟩
    · cases as with
      | nil => simp [rank, rankHead]
      | cons a as => simp only [rank, rankHead]; exact (ih a (by simp) (h a (by simp))).1
    · simp only [denG]
      exact denGSum_congr S d lg as i j 0 0 (fun a ha => (ih a ha (h a ha)).2 i j)
  | mul as ih =>
    simp only [Scal, ScalList_iff, List.all_eq_true] at h
    refine ⟨?_, fun i j => ?_⟩
    · simp only [rank]; exact rankMax_zero d as (fun a ha => (ih a ha (h a ha)).1)
    · simp only [denG]
      exact denGProd_congr S d lg as i j 0 0 (fun a ha => (ih a ha (h a ha)).2 i j)
  | pow b e ihb ihe =>
    simp only [Scal, Bool.and_eq_true] at h
    refine ⟨by simp [rank], fun i j => ?_⟩
    simp only [denG]
    rw [(ihb h.1).2 i j, (ihe h.2).2 i j]
  | fn f a iha =>
    simp only [Scal] at h
    refine ⟨by simp [rank], fun i j => ?_⟩
    simp only [denG]; rw [(iha h).2 i j]
  | pd c a iha =>
    simp only [Scal] at h
    refine ⟨by simp only [rank]; exact (iha h).1, fun i j => ?_⟩
    simp only [denG]; rw [(iha h).2 i j]
  | op1 o a iha =>
    cases o with
    | curl =>
      simp only [Scal] at h
      have hd : ¬ (d = 3) := by simpa using h
      exact ⟨by simp [rank, hd], fun i j => by simp [denG, hd]⟩
    | div =>
      simp only [Scal] at h
      have hr : rank d a = 1 := by simpa using h
      exact ⟨by simp [rank, hr], fun i j => by simp [denG, hr]⟩
    | laplace =>
      simp only [Scal] at h
      refine ⟨by simp only [rank]; exact (iha h).1, fun i j => ?_⟩
      simp only [denG]; rw [(iha h).2 i j]
    | _ => simp [Scal] at h
  | op2 o a b _ _ =>
    cases o with
    | dot =>
      simp only [Scal, Bool.and_eq_true, bne_iff_ne, ne_eq] at h
      exact ⟨by simp [rank, h.1, h.2], fun i j => by simp [denG, h.1, h.2]⟩
    | cross =>
      simp only [Scal] at h
      have hd : ¬ (d = 3) := by simpa using h
      exact ⟨by simp [rank, hd], fun i j => by simp [denG, hd]⟩
    | inner => exact ⟨by simp [rank], fun i j => by simp [denG]⟩
    | bracket => exact ⟨by simp [rank], fun i j => by simp [denG]⟩
    | _ => simp [Scal] at h
  | nil => cases ‹_ ∈ []›
  | cons a as iha ihas =>
    rename_i x hx hs
    rcases List.mem_cons.mp hx with rfl | hx
    · exact iha hs
    · exact ihas x hx hs
  | _ => simp [Scal] at h

/-! ### side conditions over `denG`, numbers -/

mutual
/-- bases of negative-literal or non-literal powers are invertible (by `S.inv`) -/
def NonDegG (S : DRing K) (d : Nat) (lg : Bool) : E → Prop
  | pow b e =>
      (match PD.intLit e with
        | some (Int.ofNat _) => True
        | _ => ∀ i j, denG S d lg b i j * S.inv (denG S d lg b i j) = 1) ∧
      NonDegG S d lg b ∧ NonDegG S d lg e
  | add as => NonDegGList S d lg as
  | mul as => NonDegGList S d lg as
  | fn _ a => NonDegG S d lg a
  | _ => True
def NonDegGList (S : DRing K) (d : Nat) (lg : Bool) : List E → Prop
  | [] => True
  | a :: as => NonDegG S d lg a ∧ NonDegGList S d lg as
end

theorem NonDegGList_mem (S : DRing K) (d : Nat) (lg : Bool) (as : List E) (h : NonDegGList S d lg as)
    (a : E) (ha : a ∈ as) : NonDegG S d lg a := by
  induction as with
  | nil => cases ha
  | cons x xs ih =>
    simp only [NonDegGList] at h
    rcases List.mem_cons.mp ha with rfl | ha
    · exact h.1
    · exact ih h.2 ha

theorem NonDegGList_of_mem (S : DRing K) (d : Nat) (lg : Bool) (as : List E)
    (h : ∀ a ∈ as, NonDegG S d lg a) : NonDegGList S d lg as := by
  induction as with
  | nil => trivial
  | cons a as ih => exact ⟨h a (by simp), ih (fun x hx => h x (by simp [hx]))⟩

theorem D_powSem_rpow (S : DRing K) (c : Coord) (b ev : K) (e : E) (hl : PD.intLit e = none) :
    S.D c (powSem S b e ev) = (S.fn "log" b * S.D c ev + ev * S.D c b * S.inv b) * S.rpow b ev := by
  unfold powSem; rw [hl]; exact S.D_rpow c b ev

/-- numbers (sympy `is_number`) have zero derivative -/
theorem DG_isNumber (S : DRing K) (d : Nat) (lg : Bool) (c : Coord) (e : E)
    (hn : PD.isNumber e = true) (hnd : NonDegG S d lg e) :
    ∀ i j, S.D c (denG S d lg e i j) = 0 := by
  induction e using E.rec
    (motive_2 := fun as => ∀ a ∈ as, PD.isNumber a = true → NonDegG S d lg a →
      ∀ i j, S.D c (denG S d lg a i j) = 0) with
  | num p q => intro i j; simp [denG, S.D_rat]
  | cst s => intro i j; simp [denG, S.D_cst]
  | add as ih =>
    intro i j
    simp only [PD.isNumber, allNumber_iff, List.all_eq_true] at hn
    simp only [NonDegG] at hnd
    simp only [denG]
    have key : ∀ (l : List E), (∀ a ∈ l, a ∈ as) → S.D c (denGSum S d lg l i j) = 0 := by
      intro l
      induction l with
      | nil => intro _; simp [denGSum, S.D_zero]
      | cons a l ihl =>
        intro hl
        have ha := hl a (by simp)
        simp only [denGSum, S.D_add]
        rw [ih a ha (hn a ha) (NonDegGList_mem S d lg as hnd a ha) i j, ihl (fun x hx => hl x (by simp [hx]))]
        simp
    exact key as (fun a ha => ha)
  | mul as ih =>
    intro i j
    simp only [PD.isNumber, allNumber_iff, List.all_eq_true] at hn
    simp only [NonDegG] at hnd
    simp only [denG]
    have key : ∀ (l : List E), (∀ a ∈ l, a ∈ as) → S.D c (denGProd S d lg l i j) = 0 := by
      intro l
      induction l with
      | nil => intro _; simp [denGProd, S.D_one]
      | cons a l ihl =>
        intro hl
        have ha := hl a (by simp)
        simp only [denGProd, S.D_mul]
        rw [ih a ha (hn a ha) (NonDegGList_mem S d lg as hnd a ha) i j, ihl (fun x hx => hl x (by simp [hx]))]
        simp
    exact key as (fun a ha => ha)
  | pow b e ihb ihe =>
    intro i j
    simp only [PD.isNumber, Bool.and_eq_true] at hn
    simp only [NonDegG] at hnd
    simp only [denG]
    cases hl : PD.intLit e with
    | some n =>
      rw [D_powSem_int S c _ e _ n hl, ihb hn.1 hnd.2.1 i j]
      · simp
      · intro m hm
        have := hnd.1
        rw [hl, hm] at this
        exact this i j
    | none =>
      rw [D_powSem_rpow S c _ _ e hl, ihb hn.1 hnd.2.1 i j, ihe hn.2 hnd.2.2 i j]
      simp
  | fn f a iha =>
    intro i j
    simp only [PD.isNumber] at hn
    simp only [NonDegG] at hnd
    simp only [denG, S.D_fn, iha hn hnd i j]
    simp
  | nil => cases ‹_ ∈ []›
  | cons a as iha ihas =>
    rename_i x hx hex hndx i j
    rcases List.mem_cons.mp hx with rfl | hx
    · exact iha hex hndx i j
    · exact ihas x hx hex hndx i j
  | _ => simp [PD.isNumber] at hn

theorem denGProd_filter (S : DRing K) (d : Nat) (lg : Bool) (p : E → Bool) (as : List E) (i j : Nat) :
    denGProd S d lg as i j
      = denGProd S d lg (as.filter p) i j * denGProd S d lg (as.filter (fun a => !p a)) i j := by
  induction as with
  | nil => simp [denGProd]
  | cons a as ih =>
    simp only [denGProd, List.filter]
    cases hp : p a <;> simp [denGProd, ih] <;> ring

theorem denG_mulOf (S : DRing K) (d : Nat) (lg : Bool) (as : List E) (i j : Nat) :
    denG S d lg (Calc.mulOf as) i j = denGProd S d lg as i j := by
  match as with
  | [] => simp [Calc.mulOf, PD.mulOf, denGProd, E.one, denG]
  | [a] => simp [Calc.mulOf, PD.mulOf, denGProd]
  | a :: b :: rest => simp [Calc.mulOf, PD.mulOf, denG]

theorem DG_prod_numbers (S : DRing K) (d : Nat) (lg : Bool) (c : Coord) (as : List E)
    (h : ∀ a ∈ as, PD.isNumber a = true) (hnd : ∀ a ∈ as, NonDegG S d lg a) (i j : Nat) :
    S.D c (denGProd S d lg as i j) = 0 := by
  induction as with
  | nil => simp [denGProd, S.D_one]
  | cons a as ih =>
    simp only [denGProd, S.D_mul]
    rw [DG_isNumber S d lg c a (h a (by simp)) (hnd a (by simp)) i j,
      ih (fun x hx => h x (by simp [hx])) (fun x hx => hnd x (by simp [hx]))]
    simp

end Sympde
