/-
  Helper lemmas for C05 (soundness of the model of `DifferentialOperator.eval` and of the model
  of `sympy.diff`).
-/
import SympdeModel.Sem.Den
namespace Sympde
open E PD

variable {K : Type} [CommRing K] [Algebra ℚ K]

/-! ### side conditions: bases of negative literal powers are invertible at the `inv` of the structure -/

mutual
def NonDeg (S : DRing K) : E → Prop
  | pow b e =>
      (match intLit e with
        | some (Int.negSucc _) => ∀ i j, den S b i j * S.inv (den S b i j) = 1
        | _ => True) ∧ NonDeg S b ∧ NonDeg S e
  | add as => NonDegList S as
  | mul as => NonDegList S as
  | fn _ a => NonDeg S a
  | pd _ a => NonDeg S a
  | idx b _ => NonDeg S b
  | mat _ _ es => NonDegList S es
  | tup as => NonDegList S as
  | op1 _ a => NonDeg S a
  | op2 _ a b => NonDeg S a ∧ NonDeg S b
  | other _ as => NonDegList S as
  | _ => True
def NonDegList (S : DRing K) : List E → Prop
  | [] => True
  | a :: as => NonDeg S a ∧ NonDegList S as
end

theorem NonDegList_mem (S : DRing K) (as : List E) (h : NonDegList S as) (a : E) (ha : a ∈ as) :
    NonDeg S a := by
  induction as with
  | nil => cases ha
  | cons x xs ih =>
    simp only [NonDegList] at h
    rcases List.mem_cons.mp ha with rfl | ha
    · exact h.1
    · exact ih h.2 ha

/-- the derivative table of the elementary functions used by the model of `sympy.diff` -/
structure FnTable (S : DRing K) : Prop where
  sin : ∀ x, S.fn' "sin" x = S.fn "cos" x
  cos : ∀ x, S.fn' "cos" x = - S.fn "sin" x
  exp : ∀ x, S.fn' "exp" x = S.fn "exp" x
  log : ∀ x, S.fn' "log" x = S.inv x
  sinh : ∀ x, S.fn' "sinh" x = S.fn "cosh" x
  cosh : ∀ x, S.fn' "cosh" x = S.fn "sinh" x
  tan : ∀ x, S.fn' "tan" x = 1 + S.fn "tan" x ^ 2

def knownFn (f : String) : Bool :=
  f == "sin" || f == "cos" || f == "exp" || f == "log" || f == "sinh" || f == "cosh" || f == "tan"

theorem den_num (S : DRing K) (p : Int) (q i j : Nat) :
    den S (num p q) i j = algebraMap ℚ K ((p : ℚ) / (q : ℚ)) := by simp [den]

theorem den_zero (S : DRing K) (i j : Nat) : den S zero i j = 0 := by
  simp [zero, den]

theorem den_one (S : DRing K) (i j : Nat) : den S one i j = 1 := by
  simp [one, den]

theorem den_int (S : DRing K) (n : Int) (i j : Nat) : den S (num n 1) i j = (n : K) := by
  simp [den]

theorem denSum_map (S : DRing K) (as : List E) (i j : Nat) :
    denSum S as i j = (as.map (fun a => den S a i j)).sum := by
  induction as with
  | nil => simp [denSum]
  | cons a as ih => simp [denSum, ih]

theorem denProd_map (S : DRing K) (as : List E) (i j : Nat) :
    denProd S as i j = (as.map (fun a => den S a i j)).prod := by
  induction as with
  | nil => simp [denProd]
  | cons a as ih => simp [denProd, ih]

theorem den_mulOf (S : DRing K) (as : List E) (i j : Nat) :
    den S (mulOf as) i j = denProd S as i j := by
  match as with
  | [] => simp [mulOf, denProd, den_one]
  | [a] => simp [mulOf, denProd]
  | a :: b :: rest => simp [mulOf, den]

/-! ### powers -/

theorem D_powSem_int (S : DRing K) (c : Coord) (b : K) (e : E) (ev : K) (n : Int)
    (he : intLit e = some n)
    (hinv : ∀ m, n = Int.negSucc m → b * S.inv b = 1) :
    S.D c (powSem S b e ev)
      = (n : K) * powSem S b (num (n - 1) 1) 0 * S.D c b := by
  unfold powSem
  rw [he]
  have hl : intLit (num (n - 1) 1) = some (n - 1) := by simp [intLit]
  rw [hl]
  match n, hinv with
  | Int.ofNat 0, _ =>
    simp only [pow_zero, S.D_one]
    simp
  | Int.ofNat (k + 1), _ =>
    have : (Int.ofNat (k + 1) - 1 : Int) = Int.ofNat k := by simp
    rw [this]
    have hc : ((Int.ofNat (k + 1) : Int) : K) = (k : K) + 1 := by
      rw [Int.ofNat_eq_natCast]; push_cast; ring
    rw [hc]
    simp only [S.D_pow]
  | Int.negSucc m, hinv =>
    have hu := hinv m rfl
    have : (Int.negSucc m - 1 : Int) = Int.negSucc (m + 1) := by omega
    rw [this]
    simp only
    rw [S.D_pow, S.D_inv_of_mul_eq_one c b (S.inv b) hu]
    have hc : ((Int.negSucc m : Int) : K) = - ((m : K) + 1) := by
      rw [Int.negSucc_eq]; push_cast; ring
    rw [hc]
    ring

theorem powSem_int (S : DRing K) (b : K) (e : E) (ev ev' : K) (n : Int) (he : intLit e = some n) :
    powSem S b e ev = powSem S b e ev' := by
  unfold powSem; rw [he]; cases n <;> rfl

theorem intLit_num (n : Int) : intLit (num n 1) = some n := by simp [intLit]

theorem powSem_neg_one (S : DRing K) (x y : K) : powSem S x (num (-1) 1) y = S.inv x := by
  unfold powSem
  have : intLit (num (-1) 1) = some (Int.negSucc 0) := rfl
  rw [this]
  simp

theorem powSem_two (S : DRing K) (x y : K) : powSem S x (num 2 1) y = x ^ 2 := by
  unfold powSem
  have : intLit (num 2 1) = some (Int.ofNat 2) := rfl
  rw [this]

/-- soundness of the power rule as the model applies it -/
theorem powRule_sound (S : DRing K) (c : Coord) (b e db de : E) (i j : Nat)
    (hb : den S db i j = S.D c (den S b i j)) (he : den S de i j = S.D c (den S e i j))
    (hnd : match intLit e with
        | some (Int.negSucc _) => den S b i j * S.inv (den S b i j) = 1
        | _ => True) :
    den S (powRule b e db de) i j = S.D c (den S (pow b e) i j) := by
  unfold powRule
  cases hl : intLit e with
  | some n =>
    simp only [den, denProd]
    rw [D_powSem_int S c (den S b i j) e (den S e i j) n hl, hb]
    · have hn : algebraMap ℚ K ((n : ℚ) / ((1 : ℕ) : ℚ)) = (n : K) := by simp
      rw [hn, powSem_int S _ _ _ 0 (n - 1) (intLit_num _)]
      ring
    · intro m hm
      rw [hl, hm] at hnd
      exact hnd
  | none =>
    simp only [den, denProd, denSum]
    have hp : ∀ x y, powSem S x e y = S.rpow x y := by
      intro x y; unfold powSem; rw [hl]
    rw [hp, S.D_rpow, hb, he]
    rw [powSem_neg_one]
    ring

/-- product rule over a list of (factor, derivative of the factor) pairs -/
theorem prodRule_sound (S : DRing K) (c : Coord) (i j : Nat) (l : List (E × E))
    (h : ∀ p ∈ l, den S p.2 i j = S.D c (den S p.1 i j)) :
    den S (prodRule l) i j = S.D c (denProd S (l.map (·.1)) i j) := by
  induction l with
  | nil => simp [prodRule, denProd, den_zero, S.D_one]
  | cons p rest ih =>
    have hp := h p (by simp)
    have ih' := ih (fun q hq => h q (by simp [hq]))
    cases rest with
    | nil =>
      obtain ⟨a, da⟩ := p
      simp only [prodRule, List.map, denProd, mul_one]
      exact hp
    | cons q rest' =>
      obtain ⟨a, da⟩ := p
      have e1 : prodRule ((a, da) :: q :: rest')
          = add [mul [a, prodRule (q :: rest')], mul [da, mulOf ((q :: rest').map (·.1))]] := rfl
      rw [e1]
      simp only [den, denSum, denProd]
      rw [ih', den_mulOf, hp]
      have e2 : denProd S (List.map (fun x => x.1) ((a, da) :: q :: rest')) i j
          = den S a i j * denProd S (List.map (fun x => x.1) (q :: rest')) i j := rfl
      rw [e2, S.D_mul]
      ring

theorem zip_map_fst {α β : Type} (as : List α) (bs : List β) (h : as.length = bs.length) :
    (as.zip bs).map (·.1) = as := by
  induction as generalizing bs with
  | nil => simp
  | cons a as ih =>
    cases bs with
    | nil => simp at h
    | cons b bs => simp [ih bs (by simpa using h)]

theorem sdiffList_length (c : Coord) (as : List E) : (sdiffList c as).length = as.length := by
  induction as with
  | nil => simp [sdiffList]
  | cons a as ih => simp [sdiffList, ih]

theorem sdiffList_eq (c : Coord) (as : List E) : sdiffList c as = as.map (PD.sdiff c) := by
  induction as with
  | nil => simp [sdiffList]
  | cons a as ih => simp [sdiffList, ih]

theorem mem_zip_map {α β : Type} (f : α → β) (as : List α) (p : α × β) (h : p ∈ as.zip (as.map f)) :
    p.1 ∈ as ∧ p.2 = f p.1 := by
  induction as with
  | nil => simp at h
  | cons a as ih =>
    simp only [List.map, List.zip_cons_cons, List.mem_cons] at h
    rcases h with rfl | h
    · simp
    · have := ih h
      exact ⟨List.mem_cons_of_mem _ this.1, this.2⟩

mutual
/-- the function-free elementary fragment on which the model of `sympy.diff` is defined -/
def Elem : E → Bool
  | num _ _ => true
  | cst _ => true
  | sym _ => true
  | add as => ElemList as
  | mul as => ElemList as
  | pow b e => Elem b && Elem e
  | fn f a => knownFn f && Elem a
  | _ => false
def ElemList : List E → Bool
  | [] => true
  | a :: as => Elem a && ElemList as
end

theorem ElemList_iff (as : List E) : ElemList as = as.all Elem := by
  induction as with
  | nil => simp [ElemList]
  | cons a as ih => simp [ElemList, ih]

theorem den_fnDeriv (S : DRing K) (T : FnTable S) (f : String) (a : E) (i j : Nat)
    (hf : knownFn f = true) : den S (fnDeriv f a) i j = S.fn' f (den S a i j) := by
  unfold knownFn at hf
  simp only [Bool.or_eq_true, beq_iff_eq] at hf
  rcases hf with (((((rfl | rfl) | rfl) | rfl) | rfl) | rfl) | rfl
  · simp [fnDeriv, den, T.sin]
  · simp [fnDeriv, den, denProd, T.cos]
  · simp [fnDeriv, den, T.exp]
  · simp [fnDeriv, den, T.log, powSem_neg_one]
  · simp [fnDeriv, den, T.sinh]
  · simp [fnDeriv, den, T.cosh]
  · simp [fnDeriv, den, denSum, T.tan, powSem_two, den_one]

/-- **the model of `sympy.diff` is sound** on the elementary fragment -/
theorem sdiff_sound (S : DRing K) (T : FnTable S) (c : Coord) (e : E) (he : Elem e = true)
    (hnd : NonDeg S e) : ∀ i j, den S (PD.sdiff c e) i j = S.D c (den S e i j) := by
  induction e using E.rec
    (motive_2 := fun as => ∀ a ∈ as, Elem a = true → NonDeg S a →
      ∀ i j, den S (PD.sdiff c a) i j = S.D c (den S a i j)) with
  | num p q => intro i j; simp [PD.sdiff, den_zero, den, S.D_rat]
  | cst s => intro i j; simp [PD.sdiff, den_zero, den, S.D_cst]
  | sym s =>
    intro i j
    simp only [PD.sdiff, den, S.D_sym]
    by_cases h : s = c.name
    · simp [h, den_one]
    · simp [h, den_zero]
  | add as ih =>
    intro i j
    simp only [Elem, ElemList_iff, List.all_eq_true] at he
    simp only [NonDeg] at hnd
    simp only [PD.sdiff, den, sdiffList_eq]
    have key : ∀ (l : List E), (∀ a ∈ l, a ∈ as) →
        denSum S (l.map (PD.sdiff c)) i j = S.D c (denSum S l i j) := by
      intro l
      induction l with
      | nil => intro _; simp [denSum, S.D_zero]
      | cons a l ihl =>
        intro hl
        have ha := hl a (by simp)
        simp only [List.map, denSum, S.D_add]
        rw [ih a ha (he a ha) (NonDegList_mem S as hnd a ha) i j, ihl (fun x hx => hl x (by simp [hx]))]
    exact key as (fun a ha => ha)
  | mul as ih =>
    intro i j
    simp only [Elem, ElemList_iff, List.all_eq_true] at he
    simp only [NonDeg] at hnd
    simp only [PD.sdiff, den, sdiffList_eq]
    rw [prodRule_sound S c i j]
    · rw [zip_map_fst _ _ (by simp)]
    · intro p hp
      have := mem_zip_map (PD.sdiff c) as p hp
      rw [this.2]
      exact ih p.1 this.1 (he _ this.1) (NonDegList_mem S as hnd _ this.1) i j
  | pow b e ihb ihe =>
    intro i j
    simp only [Elem, Bool.and_eq_true] at he
    simp only [NonDeg] at hnd
    simp only [PD.sdiff]
    apply powRule_sound S c b e _ _ i j (ihb he.1 hnd.2.1 i j) (ihe he.2 hnd.2.2 i j)
    have := hnd.1
    split
    · rename_i m hm
      rw [hm] at this
      exact this i j
    · trivial
  | fn f a iha =>
    intro i j
    simp only [Elem, Bool.and_eq_true] at he
    simp only [NonDeg] at hnd
    simp only [PD.sdiff, den, denProd, S.D_fn, mul_one]
    rw [den_fnDeriv S T f a i j he.1, iha he.2 hnd i j]
  | nil => cases ‹_ ∈ []›
  | cons a as iha ihas =>
    rename_i x hx hex hndx i j
    rcases List.mem_cons.mp hx with rfl | hx
    · exact iha hex hndx i j
    · exact ihas x hx hex hndx i j
  | _ => simp [Elem] at he

/-! ### numbers have zero derivative -/

theorem allNumber_iff (as : List E) : allNumber as = as.all isNumber := by
  induction as with
  | nil => simp [allNumber]
  | cons a as ih => simp [allNumber, ih]

theorem D_isNumber (S : DRing K) (c : Coord) (e : E) (hn : isNumber e = true) (hnd : NonDeg S e) :
    ∀ i j, S.D c (den S e i j) = 0 := by
  induction e using E.rec
    (motive_2 := fun as => ∀ a ∈ as, isNumber a = true → NonDeg S a →
      ∀ i j, S.D c (den S a i j) = 0) with
  | num p q => intro i j; simp [den, S.D_rat]
  | cst s => intro i j; simp [den, S.D_cst]
  | add as ih =>
    intro i j
    simp only [isNumber, allNumber_iff, List.all_eq_true] at hn
    simp only [NonDeg] at hnd
    simp only [den]
    have key : ∀ (l : List E), (∀ a ∈ l, a ∈ as) → S.D c (denSum S l i j) = 0 := by
      intro l
      induction l with
      | nil => intro _; simp [denSum, S.D_zero]
      | cons a l ihl =>
        intro hl
        have ha := hl a (by simp)
        simp only [denSum, S.D_add]
        rw [ih a ha (hn a ha) (NonDegList_mem S as hnd a ha) i j, ihl (fun x hx => hl x (by simp [hx]))]
        simp
    exact key as (fun a ha => ha)
  | mul as ih =>
    intro i j
    simp only [isNumber, allNumber_iff, List.all_eq_true] at hn
    simp only [NonDeg] at hnd
    simp only [den]
    have key : ∀ (l : List E), (∀ a ∈ l, a ∈ as) → S.D c (denProd S l i j) = 0 := by
      intro l
      induction l with
      | nil => intro _; simp [denProd, S.D_one]
      | cons a l ihl =>
        intro hl
        have ha := hl a (by simp)
        simp only [denProd, S.D_mul]
        rw [ih a ha (hn a ha) (NonDegList_mem S as hnd a ha) i j, ihl (fun x hx => hl x (by simp [hx]))]
        simp
    exact key as (fun a ha => ha)
  | pow b e ihb ihe =>
    intro i j
    simp only [isNumber, Bool.and_eq_true] at hn
    simp only [NonDeg] at hnd
    simp only [den]
    cases hl : intLit e with
    | some n =>
      rw [D_powSem_int S c _ e _ n hl, ihb hn.1 hnd.2.1 i j]
      · simp
      · intro m hm
        have := hnd.1
        rw [hl, hm] at this
        exact this i j
    | none =>
      have hp : ∀ x y, powSem S x e y = S.rpow x y := by
        intro x y; unfold powSem; rw [hl]
      rw [hp, S.D_rpow, ihb hn.1 hnd.2.1 i j, ihe hn.2 hnd.2.2 i j]
      simp
  | fn f a iha =>
    intro i j
    simp only [isNumber] at hn
    simp only [NonDeg] at hnd
    simp only [den, S.D_fn, iha hn hnd i j]
    simp
  | nil => cases ‹_ ∈ []›
  | cons a as iha ihas =>
    rename_i x hx hex hndx i j
    rcases List.mem_cons.mp hx with rfl | hx
    · exact iha hex hndx i j
    · exact ihas x hx hex hndx i j
  | _ => simp [isNumber] at hn

theorem D_isCoef (S : DRing K) (c : Coord) (e : E) (h : isCoef e = true) (i j : Nat) :
    S.D c (den S e i j) = 0 := by
  cases e <;> simp_all [isCoef, den, S.D_rat, S.D_cst]

/-! ### re-ordering of logical derivative chains -/

/-- apply a list of derivations, outermost first -/
def applyD (S : DRing K) : List Coord → K → K
  | [], x => x
  | c :: cs, x => S.D c (applyD S cs x)

def iterD (S : DRing K) (c : Coord) : Nat → K → K
  | 0, x => x
  | n + 1, x => S.D c (iterD S c n x)

def chainE : List Coord → E → E
  | [], a => a
  | c :: cs, a => pd c (chainE cs a)

theorem den_chainE (S : DRing K) (cs : List Coord) (a : E) (i j : Nat) :
    den S (chainE cs a) i j = applyD S cs (den S a i j) := by
  induction cs with
  | nil => rfl
  | cons c cs ih => simp [chainE, den, applyD, ih]

theorem den_iter (S : DRing K) (c : Coord) (n : Nat) (a : E) (i j : Nat) :
    den S (iter n (pd c) a) i j = iterD S c n (den S a i j) := by
  induction n with
  | zero => rfl
  | succ n ih => simp [iter, den, iterD, ih]

theorem D_iterD_comm (S : DRing K) (c c' : Coord) (n : Nat) (x : K) :
    S.D c (iterD S c' n x) = iterD S c' n (S.D c x) := by
  induction n with
  | zero => rfl
  | succ n ih => simp only [iterD]; rw [S.D_comm, ih]

/-- the canonical form `D_x1^a D_x2^b D_x3^c` -/
def canonD (S : DRing K) (n1 n2 n3 : Nat) (x : K) : K :=
  iterD S .x1 n1 (iterD S .x2 n2 (iterD S .x3 n3 x))

theorem den_rebuildL (S : DRing K) (n1 n2 n3 : Nat) (a : E) (i j : Nat) :
    den S (rebuildL n1 n2 n3 a) i j = canonD S n1 n2 n3 (den S a i j) := by
  simp [rebuildL, canonD, den_iter]

def cnt (c : Coord) (cs : List Coord) : Nat := cs.count c

theorem D_canonD (S : DRing K) (c : Coord) (hc : c.logical = true) (n1 n2 n3 : Nat) (x : K) :
    S.D c (canonD S n1 n2 n3 x)
      = canonD S (n1 + if c = .x1 then 1 else 0) (n2 + if c = .x2 then 1 else 0)
          (n3 + if c = .x3 then 1 else 0) x := by
  cases c <;> simp [Coord.logical] at hc
  · simp [canonD, iterD]
  · simp only [canonD]
    rw [D_iterD_comm]
    simp [iterD]
  · simp only [canonD]
    rw [D_iterD_comm, D_iterD_comm]
    simp [iterD]

/-- a chain of logical derivations equals its canonical re-ordering -/
theorem applyD_canon (S : DRing K) (cs : List Coord) (h : ∀ c ∈ cs, c.logical = true) (x : K) :
    applyD S cs x = canonD S (cnt .x1 cs) (cnt .x2 cs) (cnt .x3 cs) x := by
  induction cs with
  | nil => simp [applyD, canonD, cnt, iterD]
  | cons c cs ih =>
    have hc := h c (by simp)
    simp only [applyD]
    rw [ih (fun c' hc' => h c' (by simp [hc'])), D_canonD S c hc]
    cases c <;> simp [Coord.logical] at hc <;> simp [cnt]

/-- decomposition of an expression into its leading chain of logical derivatives -/
def leadL : E → List Coord
  | pd c a => if c.logical then c :: leadL a else []
  | _ => []

theorem leadL_logical (e : E) : ∀ c ∈ leadL e, c.logical = true := by
  induction e using E.rec (motive_2 := fun _ => True) with
  | pd c a ih =>
    intro c' hc'
    simp only [leadL] at hc'
    split at hc'
    · rcases List.mem_cons.mp hc' with rfl | h
      · assumption
      · exact ih c' h
    · cases hc'
  | nil => trivial
  | cons _ _ _ _ => trivial
  | _ => intro c hc; simp [leadL] at hc

theorem chain_decomp (e : E) : e = chainE (leadL e) (stripL e) := by
  induction e using E.rec (motive_2 := fun _ => True) with
  | pd c a ih =>
    simp only [leadL, stripL]
    split
    · simp only [chainE]; rw [← ih]
    · rfl
  | nil => trivial
  | cons _ _ _ _ => trivial
  | _ => rfl

theorem countL_decomp (c : Coord) (e : E) :
    countL c e = cnt c (leadL e) + countL c (stripL e) := by
  induction e using E.rec (motive_2 := fun _ => True) with
  | pd c' a ih =>
    simp only [leadL, stripL]
    split
    · rename_i hl
      simp only [countL, cnt, List.count_cons] at *
      rw [ih]
      by_cases h : c' = c
      · subst h; simp; omega
      · have : (c' == c) = false := by simpa using h
        simp [this]
    · simp [cnt]
  | nil => trivial
  | cons _ _ _ _ => trivial
  | _ => simp [leadL, stripL, cnt]

/-- **re-ordering is sound**: the rebuilt chain denotes the derivative of the argument -/
theorem reorderL_sound (S : DRing K) (c : Coord) (e r : E) (h : reorderL c e = .ok r) (i j : Nat) :
    den S r i j = S.D c (den S e i j) := by
  unfold reorderL at h
  have hk : ∀ c', countL c' e - countL c' (stripL e) = cnt c' (leadL e) := by
    intro c'; rw [countL_decomp c' e]; omega
  simp only [hk] at h
  have hden : den S e i j = canonD S (cnt .x1 (leadL e)) (cnt .x2 (leadL e)) (cnt .x3 (leadL e))
      (den S (stripL e) i j) := by
    conv => lhs; rw [chain_decomp e]
    rw [den_chainE, applyD_canon S _ (leadL_logical e)]
  split at h
  · rename_i hl
    injection h with h
    subst h
    rw [den_rebuildL, hden, D_canonD S c hl]
    cases c <;> simp [Coord.logical] at hl <;> simp
  · rename_i hl
    injection h with h
    subst h
    simp only [den]
    rw [den_rebuildL, hden]
    cases c <;> simp [Coord.logical] at hl <;> simp

/-! ### the supported fragment -/

mutual
/-- scalar expressions the operators accept (or refuse explicitly): numbers, constants,
    coordinates, functions, vector components, derivative chains, sums, products, powers,
    known elementary functions -/
def SuppS : E → Bool
  | num _ _ => true
  | cst _ => true
  | sym _ => true
  | sf _ _ => true
  | idx (vf _ _) _ => true
  | add as => SuppSList as
  | mul as => SuppSList as
  | pow b e => SuppS b && SuppS e
  | fn f a => knownFn f && SuppS a
  | pd _ a => SuppS a
  | _ => false
def SuppSList : List E → Bool
  | [] => true
  | a :: as => SuppS a && SuppSList as
end

theorem SuppSList_iff (as : List E) : SuppSList as = as.all SuppS := by
  induction as with
  | nil => simp [SuppSList]
  | cons a as ih => simp [SuppSList, ih]

theorem hasTList_iff (as : List E) : hasTList as = as.any hasT := by
  induction as with
  | nil => simp [hasTList]
  | cons a as ih => simp [hasTList, ih]

/-- a supported scalar expression without functions is in the elementary fragment -/
theorem Elem_of_SuppS (e : E) (hs : SuppS e = true) (hf : hasT e = false) : Elem e = true := by
  induction e using E.rec
    (motive_2 := fun as => ∀ a ∈ as, SuppS a = true → hasT a = false → Elem a = true) with
  | add as ih =>
    simp only [SuppS, SuppSList_iff, List.all_eq_true] at hs
    simp only [hasT, hasTList_iff, List.any_eq_false] at hf
    simp only [Elem, ElemList_iff, List.all_eq_true]
    intro a ha
    exact ih a ha (hs a ha) (by simpa using hf a ha)
  | mul as ih =>
    simp only [SuppS, SuppSList_iff, List.all_eq_true] at hs
    simp only [hasT, hasTList_iff, List.any_eq_false] at hf
    simp only [Elem, ElemList_iff, List.all_eq_true]
    intro a ha
    exact ih a ha (hs a ha) (by simpa using hf a ha)
  | pow b e ihb ihe =>
    simp only [SuppS, Bool.and_eq_true] at hs
    simp only [hasT, Bool.or_eq_false_iff] at hf
    simp only [Elem, Bool.and_eq_true]
    exact ⟨ihb hs.1 hf.1, ihe hs.2 hf.2⟩
  | fn f a iha =>
    simp only [SuppS, Bool.and_eq_true] at hs
    simp only [hasT] at hf
    simp only [Elem, Bool.and_eq_true]
    exact ⟨hs.1, iha hs.2 hf⟩
  | nil => cases ‹_ ∈ []›
  | cons a as iha ihas =>
    rename_i x hx h1 h2
    rcases List.mem_cons.mp hx with rfl | hx
    · exact iha h1 h2
    · exact ihas x hx h1 h2
  | num _ _ => rfl
  | cst _ => rfl
  | sym _ => rfl
  | idx b i _ => cases b <;> simp_all [SuppS, hasT]
  | _ => simp_all [SuppS, hasT]

theorem denProd_filter (S : DRing K) (p : E → Bool) (as : List E) (i j : Nat) :
    denProd S as i j = denProd S (as.filter p) i j * denProd S (as.filter (fun a => !p a)) i j := by
  induction as with
  | nil => simp [denProd]
  | cons a as ih =>
    simp only [denProd, List.filter]
    cases hp : p a <;> simp [denProd, ih] <;> ring

theorem D_denProd_coefs (S : DRing K) (c : Coord) (as : List E) (h : ∀ a ∈ as, isCoef a = true)
    (i j : Nat) : S.D c (denProd S as i j) = 0 := by
  induction as with
  | nil => simp [denProd, S.D_one]
  | cons a as ih =>
    simp only [denProd, S.D_mul]
    rw [D_isCoef S c a (h a (by simp)) i j, ih (fun x hx => h x (by simp [hx]))]
    simp

end Sympde
