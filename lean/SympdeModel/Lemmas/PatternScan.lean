/-
  Helper lemmas for C20, part 3: the `_range` scanner.  Ranges as the user writes them
  (`Rng`), what the anchored matcher does on a rendered range, and where it cannot match.
-/
import SympdeModel.Lemmas.PatternStr
namespace Sympde.Pat

/-! ### character classes -/

theorem colon_not_digit : isDigit ':' = false := by decide
theorem colon_not_alpha : isAlpha ':' = false := by decide

theorem digit_ne_colon {c : Char} (h : isDigit c = true) : c ≠ ':' := by
  intro e; subst e; simp [colon_not_digit] at h

theorem alpha_ne_colon {c : Char} (h : isAlpha c = true) : c ≠ ':' := by
  intro e; subst e; simp [colon_not_alpha] at h

theorem alpha_not_digit {c : Char} (h : isAlpha c = true) : isDigit c = false := by
  simp only [isAlpha, isDigit, Bool.or_eq_true, Bool.and_eq_true, decide_eq_true_eq] at h ⊢
  cases hd : (decide (48 ≤ c.toNat) && decide (c.toNat ≤ 57)) with
  | false => rfl
  | true =>
    simp only [Bool.and_eq_true, decide_eq_true_eq] at hd
    omega

theorem digit_not_alpha {c : Char} (h : isDigit c = true) : isAlpha c = false := by
  cases ha : isAlpha c with
  | false => rfl
  | true => rw [alpha_not_digit ha] at h; cases h

/-! ### ranges -/

/-- a range as written: `a:b` with digit strings (`a` possibly empty), or `x:y` / `:y` with letters -/
inductive Rng where
  | num (a b : Str)
  | alpha (a : Option Char) (b : Char)
  deriving Repr

def Rng.render : Rng → Str
  | .num a b => a ++ ':' :: b
  | .alpha none b => [':', b]
  | .alpha (some a) b => [a, ':', b]

def Rng.WF : Rng → Prop
  | .num a b => (∀ c ∈ a, isDigit c = true) ∧ (∀ c ∈ b, isDigit c = true) ∧ b ≠ []
  | .alpha a b => (∀ c, a = some c → isAlpha c = true) ∧ isAlpha b = true

def Rng.isNum : Rng → Bool
  | .num _ _ => true
  | _ => false

/-- the string does not start with a digit -/
def NoDigitHead (s : Str) : Prop := ∀ c, s.head? = some c → isDigit c = false

theorem takeWhile_digits (b rest : Str) (hb : ∀ c ∈ b, isDigit c = true) (hr : NoDigitHead rest) :
    (b ++ rest).takeWhile isDigit = b ∧ (b ++ rest).dropWhile isDigit = rest := by
  induction b with
  | nil =>
    cases rest with
    | nil => simp
    | cons c cs =>
      have := hr c rfl
      simp [List.takeWhile_cons, List.dropWhile_cons, this]
  | cons c cs ih =>
    have hc := hb c (by simp)
    have := ih (fun x hx => hb x (by simp [hx]))
    simp [List.takeWhile_cons, List.dropWhile_cons, hc, this.1, this.2]

theorem matchNum_none_of (ds : Str) (x : Char) (t : Str) (hds : ∀ c ∈ ds, isDigit c = true)
    (hx : isDigit x = false) (hxc : x ≠ ':') : matchNum (ds ++ x :: t) = none := by
  have h := takeWhile_digits ds (x :: t) hds (by intro c hc; simp at hc; subst hc; exact hx)
  unfold matchNum
  rw [h.2]
  split
  · rename_i heq; injection heq with h1 _; exact absurd h1 hxc
  · rfl

/-- the anchored matcher on a rendered range followed by `rest` -/
theorem matchRange_render (r : Rng) (rest : Str) (h : r.WF)
    (hrest : r.isNum = true → NoDigitHead rest) :
    matchRange (r.render ++ rest) = some (r.render, rest) := by
  cases r with
  | num a b =>
    obtain ⟨ha, hb, hne⟩ := h
    have hr := hrest rfl
    have h1 := takeWhile_digits a (':' :: (b ++ rest)) ha (by intro c hc; simp at hc; subst hc; exact colon_not_digit)
    have h2 := takeWhile_digits b rest hb hr
    have e : Rng.render (.num a b) ++ rest = a ++ ':' :: (b ++ rest) := by simp [Rng.render]
    rw [e]
    unfold matchRange matchNum
    simp only [h1.1, h1.2, h2.1, h2.2]
    have : b.isEmpty = false := by simpa using hne
    simp [this, Rng.render]
  | alpha a b =>
    obtain ⟨ha, hb⟩ := h
    have hbd := alpha_not_digit hb
    cases a with
    | none =>
      simp only [Rng.render, List.cons_append, List.nil_append]
      unfold matchRange matchNum
      simp [List.dropWhile_cons, List.takeWhile_cons, colon_not_digit, hbd, matchAlpha, hb]
    | some a =>
      have haa := ha a rfl
      have had := alpha_not_digit haa
      have hac := alpha_ne_colon haa
      simp only [Rng.render, List.cons_append, List.nil_append]
      have hnum : matchNum (a :: ':' :: b :: rest) = none :=
        matchNum_none_of [] a (':' :: b :: rest) (by simp) had hac
      have : matchAlpha (a :: ':' :: b :: rest) = some ([a, ':', b], rest) := by
        unfold matchAlpha
        split
        · rename_i heq; injection heq with h1 _; exact absurd h1 hac
        · rename_i heq
          injection heq with h1 h2
          injection h2 with _ h3
          injection h3 with h4 h5
          subst h1 h4 h5
          simp [haa, hb]
        · rename_i h1 h2
          exact absurd rfl (h2 a b rest)
      unfold matchRange
      rw [hnum]
      exact this

/-! ### where the matcher fails -/

theorem matchNum_digits (ds : Str) (hds : ∀ c ∈ ds, isDigit c = true) : matchNum ds = none := by
  have h := takeWhile_digits ds [] hds (by intro c hc; cases hc)
  simp only [List.append_nil] at h
  unfold matchNum
  rw [h.2]

/-- digits, a colon, then something that is not a digit -/
theorem matchNum_colon_nodigit (ds t : Str) (hds : ∀ c ∈ ds, isDigit c = true) (ht : NoDigitHead t) :
    matchNum (ds ++ ':' :: t) = none := by
  have h := takeWhile_digits ds (':' :: t) hds (by intro c hc; simp at hc; subst hc; exact colon_not_digit)
  unfold matchNum
  rw [h.2]
  simp only
  have : (t.takeWhile isDigit).isEmpty = true := by
    cases t with
    | nil => rfl
    | cons c cs => simp [List.takeWhile_cons, ht c rfl]
  simp [this]

theorem matchAlpha_two (c d : Char) (t : Str) (hc : c ≠ ':') (hd : d ≠ ':') :
    matchAlpha (c :: d :: t) = none := by
  unfold matchAlpha
  split
  · rename_i heq; injection heq with h1 _; exact absurd h1 hc
  · rename_i heq; injection heq with _ h2; injection h2 with h3 _; exact absurd h3 hd
  · rfl

theorem matchAlpha_one (c : Char) : matchAlpha [c] = none := by
  unfold matchAlpha
  split
  · rename_i heq; injection heq with _ h2; cases h2
  · rename_i heq; injection heq with _ h2; cases h2
  · rfl

theorem matchAlpha_nil : matchAlpha [] = none := rfl

/-- `c : b …` with `c` or `b` not a letter -/
theorem matchAlpha_colon (c b : Char) (t : Str) (hc : c ≠ ':')
    (h : isAlpha c = false ∨ isAlpha b = false) : matchAlpha (c :: ':' :: b :: t) = none := by
  unfold matchAlpha
  split
  · rename_i heq; injection heq with h1 _; exact absurd h1 hc
  · rename_i heq
    injection heq with h1 h2
    injection h2 with _ h3
    injection h3 with h4 _
    subst h1 h4
    rcases h with h | h <;> simp [h]
  · rfl

theorem matchAlpha_colon_end (c : Char) (hc : c ≠ ':') : matchAlpha [c, ':'] = none := by
  unfold matchAlpha
  split
  · rename_i heq; injection heq with h1 _; exact absurd h1 hc
  · rename_i heq; injection heq with _ h2; injection h2 with _ h3; cases h3
  · rfl

theorem span_digits (s : Str) :
    (∀ c ∈ s, isDigit c = true) ∨
    ∃ ds x t, s = ds ++ x :: t ∧ (∀ c ∈ ds, isDigit c = true) ∧ isDigit x = false := by
  induction s with
  | nil => exact Or.inl (by simp)
  | cons c cs ih =>
    cases hc : isDigit c with
    | false => exact Or.inr ⟨[], c, cs, rfl, by simp, hc⟩
    | true =>
      rcases ih with h | ⟨ds, x, t, rfl, hds, hx⟩
      · exact Or.inl (by intro y hy; rcases List.mem_cons.mp hy with rfl | hy; exact hc; exact h y hy)
      · exact Or.inr ⟨c :: ds, x, t, rfl,
          by intro y hy; rcases List.mem_cons.mp hy with rfl | hy; exact hc; exact hds y hy, hx⟩

/-- **no match inside a literal**: `L` has no colon; what follows (`R`) cannot complete a
    numeric match begun by trailing digits of `L` (`hA`) nor an alphabetic match begun by the
    last character of `L` (`hB`). -/
theorem no_match_in (L R : Str) (hcolon : ':' ∉ L)
    (hA : ∀ pre ds, L = pre ++ ds → ds ≠ [] → (∀ c ∈ ds, isDigit c = true) → matchNum (ds ++ R) = none)
    (hB : ∀ pre c, L = pre ++ [c] → matchAlpha (c :: R) = none) :
    ∀ L1 c L2, L = L1 ++ c :: L2 → matchRange (c :: L2 ++ R) = none := by
  intro L1 c L2 hL
  have hcc : c ≠ ':' := by intro e; subst e; exact hcolon (by rw [hL]; simp)
  have hnum : matchNum (c :: L2 ++ R) = none := by
    rcases span_digits (c :: L2) with hall | ⟨ds, x, t, hs, hds, hx⟩
    · exact hA L1 (c :: L2) hL (by simp) hall
    · rw [hs, List.append_assoc, List.cons_append]
      apply matchNum_none_of ds x _ hds hx
      intro e; subst e
      exact hcolon (by rw [hL, hs]; simp)
  have halpha : matchAlpha (c :: L2 ++ R) = none := by
    cases L2 with
    | nil => exact hB L1 c hL
    | cons d L3 =>
      apply matchAlpha_two c d _ hcc
      intro e; subst e
      exact hcolon (by rw [hL]; simp)
  unfold matchRange
  rw [hnum]
  exact halpha

/-! ### the splitting loop -/

theorem rangeSplitAux_nil (n : Nat) : rangeSplitAux n [] = [[]] := by
  cases n <;> rfl

/-- glue a literal in front of the first piece -/
def prependHead (L : Str) : List Str → List Str
  | p :: ps => (L ++ p) :: ps
  | [] => [L]

theorem rangeSplitAux_ne_nil (n : Nat) (s : Str) : rangeSplitAux n s ≠ [] := by
  induction n generalizing s with
  | zero => simp [rangeSplitAux]
  | succ n ih =>
    cases s with
    | nil => simp [rangeSplitAux]
    | cons c cs =>
      unfold rangeSplitAux
      split
      · simp
      · split <;> simp

/-- scanning through a literal in which no match is possible -/
theorem scan_lit (L R : Str) (n : Nat)
    (hno : ∀ L1 c L2, L = L1 ++ c :: L2 → matchRange (c :: L2 ++ R) = none) :
    rangeSplitAux (L.length + n) (L ++ R) = prependHead L (rangeSplitAux n R) := by
  induction L with
  | nil =>
    simp only [List.length_nil, Nat.zero_add, List.nil_append]
    cases h : rangeSplitAux n R with
    | nil => exact absurd h (rangeSplitAux_ne_nil n R)
    | cons p ps => rfl
  | cons c cs ih =>
    have hno' : ∀ L1 c' L2, cs = L1 ++ c' :: L2 → matchRange (c' :: L2 ++ R) = none := by
      intro L1 c' L2 h
      exact hno (c :: L1) c' L2 (by rw [h]; rfl)
    have ih' := ih hno'
    have hm := hno [] c cs rfl
    rw [show (c :: cs).length + n = (cs.length + n) + 1 by simp; omega]
    simp only [List.cons_append] at hm ⊢
    conv => lhs; unfold rangeSplitAux
    simp only [hm, ih']
    cases h : rangeSplitAux n R with
    | nil => exact absurd h (rangeSplitAux_ne_nil n R)
    | cons p ps => rfl

theorem scan_match (s m rest : Str) (n : Nat) (hne : s ≠ [])
    (h : matchRange s = some (m, rest)) :
    rangeSplitAux (n + 1) s = [] :: m :: rangeSplitAux n rest := by
  cases s with
  | nil => exact absurd rfl hne
  | cons c cs =>
    conv => lhs; unfold rangeSplitAux
    simp [h]

end Sympde.Pat
