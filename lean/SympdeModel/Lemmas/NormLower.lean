/-
  Helper lemmas for C11 (`norm_kernel_sound_*`): the generic integrand assembled by the model of
  `Norm`/`SemiNorm` (Model/Norm.lean) is well typed in the fragment of `lower_sound` (typing
  judgement `ty`, Lemmas/LowerInd.lean) whenever the error expression is, and how `Norm.kernel`
  dispatches on its argument.
-/
import SympdeModel.Model.Norm
import SympdeModel.Lemmas.LowerInd
namespace Sympde.Norm
open E Lower

variable {K : Type} [CommRing K] [Algebra ℚ K]

/-! ### typing of the assembled integrand -/

/-- a well-typed expression of tensor rank 0 has type `s` -/
theorem ty_scalar_of (d : Nat) (e : E) (hwt : (ty d e).isSome = true) (hr : rank d e = 0) :
    ty d e = some .s := by
  cases hτ : ty d e with
  | none => rw [hτ] at hwt; cases hwt
  | some τ =>
    have h := ty_rank d e τ hτ
    rw [hr] at h
    cases τ <;> simp [rk] at h ⊢

theorem ty_sq (d : Nat) (e : E) (h : ty d e = some .s) : ty d (sq e) = some .s := by
  simp [sq, ty, tyMul, tyMulAcc, h, tmul]

theorem ty_gradSq (d : Nat) (e : E) (h : ty d e = some .s) : ty d (gradSq e) = some .s := by
  simp [gradSq, ty, h, ty1, ty2]

theorem ty_hessSq (d : Nat) (e : E) (h : ty d e = some .s) : ty d (hessSq e) = some .s := by
  simp [hessSq, ty, h, ty1, ty2]

/-- the integrand assembled for a scalar argument of the fragment is a scalar of the fragment -/
theorem ty_scalarIntegrand (d : Nat) (semi : Bool) (k : NK) (e : E) (h : ty d e = some .s) :
    ty d (scalarIntegrand semi k e) = some .s := by
  have h1 := ty_sq d e h
  have h2 := ty_gradSq d e h
  have h3 := ty_hessSq d e h
  cases k <;> cases semi <;> simp [scalarIntegrand, ty, tyAdd, tyAll, h1, h2, h3]

theorem tyAll_map_hessSq (d : Nat) (es : List E) (h : ∀ e ∈ es, ty d e = some .s) :
    tyAll d .s (es.map hessSq) = true := by
  induction es with
  | nil => simp [tyAll]
  | cons x xs ih =>
    simp only [List.map, tyAll, Bool.and_eq_true, beq_iff_eq]
    exact ⟨ty_hessSq d x (h x (by simp)), ih (fun e he => h e (by simp [he]))⟩

/-- the sum of the component Hessian norms (vector argument, H2) is a scalar of the fragment -/
theorem ty_vecHessSq (d : Nat) (es : List E) (hne : es ≠ []) (h : ∀ e ∈ es, ty d e = some .s) :
    ty d (vecHessSq es) = some .s := by
  cases es with
  | nil => exact absurd rfl hne
  | cons x xs =>
    have hx := ty_hessSq d x (h x (by simp))
    have hxs := tyAll_map_hessSq d xs (fun e he => h e (by simp [he]))
    simp [vecHessSq, ty, tyAdd, hx, hxs]

/-! ### the dispatch of `kernel` on its argument -/

theorem kernel_scalar (d : Nat) (lg semi : Bool) (k : NK) (e : E) (h : ∀ es, e ≠ tup es) :
    kernel d lg semi k e = Lower.lower d lg (scalarIntegrand semi k e) := by
  unfold kernel
  split
  · exact absurd rfl (h _)
  · rfl

theorem kernel_vector (d : Nat) (lg semi : Bool) (k : NK) (es : List E) :
    kernel d lg semi k (tup es) = Lower.lower d lg (vectorIntegrand semi k es) := rfl

theorem ty_not_tup (d : Nat) (e : E) (τ : Ty) (h : ty d e = some τ) : ∀ es, e ≠ tup es := by
  intro es he; subst he; simp [ty] at h


/-! ### vector arguments: the `Tuple` of the components

  `Lower.lower` leaves a `tup` node as it is (the components are *not* lowered), and the leaf
  classes are applied to it with signature `t`.  The catalogue gives the signature `t` the formula
  of the signature `v` (a `d×1` column) — checked by evaluation against the regenerated table — and
  binds the same components, so the steps of C01 for a column apply. -/

theorem denSum_LS (S : DRing K) (d : Nat) (lg : Bool) (as : List E) (i j : Nat)
    (h : ∀ a ∈ as, den S a i j = denG S d lg a i j) : denSum S as i j = denGSum S d lg as i j := by
  induction as with
  | nil => simp [denSum, denGSum]
  | cons a as ih =>
    simp only [denSum, denGSum]
    rw [h a (by simp), ih (fun x hx => h x (by simp [hx]))]

theorem denProd_LS (S : DRing K) (d : Nat) (lg : Bool) (as : List E) (i j : Nat)
    (h : ∀ a ∈ as, den S a i j = denG S d lg a i j) : denProd S as i j = denGProd S d lg as i j := by
  induction as with
  | nil => simp [denProd, denGProd]
  | cons a as ih =>
    simp only [denProd, denGProd]
    rw [h a (by simp), ih (fun x hx => h x (by simp [hx]))]

/-- on a lowered scalar form (numbers, constants, coordinates, functions, components `F[i]`, sums,
    products, derivative chains) the two semantics agree: lowering has nothing to do -/
theorem den_LS_denG (S : DRing K) (d : Nat) (lg : Bool) (e : E) (h : LS e = true) (i j : Nat) :
    den S e i j = denG S d lg e i j := by
  induction e using E.rec
    (motive_2 := fun as => ∀ a ∈ as, LS a = true → den S a i j = denG S d lg a i j) with
  | add as ih =>
    simp only [den, denG]
    exact denSum_LS S d lg as i j (fun a ha => ih a ha (LSList_mem (by simpa [LS] using h) ha))
  | mul as ih =>
    simp only [den, denG]
    exact denProd_LS S d lg as i j (fun a ha => ih a ha (LSList_mem (by simpa [LS] using h) ha))
  | pd c a ih => simp only [den, denG]; rw [ih (by simpa [LS] using h)]
  | idx b k _ => cases b <;> simp_all [LS, den, denG]
  | nil => cases ‹_ ∈ []›
  | cons a as iha ihas =>
    rename_i x hx hs
    rcases List.mem_cons.mp hx with rfl | hx
    · exact iha hs
    · exact ihas x hx hs
  | num _ _ => simp [den, denG]
  | cst _ => simp [den, denG]
  | sym _ => simp [den, denG]
  | sf _ _ => simp [den, denG]
  | _ => simp [LS] at h

theorem denNth_LS (S : DRing K) (d : Nat) (lg : Bool) (es : List E) (h : LSList es = true) (n : Nat) :
    denNth S es n = denGNth S d lg es n := by
  induction es generalizing n with
  | nil => simp [denNth, denGNth]
  | cons a as ih =>
    simp only [LSList, Bool.and_eq_true] at h
    cases n with
    | zero => simp only [denNth, denGNth]; exact den_LS_denG S d lg a h.1 0 0
    | succ n => simp only [denNth, denGNth]; exact ih h.2 n

/-- the column of the components is a good lowered form of the `Tuple` -/
theorem good_tup (S : DRing K) (d : Nat) (lg : Bool) (es : List E) (hLS : LSList es = true)
    (hl : es.length = d) : Good S d lg .v (tup es) (mat d 1 es) := by
  refine ⟨by simp [hasShape, hl, hLS], fun i j hij => ?_⟩
  obtain ⟨hi, rfl⟩ := hij
  simp only [den, denG, hi, Nat.zero_lt_one, and_self, if_true, Nat.mul_one, Nat.add_zero]
  exact denNth_LS S d lg es hLS i

theorem bindArg_tup (d k : Nat) (es : List E) (hl : es.length = d) :
    bindArg d k (tup es) = bindArg d k (mat d 1 es) := by
  simp [bindArg, hl]

theorem sigOf_tup (d : Nat) (es : List E) (hl : es.length = d) : sigOf d (tup es) = some 't' := by
  simp [sigOf, hl]

theorem sigOf_col (d : Nat) (es : List E) : sigOf d (mat d 1 es) = some 'v' := by
  simp [sigOf]

/-- a leaf class whose `t` entry is its `v` entry gives a `Tuple` what it gives the column -/
theorem applyLeaf_tup1 (d : Nat) (cn : String) (es : List E) (hl : es.length = d)
    (hlk : lookup cn "t" = lookup cn "v") :
    applyLeaf d cn [tup es] = applyLeaf d cn [mat d 1 es] := by
  have h1 : [tup es].mapM (sigOf d) = some ['t'] := by simp [sigOf_tup d es hl]
  have h2 : [mat d 1 es].mapM (sigOf d) = some ['v'] := by simp [sigOf_col d es]
  have e1 : String.ofList ['t'] = "t" := rfl
  have e2 : String.ofList ['v'] = "v" := rfl
  simp only [applyLeaf, h1, h2, e1, e2, hlk, List.zipIdx_cons, List.zipIdx_nil, List.flatMap_cons,
    List.flatMap_nil, bindArg_tup d _ es hl]

theorem applyLeaf_tup2 (d : Nat) (cn : String) (es : List E) (hl : es.length = d)
    (hlk : lookup cn "tt" = lookup cn "vv") :
    applyLeaf d cn [tup es, tup es] = applyLeaf d cn [mat d 1 es, mat d 1 es] := by
  have h1 : [tup es, tup es].mapM (sigOf d) = some ['t', 't'] := by simp [sigOf_tup d es hl]
  have h2 : [mat d 1 es, mat d 1 es].mapM (sigOf d) = some ['v', 'v'] := by simp [sigOf_col d es]
  have e1 : String.ofList ['t', 't'] = "tt" := rfl
  have e2 : String.ofList ['v', 'v'] = "vv" := rfl
  simp only [applyLeaf, h1, h2, e1, e2, hlk, List.zipIdx_cons, List.zipIdx_nil, List.flatMap_cons,
    List.flatMap_nil, bindArg_tup d _ es hl]

/-- a leaf class applied to a `Tuple` of the wrong length has no signature: it does not return -/
theorem applyLeaf_tup_len (d : Nat) (cn : String) (es : List E) (rest : List E) (t : E)
    (h : applyLeaf d cn (tup es :: rest) = .ok t) : es.length = d := by
  by_contra hne
  have h1 : (tup es :: rest).mapM (sigOf d) = none := by simp [sigOf, hne]
  unfold applyLeaf at h
  rw [h1] at h
  split at h <;> cases h

set_option maxRecDepth 100000 in
theorem lookup_grad_tv (d : Nat) (hd : d = 1 ∨ d = 2 ∨ d = 3) (lg : Bool) :
    lookup ((if lg then "Logical" else "") ++ "Grad" ++ "_" ++ toString d ++ "d") "t"
      = lookup ((if lg then "Logical" else "") ++ "Grad" ++ "_" ++ toString d ++ "d") "v" := by
  rcases hd with rfl | rfl | rfl <;> cases lg <;> rfl

set_option maxRecDepth 100000 in
theorem lookup_dot_tv (d : Nat) (hd : d = 1 ∨ d = 2 ∨ d = 3) (lg : Bool) :
    lookup (op2Name lg .dot d) "tt" = lookup (op2Name lg .dot d) "vv" := by
  rcases hd with rfl | rfl | rfl <;> cases lg <;> rfl

theorem lower_tup (d : Nat) (lg : Bool) (es : List E) : lower d lg (tup es) = .ok (tup es) := by
  simp [lower]

/-- `Dot(v, v)` on the `Tuple` of lowered components: what is returned denotes Σ e_i² -/
theorem lower_vecSq_good (S : DRing K) (d : Nat) (hd : d = 1 ∨ d = 2 ∨ d = 3) (lg : Bool)
    (es : List E) (hLS : LSList es = true) (t : E) (h : lower d lg (vecSq es) = .ok t) :
    Good S d lg .s (vecSq es) t := by
  unfold vecSq at h ⊢
  rw [lower_op2, lower_tup] at h
  simp only [bind, Except.bind] at h
  have hl := applyLeaf_tup_len d _ es _ t h
  rw [applyLeaf_tup2 d _ es hl (lookup_dot_tv d hd lg)] at h
  have g := good_tup S d lg es hLS hl
  exact (op2_dispatch S d hd lg .dot .v .v .s (by simp [ty2]) (tup es) (tup es) _ _ g g
    (by simp [rank, rk]) (by simp [rank, rk])).2 t h

/-- `Inner(Grad(v), Grad(v))` on the `Tuple` of lowered components: Σ_ij (∂_i e_j)² -/
theorem lower_vecGradSq_good (S : DRing K) (d : Nat) (hd : d = 1 ∨ d = 2 ∨ d = 3) (lg : Bool)
    (es : List E) (hLS : LSList es = true) (t : E) (h : lower d lg (vecGradSq es) = .ok t) :
    Good S d lg .s (vecGradSq es) t := by
  unfold vecGradSq at h ⊢
  rw [lower_op2] at h
  simp only [bind, Except.bind] at h
  cases hg : lower d lg (op1 .grad (tup es)) with
  | error e => rw [hg] at h; cases h
  | ok g' =>
    rw [hg] at h
    simp only at h
    rw [lower_op1 d lg .grad (tup es) "Grad" rfl, lower_tup] at hg
    simp only [bind, Except.bind] at hg
    have hl := applyLeaf_tup_len d _ es _ g' hg
    rw [applyLeaf_tup1 d _ es hl (lookup_grad_tv d hd lg)] at hg
    have g := good_tup S d lg es hLS hl
    have gg := (op1_dispatch S d hd lg .grad .v .m (by simp [ty1]) "Grad" rfl (tup es) _ g
      (by simp [rank, rk])).2 g' hg
    exact (op2_dispatch S d hd lg .inner .m .m .s (by simp [ty2]) _ _ g' g' gg gg
      (by simp [rank, rk]) (by simp [rank, rk])).2 t h

/-- a sum of terms each of which is lowered to a good scalar is lowered to a good scalar -/
theorem lower_add_good (S : DRing K) (d : Nat) (lg : Bool) (as : List E) (t : E)
    (hm : ∀ a ∈ as, ∀ t, lower d lg a = .ok t → Good S d lg .s a t)
    (h : lower d lg (add as) = .ok t) : Good S d lg .s (add as) t := by
  simp only [lower, bind, Except.bind] at h
  cases hls : lowerList d lg as with
  | error e => rw [hls] at h; cases h
  | ok ts =>
    rw [hls] at h
    simp only at h
    have F := lowerList_spec d lg as ts hls
    cases F with
    | nil => simp [foldV] at h
    | cons hat Frest =>
      rename_i a ta rest trest
      have ga := hm a (by simp) ta hat
      have Fg : List.Forall₂ (Good S d lg .s) rest trest :=
        forall2_members d lg _ rest trest Frest (fun x hx tx hlx => hm x (by simp [hx]) tx hlx)
      have hs := sum_members S d lg .s rest trest Fg
      simp only [foldV] at h
      have := foldAdd_sound S d .s trest ta t ga.1 hs.1 h
      refine ⟨this.1, fun i j hij => ?_⟩
      rw [this.2 i j, ga.2 i j hij, hs.2 i j hij]
      simp only [denG, denGSum]

/-- the H2 part of a vector argument: a sum of Hessian norms of scalars of the fragment -/
theorem lower_vecHessSq_good (S : DRing K) (d : Nat) (hd : d = 1 ∨ d = 2 ∨ d = 3) (lg : Bool)
    (es : List E) (hty : ∀ e ∈ es, ty d e = some .s) (t : E)
    (h : lower d lg (vecHessSq es) = .ok t) : Good S d lg .s (vecHessSq es) t := by
  have hne : es ≠ [] := by
    intro he; subst he
    simp [vecHessSq, lower, lowerList, foldV, bind, Except.bind] at h
  exact lower_ty_sound S d hd lg _ .s t (ty_vecHessSq d es hne hty) h

/-- what a good scalar says: the returned tree denotes, at every index, the classical value -/
theorem good_scalar (S : DRing K) (d : Nat) (hd : 1 ≤ d) (lg : Bool) (a t : E)
    (g : Good S d lg .s a t) (i j : Nat) : den S t i j = denG S d lg a 0 0 := by
  rw [den_LS_free S t (hasShape_s_LS d t g.1) i j, g.2 0 0 (InR_zero_zero d hd _)]


/-- `Dot(v, v)` is only lowered when the `Tuple` has exactly `d` components -/
theorem lower_vecSq_len (d : Nat) (lg : Bool) (es : List E) (t : E)
    (h : lower d lg (vecSq es) = .ok t) : es.length = d := by
  unfold vecSq at h
  rw [lower_op2, lower_tup] at h
  simp only [bind, Except.bind] at h
  exact applyLeaf_tup_len d _ es _ t h

/-- if a sum is lowered, each of its terms is -/
theorem lower_add_mem (d : Nat) (lg : Bool) (as : List E) (t : E) (h : lower d lg (add as) = .ok t) :
    ∀ a ∈ as, ∃ ta, lower d lg a = .ok ta := by
  simp only [lower, bind, Except.bind] at h
  cases hls : lowerList d lg as with
  | error e => rw [hls] at h; cases h
  | ok ts =>
    have F := lowerList_spec d lg as ts hls
    clear h hls
    induction F with
    | nil => intro a ha; cases ha
    | cons hat _ ih =>
      intro x hx
      rcases List.mem_cons.mp hx with rfl | hx
      · exact ⟨_, hat⟩
      · exact ih x hx


/-! ### totality for a vector argument (the `Tuple` has `d` lowered components) -/

theorem lower_vecSq_total (d : Nat) (hd : d = 1 ∨ d = 2 ∨ d = 3) (lg : Bool) (es : List E)
    (hLS : LSList es = true) (hl : es.length = d) : ∃ t, lower d lg (vecSq es) = .ok t := by
  unfold vecSq
  rw [lower_op2, lower_tup]
  simp only [bind, Except.bind]
  rw [applyLeaf_tup2 d _ es hl (lookup_dot_tv d hd lg)]
  have g := good_tup trivialRing d lg es hLS hl
  exact (op2_dispatch trivialRing d hd lg .dot .v .v .s (by simp [ty2]) (tup es) (tup es) _ _ g g
    (by simp [rank, rk]) (by simp [rank, rk])).1

theorem lower_vecGradSq_total (d : Nat) (hd : d = 1 ∨ d = 2 ∨ d = 3) (lg : Bool) (es : List E)
    (hLS : LSList es = true) (hl : es.length = d) : ∃ t, lower d lg (vecGradSq es) = .ok t := by
  have g := good_tup trivialRing d lg es hLS hl
  have D1 := op1_dispatch trivialRing d hd lg .grad .v .m (by simp [ty1]) "Grad" rfl (tup es) _ g
    (by simp [rank, rk])
  obtain ⟨g', hg'⟩ := D1.1
  have gg := D1.2 g' hg'
  have hg : lower d lg (op1 .grad (tup es)) = .ok g' := by
    rw [lower_op1 d lg .grad (tup es) "Grad" rfl, lower_tup]
    simp only [bind, Except.bind]
    rw [applyLeaf_tup1 d _ es hl (lookup_grad_tv d hd lg)]
    exact hg'
  unfold vecGradSq
  rw [lower_op2, hg]
  simp only [bind, Except.bind]
  exact (op2_dispatch trivialRing d hd lg .inner .m .m .s (by simp [ty2]) _ _ g' g' gg gg
    (by simp [rank, rk]) (by simp [rank, rk])).1

/-- a non-empty sum whose terms are all lowered to scalar forms is lowered (d ≠ 1) -/
theorem lower_add_total (d : Nat) (hd : d ≠ 1) (lg : Bool) (a : E) (rest : List E)
    (hm : ∀ x ∈ a :: rest, ∃ t, lower d lg x = .ok t)
    (hg : ∀ x ∈ a :: rest, ∀ t, lower d lg x = .ok t → hasShape d .s t = true) :
    ∃ t, lower d lg (add (a :: rest)) = .ok t := by
  obtain ⟨ts, hts⟩ := lowerList_total d lg (a :: rest) hm
  have F := lowerList_spec d lg (a :: rest) ts hts
  cases F with
  | cons hat Frest =>
    rename_i ta trest
    have hta := hg a (by simp) ta hat
    have Fs : List.Forall₂ (fun (_ : E) t => hasShape d .s t = true) rest trest :=
      forall2_members d lg _ rest trest Frest (fun x hx tx hlx => hg x (by simp [hx]) tx hlx)
    obtain ⟨t, ht⟩ := foldAdd_total trivialRing d hd .s trest ta hta
      (forall2_right_all _ rest trest Fs)
    exact ⟨t, by simp only [lower, hts, bind, Except.bind, foldV, ht]⟩

end Sympde.Norm
