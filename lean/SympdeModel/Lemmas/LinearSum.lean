/-
  Helper definitions and lemmas for C08, part 4: sums of integrals and sums of terms.

  * the verdict on a sum of integrals is the conjunction of the verdicts on the integrals
    (`allOK_true_iff`, `isLinear_true_iff`);
  * `isLinearLumped`: the VARIANT that adds the integrands of all the integrals and tests the
    sum (violations on different regions can cancel);
  * `isLinearTermwise`: the VARIANT that tests the top-level summands of every integrand one by
    one (a sufficient, not a necessary criterion).
  Neither variant is a model of the code; Props/C08.lean shows an input on which each differs
  from `isLinear` and from the meaning of the integrand.
-/
import SympdeModel.Lemmas.LinearProduct
namespace Sympde.Linear
open E
open Sympde.Sub

theorem allOK_true_iff (l : List (Except Err Bool)) : allOK l = .ok true ↔ ∀ x ∈ l, x = .ok true := by
  induction l with
  | nil => simp [allOK]
  | cons x xs ih =>
    cases x with
    | error e => simp [allOK]
    | ok b =>
      cases h : allOK xs with
      | error e =>
        have : ¬ ∀ y ∈ xs, y = Except.ok true := fun hh => by
          have := ih.mpr hh
          rw [h] at this
          cases this
        simp [allOK, h, this]
      | ok r =>
        cases r with
        | true =>
          have := ih.mp h
          cases b
          · simp [allOK, h]
          · simpa [allOK, h] using this
        | false =>
          have : ¬ ∀ y ∈ xs, y = Except.ok true := fun hh => by
            have := ih.mpr hh
            rw [h] at this
            cases this
          cases b
          · simp [allOK, h]
          · simpa [allOK, h] using this

/-- the verdict is positive iff both tests are positive on every integral -/
theorem isLinear_true_iff_tests (d : Nat) (args : List E) (ints : List (String × E)) :
    isLinear d args ints = .ok true ↔
      ∀ p ∈ ints, additive d args p.2 = .ok true ∧ homogeneous d args p.2 = .ok true := by
  have key : isLinear d args ints = .ok true ↔
      allOK (ints.map (fun p => additive d args p.2)) = .ok true ∧
      allOK (ints.map (fun p => homogeneous d args p.2)) = .ok true := by
    unfold isLinear
    cases h : allOK (ints.map (fun p => additive d args p.2)) with
    | error e => simp
    | ok b => cases b <;> simp
  rw [key, allOK_true_iff, allOK_true_iff]
  simp only [List.mem_map, forall_exists_index, and_imp, forall_apply_eq_imp_iff₂]
  exact ⟨fun ⟨h1, h2⟩ p hp => ⟨h1 p hp, h2 p hp⟩, fun h => ⟨fun p hp => (h p hp).1, fun p hp => (h p hp).2⟩⟩

/-- … i.e. iff the verdict is positive on every integral taken alone -/
theorem isLinear_true_iff (d : Nat) (args : List E) (ints : List (String × E)) :
    isLinear d args ints = .ok true ↔ ∀ p ∈ ints, isLinear d args [p] = .ok true := by
  rw [isLinear_true_iff_tests]
  constructor
  · intro h p hp
    rw [isLinear_true_iff_tests]
    intro q hq
    simp only [List.mem_singleton] at hq
    rw [hq]
    exact h p hp
  · intro h p hp
    exact (isLinear_true_iff_tests d args [p]).mp (h p hp) p (by simp)

/-! ### the variant that lumps the integrands of all the integrals together -/

def isLinearLumped (d : Nat) (args : List E) (ints : List (String × E)) : Except Err Bool :=
  isLinear d args [("", add (ints.map (·.2)))]

/-! ### the variant that tests the summands of an integrand one by one -/

def termsOf : E → List E
  | add ts => ts
  | e => [e]

def isLinearTermwise (d : Nat) (args : List E) (ints : List (String × E)) : Except Err Bool :=
  isLinear d args (ints.flatMap (fun p => (termsOf p.2).map (fun t => (p.1, t))))

end Sympde.Linear
