/-
  Helper lemmas for C20, part 2: the layout of a pattern string — names separated by commas
  and/or blanks, optional padding, optional trailing comma — and the proof that the
  tokenising stage of `expandStr` (strip, trailing comma, split on commas, strip, split on
  blanks) recovers exactly the names.
-/
import SympdeModel.Lemmas.PatternStr
namespace Sympde.Pat

/-- only whitespace -/
def Blank (w : Str) : Prop := ∀ c ∈ w, isSpace c = true

/-- a name token: non-empty, without blank, comma or backslash -/
def IsName (n : Str) : Prop := n ≠ [] ∧ ∀ c ∈ n, isSpace c = false ∧ c ≠ ',' ∧ c ≠ '\\'

/-- names separated by blanks: `first (d w name)*` where `d :: w` is a non-empty blank -/
structure Field where
  first : Str
  rest : List (Char × Str × Str)

def Field.core (f : Field) : Str := f.first ++ f.rest.flatMap (fun t => t.1 :: (t.2.1 ++ t.2.2))
def Field.names (f : Field) : List Str := f.first :: f.rest.map (·.2.2)
def Field.WF (f : Field) : Prop :=
  IsName f.first ∧ ∀ t ∈ f.rest, isSpace t.1 = true ∧ Blank t.2.1 ∧ IsName t.2.2

/-- `lead field (blank , blank field)* (blank ,)? trail` -/
structure Layout where
  lead : Str
  first : Field
  rest : List (Str × Str × Field)
  tcomma : Option Str
  trail : Str

def midOf (first : Field) (rest : List (Str × Str × Field)) : Str :=
  first.core ++ rest.flatMap (fun t => t.1 ++ ',' :: (t.2.1 ++ t.2.2.core))

def Layout.render (p : Layout) : Str :=
  p.lead ++ midOf p.first p.rest ++ (match p.tcomma with | none => [] | some w => w ++ [',']) ++ p.trail

def Layout.names (p : Layout) : List Str := p.first.names ++ p.rest.flatMap (·.2.2.names)

def Layout.WF (p : Layout) : Prop :=
  Blank p.lead ∧ p.first.WF ∧ (∀ t ∈ p.rest, Blank t.1 ∧ Blank t.2.1 ∧ t.2.2.WF) ∧
  (∀ w, p.tcomma = some w → Blank w) ∧ Blank p.trail

/-! ### ends of strings -/

def StartsName (m : Str) : Prop := ∃ c s, m = c :: s ∧ isSpace c = false
def EndsName (m : Str) : Prop := ∃ s c, m = s ++ [c] ∧ isSpace c = false ∧ c ≠ ','

theorem IsName.starts {n : Str} (h : IsName n) (x : Str) : StartsName (n ++ x) := by
  obtain ⟨hne, hc⟩ := h
  cases n with
  | nil => exact absurd rfl hne
  | cons c cs => exact ⟨c, cs ++ x, rfl, (hc c (by simp)).1⟩

theorem IsName.ends {n : Str} (h : IsName n) (x : Str) : EndsName (x ++ n) := by
  obtain ⟨hne, hc⟩ := h
  have hl := List.dropLast_concat_getLast hne
  refine ⟨x ++ n.dropLast, n.getLast hne, ?_, ?_, ?_⟩
  · rw [List.append_assoc, hl]
  · exact (hc _ (List.getLast_mem hne)).1
  · exact (hc _ (List.getLast_mem hne)).2.1

theorem strip_of (w1 w2 m : Str) (hw1 : Blank w1) (hw2 : Blank w2) (hs : StartsName m)
    (he : ∃ s c, m = s ++ [c] ∧ isSpace c = false) : strip (w1 ++ m ++ w2) = m := by
  obtain ⟨s, c, rfl, hc⟩ := he
  obtain ⟨d, ds, hd, hdn⟩ := hs
  apply strip_core w1 w2 s c hw1 hw2 hc
  intro d' ds' h'
  rw [hd] at h'
  injection h' with h1 _
  subst h1; exact hdn

theorem blank_no_comma {w : Str} (h : Blank w) : ',' ∉ w := by
  intro hm
  have := h _ hm
  simp [isSpace] at this

theorem blank_no_backslash {w : Str} (h : Blank w) : '\\' ∉ w := by
  intro hm
  have := h _ hm
  simp [isSpace] at this

/-! ### one field -/

theorem Field.core_starts (f : Field) (h : f.WF) : StartsName f.core := h.1.starts _

theorem Field.core_ends (f : Field) (h : f.WF) : EndsName f.core := by
  obtain ⟨first, rest⟩ := f
  induction rest generalizing first with
  | nil => simpa [Field.core] using h.1.ends []
  | cons t ts ih =>
    obtain ⟨h1, h2⟩ := h
    have ht := h2 t (by simp)
    have := ih t.2.2 ⟨ht.2.2, fun x hx => h2 x (by simp [hx])⟩
    obtain ⟨s, c, hs, hc⟩ := this
    refine ⟨first ++ t.1 :: t.2.1 ++ s, c, ?_, hc⟩
    simp only [Field.core, List.flatMap_cons] at hs ⊢
    rw [show first ++ (t.1 :: (t.2.1 ++ t.2.2) ++ List.flatMap (fun t => t.1 :: (t.2.1 ++ t.2.2)) ts)
        = (first ++ t.1 :: t.2.1) ++ (t.2.2 ++ List.flatMap (fun t => t.1 :: (t.2.1 ++ t.2.2)) ts) by simp, hs]
    simp

theorem Field.core_no (f : Field) (h : f.WF) (x : Char) (hx : x = ',' ∨ x = '\\') : x ∉ f.core := by
  obtain ⟨first, rest⟩ := f
  have hsp : isSpace x = false := by rcases hx with rfl | rfl <;> simp [isSpace]
  induction rest generalizing first with
  | nil =>
    simp only [Field.core, List.flatMap_nil, List.append_nil]
    intro hm
    have := h.1.2 x hm
    rcases hx with rfl | rfl <;> simp_all
  | cons t ts ih =>
    obtain ⟨h1, h2⟩ := h
    have ht := h2 t (by simp)
    have hrec := ih t.2.2 ⟨ht.2.2, fun y hy => h2 y (by simp [hy])⟩
    simp only [Field.core, List.flatMap_cons] at hrec ⊢
    intro hm
    simp only [List.mem_append, List.mem_cons] at hm hrec
    rcases hm with hm | (hm | hm) | hm
    · have := h1.2 x hm
      rcases hx with rfl | rfl <;> simp_all
    · subst hm; rw [ht.1] at hsp; cases hsp
    · rcases hm with hm | hm
      · have := ht.2.1 x hm; rw [this] at hsp; cases hsp
      · exact hrec (Or.inl hm)
    · exact hrec (Or.inr hm)

theorem Field.splitWs_core (f : Field) (h : f.WF) : splitWs f.core = f.names := by
  obtain ⟨first, rest⟩ := f
  induction rest generalizing first with
  | nil =>
    simp only [Field.core, List.flatMap_nil, List.append_nil, Field.names, List.map_nil]
    exact splitWs_word first (fun c hc => (h.1.2 c hc).1) h.1.1
  | cons t ts ih =>
    obtain ⟨h1, h2⟩ := h
    have ht := h2 t (by simp)
    have hrec := ih t.2.2 ⟨ht.2.2, fun y hy => h2 y (by simp [hy])⟩
    simp only [Field.core, Field.names, List.flatMap_cons, List.map_cons] at hrec ⊢
    rw [show first ++ (t.1 :: (t.2.1 ++ t.2.2) ++ List.flatMap (fun t => t.1 :: (t.2.1 ++ t.2.2)) ts)
        = first ++ t.1 :: (t.2.1 ++ (t.2.2 ++ List.flatMap (fun t => t.1 :: (t.2.1 ++ t.2.2)) ts)) by simp]
    rw [splitWs_word_ws first t.2.1 _ t.1 (fun c hc => (h1.2 c hc).1) h1.1 ht.1 ht.2.1, hrec]

/-! ### the comma level -/

theorem mid_starts (first : Field) (rest : List (Str × Str × Field)) (h : first.WF) :
    StartsName (midOf first rest) := by
  obtain ⟨c, s, hs, hc⟩ := first.core_starts h
  exact ⟨c, s ++ rest.flatMap (fun t => t.1 ++ ',' :: (t.2.1 ++ t.2.2.core)), by simp [midOf, hs], hc⟩

theorem mid_ends (first : Field) (rest : List (Str × Str × Field)) (h : first.WF)
    (hr : ∀ t ∈ rest, Blank t.1 ∧ Blank t.2.1 ∧ t.2.2.WF) : EndsName (midOf first rest) := by
  induction rest generalizing first with
  | nil => simpa [midOf] using first.core_ends h
  | cons t ts ih =>
    have ht := hr t (by simp)
    obtain ⟨s, c, hs, hc⟩ := ih t.2.2 ht.2.2 (fun y hy => hr y (by simp [hy]))
    refine ⟨first.core ++ t.1 ++ ',' :: t.2.1 ++ s, c, ?_, hc⟩
    simp only [midOf, List.flatMap_cons] at hs ⊢
    rw [show first.core ++ (t.1 ++ ',' :: (t.2.1 ++ t.2.2.core) ++
          List.flatMap (fun t => t.1 ++ ',' :: (t.2.1 ++ t.2.2.core)) ts)
        = (first.core ++ t.1 ++ ',' :: t.2.1) ++ (t.2.2.core ++
          List.flatMap (fun t => t.1 ++ ',' :: (t.2.1 ++ t.2.2.core)) ts) by simp, hs]
    simp

theorem mid_no_backslash (first : Field) (rest : List (Str × Str × Field)) (h : first.WF)
    (hr : ∀ t ∈ rest, Blank t.1 ∧ Blank t.2.1 ∧ t.2.2.WF) : '\\' ∉ midOf first rest := by
  induction rest generalizing first with
  | nil => simpa [midOf] using first.core_no h '\\' (Or.inr rfl)
  | cons t ts ih =>
    have ht := hr t (by simp)
    have hrec := ih t.2.2 ht.2.2 (fun y hy => hr y (by simp [hy]))
    simp only [midOf, List.flatMap_cons] at hrec ⊢
    intro hm
    simp only [List.mem_append, List.mem_cons] at hm hrec
    rcases hm with hm | ((hm | hm | hm | hm) | hm)
    · exact first.core_no h '\\' (Or.inr rfl) hm
    · exact blank_no_backslash ht.1 hm
    · cases hm
    · exact blank_no_backslash ht.2.1 hm
    · exact hrec (Or.inl hm)
    · exact hrec (Or.inr hm)

/-- the fields between commas, stripped, are the cores -/
theorem split_mid (r : Str) (first : Field) (rest : List (Str × Str × Field)) (hr0 : Blank r)
    (h : first.WF) (hr : ∀ t ∈ rest, Blank t.1 ∧ Blank t.2.1 ∧ t.2.2.WF) :
    (splitOn ',' (r ++ midOf first rest)).map strip
      = first.core :: rest.map (·.2.2.core) := by
  induction rest generalizing first r with
  | nil =>
    simp only [midOf, List.flatMap_nil, List.append_nil, List.map_nil]
    have hno : ',' ∉ r ++ first.core := by
      intro hm
      rcases List.mem_append.mp hm with hm | hm
      · exact blank_no_comma hr0 hm
      · exact first.core_no h ',' (Or.inl rfl) hm
    rw [splitOn_no_sep _ _ hno]
    have := strip_of r [] first.core hr0 (by intro c hc; cases hc) (first.core_starts h)
      (by obtain ⟨s, c, h1, h2, _⟩ := first.core_ends h; exact ⟨s, c, h1, h2⟩)
    simpa using this
  | cons t ts ih =>
    have ht := hr t (by simp)
    have hrec := ih t.2.1 t.2.2 ht.2.1 ht.2.2 (fun y hy => hr y (by simp [hy]))
    simp only [midOf, List.flatMap_cons, List.map_cons] at hrec ⊢
    rw [show r ++ (first.core ++ (t.1 ++ ',' :: (t.2.1 ++ t.2.2.core) ++
          List.flatMap (fun t => t.1 ++ ',' :: (t.2.1 ++ t.2.2.core)) ts))
        = (r ++ first.core ++ t.1) ++ ',' :: (t.2.1 ++ (t.2.2.core ++
          List.flatMap (fun t => t.1 ++ ',' :: (t.2.1 ++ t.2.2.core)) ts)) by simp]
    have hno : ',' ∉ r ++ first.core ++ t.1 := by
      intro hm
      simp only [List.mem_append] at hm
      rcases hm with (hm | hm) | hm
      · exact blank_no_comma hr0 hm
      · exact first.core_no h ',' (Or.inl rfl) hm
      · exact blank_no_comma ht.1 hm
    rw [splitOn_append_sep _ _ _ hno, List.map_cons, hrec,
      strip_of r t.1 first.core hr0 ht.1 (first.core_starts h)
        (by obtain ⟨s, c, h1, h2, _⟩ := first.core_ends h; exact ⟨s, c, h1, h2⟩)]

/-- `strip`, detection and removal of one trailing comma -/
theorem body_render (p : Layout) (h : p.WF) :
    body p.render = (midOf p.first p.rest, p.tcomma.isSome) := by
  obtain ⟨hl, hf, hr, htc, htr⟩ := h
  have hs := mid_starts p.first p.rest hf
  have he := mid_ends p.first p.rest hf hr
  obtain ⟨s, c, hm, hc, hcomma⟩ := he
  unfold body Layout.render
  cases htcm : p.tcomma with
  | none =>
    simp only [List.append_nil]
    rw [strip_of p.lead p.trail _ hl htr hs ⟨s, c, hm, hc⟩]
    simp only [hm, List.getLast?_append, List.getLast?_singleton, Option.some_or, Option.isSome_none]
    have : (some c == some ',') = false := by simp [hcomma]
    simp [this]
  | some w =>
    have hw := htc w htcm
    have hstrip : strip (p.lead ++ midOf p.first p.rest ++ (w ++ [',']) ++ p.trail)
        = midOf p.first p.rest ++ (w ++ [',']) := by
      rw [List.append_assoc p.lead]
      apply strip_of p.lead p.trail _ hl htr
      · obtain ⟨d, ds, hd, hdn⟩ := hs
        exact ⟨d, ds ++ (w ++ [',']), by simp [hd], hdn⟩
      · exact ⟨midOf p.first p.rest ++ w, ',', by simp, by simp [isSpace]⟩
    simp only [hstrip]
    have hlast : (midOf p.first p.rest ++ (w ++ [','])).getLast? = some ',' := by
      simp [List.getLast?_append]
    simp only [hlast, beq_self_eq_true, if_true, Option.isSome_some]
    have hdl : (midOf p.first p.rest ++ (w ++ [','])).dropLast = midOf p.first p.rest ++ w := by
      rw [← List.append_assoc, List.dropLast_concat]
    rw [hdl, rstrip_append_ws _ _ hw, hm, rstrip_of_last _ _ hc]

theorem mid_ne_nil (first : Field) (rest : List (Str × Str × Field)) (h : first.WF) :
    midOf first rest ≠ [] := by
  obtain ⟨c, s, hs, _⟩ := mid_starts first rest h
  rw [hs]; simp

theorem Field.core_ne_nil (f : Field) (h : f.WF) : f.core ≠ [] := by
  obtain ⟨c, s, hs, _⟩ := f.core_starts h
  rw [hs]; simp

theorem splitWs_cores (rest : List (Str × Str × Field)) (hr : ∀ t ∈ rest, t.2.2.WF) :
    (rest.map (·.2.2.core)).flatMap splitWs = rest.flatMap (·.2.2.names) := by
  induction rest with
  | nil => rfl
  | cons t ts ih =>
    simp only [List.map_cons, List.flatMap_cons]
    rw [t.2.2.splitWs_core (hr t (by simp)), ih (fun y hy => hr y (by simp [hy]))]

/-- `expandStr` after the escape stage (utils.py:81-156), for given escape table `lits` -/
def postEscape (seq : SeqArg) (names0 : Str) (lits : List (Char × Str)) : Except Err Res :=
  let (names, asSeq) := body names0
  if names.isEmpty then .error .noSymbols
  else
    let fields := (splitOn ',' names).map strip
    if fields.any (·.isEmpty) then .error .missingComma
    else
      let ns := fields.flatMap splitWs
      match (match seq with
             | .none => some asSeq
             | .some b => some b
             | .bad => none) with
      | none => .error .seqType
      | some seq0 =>
          match expandNames lits ns with
          | .error e => .error e
          | .ok (result, s) => .ok (finish (seq0 || s) result)

theorem expandStr_post (seq : SeqArg) (s : Str) :
    expandStr seq s = postEscape seq (escapeAll s).names (escapeAll s).lits := rfl

/-- **tokenising stage**, for any escape table: the loop runs over exactly the names of the
    layout, with `seq` preset by the trailing comma unless given explicitly. -/
theorem postEscape_layout (p : Layout) (h : p.WF) (seq : SeqArg) (lits : List (Char × Str)) :
    postEscape seq p.render lits =
      match seq with
      | .bad => .error .seqType
      | seq =>
        match expandNames lits p.names with
        | .error e => .error e
        | .ok (result, s) =>
            .ok (finish ((match seq with | .some b => b | _ => p.tcomma.isSome) || s) result) := by
  have hb := body_render p h
  obtain ⟨hl, hf, hr, htc, htr⟩ := h
  have hsplit := split_mid [] p.first p.rest (by intro c hc; cases hc) hf hr
  simp only [List.nil_append] at hsplit
  unfold postEscape
  simp only [hb]
  have hne : (midOf p.first p.rest).isEmpty = false := by
    simpa using mid_ne_nil p.first p.rest hf
  simp only [hne, Bool.false_eq_true, if_false, hsplit]
  have hany : (p.first.core :: p.rest.map (·.2.2.core)).any (·.isEmpty) = false := by
    simp only [List.any_cons, List.any_map, Bool.or_eq_false_iff, List.any_eq_false]
    refine ⟨by simpa using p.first.core_ne_nil hf, ?_⟩
    intro t ht
    simpa using t.2.2.core_ne_nil (hr t ht).2.2
  simp only [hany, Bool.false_eq_true, if_false]
  have hnames : (p.first.core :: p.rest.map (·.2.2.core)).flatMap splitWs = p.names := by
    simp only [List.flatMap_cons, Layout.names, p.first.splitWs_core hf]
    congr 1
    exact splitWs_cores p.rest (fun t ht => (hr t ht).2.2)
  simp only [hnames]
  cases seq with
  | bad => rfl
  | none =>
    cases expandNames lits p.names with
    | error e => rfl
    | ok r => rfl
  | some b =>
    cases expandNames lits p.names with
    | error e => rfl
    | ok r => rfl

/-- … and for a text without backslash (no escape at all) this is `expandStr` itself -/
theorem expandStr_layout (p : Layout) (h : p.WF) (seq : SeqArg) :
    expandStr seq p.render =
      match seq with
      | .bad => .error .seqType
      | seq =>
        match expandNames [] p.names with
        | .error e => .error e
        | .ok (result, s) =>
            .ok (finish ((match seq with | .some b => b | _ => p.tcomma.isSome) || s) result) := by
  have hnb : '\\' ∉ p.render := by
    obtain ⟨hl, hf, hr, htc, htr⟩ := h
    unfold Layout.render
    intro hm
    simp only [List.mem_append] at hm
    rcases hm with ((hm | hm) | hm) | hm
    · exact blank_no_backslash hl hm
    · exact mid_no_backslash p.first p.rest hf hr hm
    · cases htcm : p.tcomma with
      | none => simp [htcm] at hm
      | some w =>
        simp only [htcm, List.mem_append, List.mem_singleton] at hm
        rcases hm with hm | hm
        · exact blank_no_backslash (htc w htcm) hm
        · cases hm
    · exact blank_no_backslash htr hm
  obtain ⟨he1, he2⟩ := escapeAll_no_backslash p.render hnb
  rw [expandStr_post, he1, he2]
  exact postEscape_layout p h seq []

end Sympde.Pat
