/-
  Helper definitions and lemmas for C08, part 3: product arguments (several components, possibly
  of the same kind), sums of integrals, integrands in which an argument group does not occur.

  * the homogeneity test is sound for ANY list of function arguments on the operator-free
    fragment (`homogeneous_sound_opfree`), so a semantic refutation in any differential ring
    gives a negative verdict for any argument list and any list of integrals
    (`reject_of_refutation_ints`);
  * the fresh functions of the model are pairwise distinct (`fresh_ne`): component number `i`
    of a product argument gets `l#i`, never the function of another component;
  * `additiveShared` / `homogeneousShared` / `isLinearShared`: the VARIANT of the test in which
    one tag serves all the arguments (every component of the same kind is replaced by the same
    function).  It is not a model of the code; Props/C08.lean shows that it accepts non-linear
    integrands, which is why the distinctness above matters.
-/
import SympdeModel.Lemmas.LinearSound
import Std.Data.String.ToNat
namespace Sympde.Linear
open E
open Sympde.Sub

variable {K : Type} [CommRing K] [Algebra ℚ K]

/-! ### soundness of the homogeneity test for an arbitrary argument list -/

theorem homogeneous_sound_opfree (S : DRing K) (d : Nat) (lg : Bool) (args : List E) (e : E)
    (hargs : ∀ a ∈ args, isFn a = true) (he : OpFree e = true) (hh : homogeneous d args e = .ok true) :
    denG S d lg (subst (args.zip (mulVals args)) e) 0 0
      = S.cst "alpha#" * denG S d lg (subst (args.zip (freshList "l#" args)) e) 0 0 := by
  have s1 := (reevalSound_opfree S d lg args (mulVals args) e hargs (mulVals_opfree args hargs) he).1
  have s2 := (reevalSound_opfree S d lg args (freshList "l#" args) e hargs (freshList_opfree _ args hargs) he).1
  unfold homogeneous at hh
  simp only [substEval] at hh
  cases h1 : reeval2 d (subst (args.zip (mulVals args)) e) with
  | error x => simp [mulVals] at h1; simp [h1] at hh
  | ok n =>
    cases h2 : reeval2 d (subst (args.zip (freshList "l#" args)) e) with
    | error x => simp [mulVals] at h1; simp [h1, h2] at hh
    | ok l =>
      have h1' := h1
      simp only [mulVals] at h1'
      simp only [h1', h2] at hh
      injection hh with hh
      have := RingEq.ringEq_sound S d lg n (mul [alpha, l]) hh
      rw [s1 n h1] at this
      rw [this]
      simp [denG, denGProd, alpha, s2 l h2]

/-! ### the conjunction over the integrals -/

theorem allOK_total (l : List (Except Err Bool)) (h : ∀ x ∈ l, ∃ b, x = .ok b) : ∃ b, allOK l = .ok b := by
  induction l with
  | nil => exact ⟨true, rfl⟩
  | cons x xs ih =>
    obtain ⟨b, rfl⟩ := h x (by simp)
    obtain ⟨r, hr⟩ := ih (fun y hy => h y (by simp [hy]))
    exact ⟨b && r, by simp [allOK, hr]⟩

theorem allOK_false (l : List (Except Err Bool)) (h : ∀ x ∈ l, ∃ b, x = .ok b) (x : Except Err Bool)
    (hx : x ∈ l) (hne : x ≠ .ok true) : allOK l = .ok false := by
  induction l with
  | nil => cases hx
  | cons y ys ih =>
    obtain ⟨b, hb⟩ := h y (by simp)
    obtain ⟨r, hr⟩ := allOK_total ys (fun z hz => h z (by simp [hz]))
    rcases List.mem_cons.mp hx with hxy | hx'
    · subst hxy
      cases b with
      | true => exact absurd hb hne
      | false => subst hb; simp [allOK, hr]
    · have := ih (fun z hz => h z (by simp [hz])) hx'
      subst hb
      simp [allOK, this]

/-- the verdict of `is_linear_expression` on operator-free integrals is always defined … -/
theorem isLinear_total (d : Nat) (args : List E) (ints : List (String × E))
    (hargs : ∀ a ∈ args, isFn a = true) (hall : ∀ p ∈ ints, OpFree p.2 = true) :
    ∃ b, isLinear d args ints = .ok b := by
  have ta : ∀ x ∈ ints.map (fun p => additive d args p.2), ∃ b, x = .ok b := by
    intro x hx
    obtain ⟨q, hq, rfl⟩ := List.mem_map.mp hx
    exact (tests_total d args q.2 hargs (hall q hq)).1
  have th : ∀ x ∈ ints.map (fun p => homogeneous d args p.2), ∃ b, x = .ok b := by
    intro x hx
    obtain ⟨q, hq, rfl⟩ := List.mem_map.mp hx
    exact (tests_total d args q.2 hargs (hall q hq)).2
  obtain ⟨a, ha⟩ := allOK_total _ ta
  obtain ⟨b, hb⟩ := allOK_total _ th
  cases a
  · exact ⟨false, by simp [isLinear, ha]⟩
  · exact ⟨b, by simp [isLinear, ha, hb]⟩

/-- … and negative as soon as ONE integral of the sum fails the homogeneity test -/
theorem isLinear_false_of_mem (d : Nat) (args : List E) (ints : List (String × E))
    (hargs : ∀ a ∈ args, isFn a = true) (hall : ∀ p ∈ ints, OpFree p.2 = true)
    (p : String × E) (hp : p ∈ ints) (hh : homogeneous d args p.2 ≠ .ok true) :
    isLinear d args ints = .ok false := by
  have ta : ∀ x ∈ ints.map (fun p => additive d args p.2), ∃ b, x = .ok b := by
    intro x hx
    obtain ⟨q, hq, rfl⟩ := List.mem_map.mp hx
    exact (tests_total d args q.2 hargs (hall q hq)).1
  have th : ∀ x ∈ ints.map (fun p => homogeneous d args p.2), ∃ b, x = .ok b := by
    intro x hx
    obtain ⟨q, hq, rfl⟩ := List.mem_map.mp hx
    exact (tests_total d args q.2 hargs (hall q hq)).2
  obtain ⟨a, ha⟩ := allOK_total _ ta
  have hf := allOK_false _ th (homogeneous d args p.2) (List.mem_map.mpr ⟨p, hp, rfl⟩) hh
  cases a <;> simp [isLinear, ha, hf]

/-- generic step, any argument list, any sum of integrals, any differential ring: a semantic
    refutation of homogeneity on one integral gives a negative verdict -/
theorem reject_of_refutation_ints (S : DRing K) (d : Nat) (args : List E) (ints : List (String × E))
    (hargs : ∀ a ∈ args, isFn a = true) (hall : ∀ p ∈ ints, OpFree p.2 = true)
    (p : String × E) (hp : p ∈ ints)
    (href : denG S d false (subst (args.zip (mulVals args)) p.2) 0 0
      ≠ S.cst "alpha#" * denG S d false (subst (args.zip (freshList "l#" args)) p.2) 0 0) :
    isLinear d args ints = .ok false :=
  isLinear_false_of_mem d args ints hargs hall p hp
    (fun hh => href (homogeneous_sound_opfree S d false args p.2 hargs (hall p hp) hh))

/-- the verdict of `BilinearForm`: negative when the trial side is -/
theorem isBilinear_false_of_trials (d : Nat) (trials tests : List E) (ints : List (String × E))
    (h : isLinear d trials ints = .ok false) : isBilinear d trials tests ints = .ok false := by
  simp [isBilinear, h]

/-- … and when the test side is (operator-free integrals: the trial side gives a verdict) -/
theorem isBilinear_false_of_tests (d : Nat) (trials tests : List E) (ints : List (String × E))
    (htr : ∀ a ∈ trials, isFn a = true) (hall : ∀ p ∈ ints, OpFree p.2 = true)
    (h : isLinear d tests ints = .ok false) : isBilinear d trials tests ints = .ok false := by
  obtain ⟨b, hb⟩ := isLinear_total d trials ints htr hall
  cases b <;> simp [isBilinear, hb, h]

/-! ### an argument group that does not occur -/

theorem length_freshList (pre : String) (args : List E) : (freshList pre args).length = args.length := by
  simp [freshList]

theorem length_mulVals (args : List E) : (mulVals args).length = args.length := by
  simp [mulVals, length_freshList]

/-- substituting for arguments that do not occur changes nothing -/
theorem subst_argfree (args vals : List E) (e : E) (hlen : args.length ≤ vals.length)
    (h : occurs args e = false) : subst (args.zip vals) e = e := by
  apply subst_of_not_occurs
  have : (args.zip vals).map (·.1) = args := List.map_fst_zip hlen
  rw [this]
  exact h

/-- a key that is a function is different from every tree that is not one -/
theorem any_eqb_nonfn (args : List E) (hargs : ∀ a ∈ args, isFn a = true) (t : E) (ht : isFn t = false) :
    args.any (eqb · t) = false := by
  apply List.any_eq_false.mpr
  intro a ha
  have := hargs a ha
  cases a <;> simp [isFn] at this <;> cases t <;> simp_all [eqb, isFn]

/-! ### the fresh functions of different components are different -/

theorem string_append_left_cancel (p a b : String) (h : p ++ a = p ++ b) : a = b := by
  have := congrArg String.toList h
  simp only [String.toList_append, List.append_cancel_left_eq] at this
  exact String.toList_inj.mp this

theorem freshName_inj (pre : String) (i j : Nat) (h : pre ++ toString i = pre ++ toString j) : i = j :=
  Nat.repr_injective (string_append_left_cancel pre _ _ h)

/-- component `i` and component `j ≠ i` of a product argument are replaced by different functions
    (whatever the components are, in particular when they are of the same kind) -/
theorem fresh_ne (pre : String) (i j : Nat) (a b : E) (ha : isFn a = true) (hb : isFn b = true) (hij : i ≠ j) :
    fresh pre i a ≠ fresh pre j b := by
  intro h
  cases a <;> simp [isFn] at ha <;> cases b <;> simp [isFn] at hb <;>
    simp only [fresh, sf.injEq, vf.injEq] at h <;>
    first
      | exact hij (freshName_inj pre i j h.1)
      | cases h


theorem freshList_getElem (pre : String) (args : List E) (i : Nat) (hi : i < args.length) :
    (freshList pre args)[i]'(by rw [length_freshList]; exact hi) = fresh pre i args[i] := by
  simp [freshList]

/-! ### two components: the substitutions of the test, and the refuting interpretations -/

/-- the fresh function of the second component -/
def l1 (k : Kind) : E := sf ("l#" ++ toString 1) k

theorem fresh_pair (u1 u2 : String) (k1 k2 : Kind) :
    freshList "l#" [sf u1 k1, sf u2 k2] = [l0 k1, l1 k2] := by
  simp [freshList, fresh, l0, l1, List.range, List.range.loop]

theorem mulVals_pair (u1 u2 : String) (k1 k2 : Kind) :
    mulVals [sf u1 k1, sf u2 k2] = [mul [alpha, l0 k1], mul [alpha, l1 k2]] := by
  simp [mulVals, fresh_pair]

theorem pair_isFn (u1 u2 : String) (k1 k2 : Kind) : ∀ a ∈ [sf u1 k1, sf u2 k2], isFn a = true := by
  intro a ha
  simp at ha
  rcases ha with rfl | rfl <;> rfl

/-- `α = 2`, every scalar function `1`, except the fresh function of the FIRST component: `2`.
    The two components of a product argument get different values. -/
noncomputable def refutePair : DRing PolyK :=
  polyDRing (fun n => if n = "l#" ++ toString 0 then 2 else 1) (fun _ _ => 0) (fun _ => 2)

theorem refutePair_cst (n : String) : refutePair.cst n = MvPolynomial.C 2 := rfl
theorem refutePair_l0 : refutePair.sf ("l#" ++ toString 0) = 2 := by simp [refutePair, polyDRing]
theorem refutePair_l1 : refutePair.sf ("l#" ++ toString 1) = 1 := by
  simp [refutePair, polyDRing]
theorem refutePair_sf (n : String) : refutePair.sf n = 2 ∨ refutePair.sf n = 1 := by
  show (if n = "l#" ++ toString 0 then (2 : PolyK) else 1) = 2
    ∨ (if n = "l#" ++ toString 0 then (2 : PolyK) else 1) = 1
  by_cases h : n = "l#" ++ toString 0
  · left; rw [if_pos h]
  · right; rw [if_neg h]

/-! ### the variant with ONE tag for all arguments -/

/-- every argument is replaced by "the" fresh function of its kind: what a tag generated once,
    outside the loop over the arguments, amounts to -/
def sharedList (pre : String) (args : List E) : List E := args.map (fresh pre 0)

def additiveShared (d : Nat) (args : List E) (e : E) : Except Err Bool :=
  let ls := sharedList "l#" args
  let rs := sharedList "r#" args
  match substEval d args (List.zipWith (fun l r => add [l, r]) ls rs) e, substEval d args ls e, substEval d args rs e with
  | .ok n, .ok l, .ok r => .ok (RingEq.ringEq d n (add [l, r]))
  | .error x, _, _ => .error x
  | _, .error x, _ => .error x
  | _, _, .error x => .error x

def homogeneousShared (d : Nat) (args : List E) (e : E) : Except Err Bool :=
  let ls := sharedList "l#" args
  match substEval d args (ls.map (fun l => mul [alpha, l])) e, substEval d args ls e with
  | .ok n, .ok l => .ok (RingEq.ringEq d n (mul [alpha, l]))
  | .error x, _ => .error x
  | _, .error x => .error x

def isLinearShared (d : Nat) (args : List E) (ints : List (String × E)) : Except Err Bool :=
  match allOK (ints.map (fun p => additiveShared d args p.2)) with
  | .error x => .error x
  | .ok false => .ok false
  | .ok true => allOK (ints.map (fun p => homogeneousShared d args p.2))

/-- for a single argument the variant IS the test -/
theorem isLinearShared_single (d : Nat) (a : E) (ints : List (String × E)) :
    isLinearShared d [a] ints = isLinear d [a] ints := by
  have h : ∀ pre, sharedList pre [a] = freshList pre [a] := by
    intro pre; simp [sharedList, freshList, List.range, List.range.loop]
  have ha : ∀ e, additiveShared d [a] e = additive d [a] e := by
    intro e; unfold additiveShared additive; simp only [h]; rfl
  have hh : ∀ e, homogeneousShared d [a] e = homogeneous d [a] e := by
    intro e; unfold homogeneousShared homogeneous; simp only [h]; rfl
  unfold isLinearShared isLinear
  simp only [ha, hh]
  rfl

end Sympde.Linear
