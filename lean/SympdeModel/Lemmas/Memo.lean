/-
  Helper definitions and lemmas for the memoisation model (Model/Memo.lean), and the list of
  identity-table rows that are *known* to leak (they correspond to the open findings of C12 in
  known_findings.json; `Props/C12.lean` decides that the table regenerated from the live classes
  leaks exactly there).
-/
import SympdeModel.Model.Memo
import SympdeModel.Lemmas.Union
namespace Sympde
namespace Memo

section
variable {φ κ α ρ : Type} [DecidableEq φ] [DecidableEq κ]

/-- the function reads nothing beyond the key -/
def KeyDetermined (key : α → κ) (F : φ → α → ρ) : Prop :=
  ∀ f o₁ o₂, key o₁ = key o₂ → F f o₁ = F f o₂

/-- every stored value is the function's value on some object with that key -/
def Consistent (key : α → κ) (F : φ → α → ρ) (t : List ((φ × κ) × ρ)) : Prop :=
  ∀ e ∈ t, ∃ o : α, key o = e.1.2 ∧ F e.1.1 o = e.2

theorem lookup_mem (t : List ((φ × κ) × ρ)) (k : φ × κ) (r : ρ) (h : lookup t k = some r) :
    (k, r) ∈ t := by
  induction t with
  | nil => simp [lookup] at h
  | cons e rest ih =>
    simp only [lookup] at h
    split at h
    · rename_i he
      cases h
      rw [← he]; simp
    · exact List.mem_cons_of_mem _ (ih h)

theorem consistent_step (key : α → κ) (F : φ → α → ρ) (s : State φ κ ρ) (op : Op φ α)
    (h : Consistent key F s.table) : Consistent key F (step key F s op).1.table := by
  cases op with
  | call f o =>
    simp only [step]
    split
    · split
      · exact h
      · intro e he
        rcases List.mem_cons.mp he with rfl | he
        · exact ⟨o, rfl, rfl⟩
        · exact h e he
    · exact h
  | clear => intro e he; cases he
  | cacheOff => exact h
  | cacheOn => exact h

theorem consistent_exec (key : α → κ) (F : φ → α → ρ) (s : State φ κ ρ) (ops : List (Op φ α))
    (h : Consistent key F s.table) : Consistent key F (exec key F s ops).table := by
  induction ops generalizing s with
  | nil => exact h
  | cons op ops ih => exact ih _ (consistent_step key F s op h)

end

/-! ### the identity table seen as a statement about field-parametric functions -/

/-- the attribute takes part in the cache key (some row says: instances differing there are told apart) -/
def InKey (t : List Row) (a : String) : Prop := ∃ r ∈ t, r.attr = a ∧ (r.eq && r.hashEq) = false

/-- the table says that entry point `f` reads attribute `a` -/
def Reads (t : List Row) (f a : String) : Prop := ∃ r ∈ t, r.attr = a ∧ f ∈ r.reads

/-- rows of the regenerated identity table that are known to leak (open findings of C12) -/
def Known.leaks : List Row := [
  ⟨"Domain", "dim", true, true, ["dom_grad", "dom_form"]⟩,
  ⟨"ScalarFunctionSpace", "dim", true, true, ["sp_grad"]⟩,
  ⟨"ScalarFunction", "dim", true, true, ["fn_terminal"]⟩
]

end Memo
end Sympde
