/-
  Helper lemmas for C20, part 4: one name.  The grammar of well-formed items
  (`literal (range literal)*`, ranges optionally parenthesised), their independent denotation
  (`Item.den`), and the proof that `expandName` computes it: the scanner recovers the pieces,
  the parenthesis pass removes exactly the parentheses of parenthesised ranges, every range
  piece enumerates its range, and the product concatenates.
-/
import SympdeModel.Lemmas.PatternScan
namespace Sympde.Pat

/-! ### the grammar of one item -/

/-- a range, whether it is written in parentheses, and the literal text that follows it -/
structure Seg where
  r : Rng
  paren : Bool
  lit : Str
  deriving Repr

def Seg.opn (s : Seg) : Str := if s.paren then ['('] else []
def Seg.cls (s : Seg) : Str := if s.paren then [')'] else []

/-- `head (range literal)*` -/
structure Item where
  head : Str
  tail : List Seg
  deriving Repr

/-- the text from a literal `L` on -/
def renderFrom : Str → List Seg → Str
  | L, [] => L
  | L, s :: t => (L ++ s.opn) ++ (s.r.render ++ renderFrom (s.cls ++ s.lit) t)

def Item.render (it : Item) : Str := renderFrom it.head it.tail

/-- what the scanner should return: literals (with the parentheses still attached) and ranges -/
def rawPieces : Str → List Seg → List Str
  | L, [] => [L]
  | L, s :: t => (L ++ s.opn) :: s.r.render :: rawPieces (s.cls ++ s.lit) t

/-- … and after the parenthesis pass -/
def plainPieces : Str → List Seg → List Str
  | L, [] => [L]
  | L, s :: t => L :: s.r.render :: plainPieces s.lit t

def NoDigitEnd (L : Str) : Prop := ∀ pre c, L = pre ++ [c] → isDigit c = false
def NoAlphaEnd (L : Str) : Prop := ∀ pre c, L = pre ++ [c] → isAlpha c = false

/-- side conditions under which the text is read back unambiguously: no colon in literals; a
    literal before a numeric range does not end with a digit, what follows a numeric range does
    not start with a digit; a literal before `:x` does not end with a letter -/
def SideBefore : Rng → Str → Prop
  | .num _ _, L => NoDigitEnd L
  | .alpha none _, L => NoAlphaEnd L
  | .alpha (some _) _, _ => True

def SideAfter : Rng → Str → Prop
  | .num _ _, R => NoDigitHead R
  | .alpha _ _, _ => True

def ScanWF : Str → List Seg → Prop
  | L, [] => ':' ∉ L
  | L, s :: t =>
      ':' ∉ L ++ s.opn ∧ s.r.WF ∧ SideBefore s.r (L ++ s.opn) ∧
      SideAfter s.r (renderFrom (s.cls ++ s.lit) t) ∧ ScanWF (s.cls ++ s.lit) t

def nextOpn : List Seg → Str
  | [] => []
  | s :: _ => s.opn

/-- an unparenthesised range is not accidentally surrounded by `(` … `)` -/
def ParenWF : Str → List Seg → Prop
  | _, [] => True
  | L, s :: t =>
      (s.paren = false → ¬ (L.getLast? = some '(' ∧ (s.lit ++ nextOpn t).head? = some ')')) ∧
      ParenWF s.lit t

def scanFuel : Str → List Seg → Nat
  | L, [] => L.length
  | L, s :: t => (L ++ s.opn).length + 1 + scanFuel (s.cls ++ s.lit) t

/-! ### the scanner on an item -/

theorem Rng.render_length (r : Rng) : 1 ≤ r.render.length := by
  cases r with
  | num a b => simp [Rng.render]; omega
  | alpha a b => cases a <;> simp [Rng.render]

theorem Rng.render_ne_nil (r : Rng) : r.render ≠ [] := by
  intro h
  have := r.render_length
  rw [h] at this
  simp at this

theorem scanFuel_le (L : Str) (t : List Seg) : scanFuel L t ≤ (renderFrom L t).length := by
  induction t generalizing L with
  | nil => simp [scanFuel, renderFrom]
  | cons s t ih =>
    have := ih (s.cls ++ s.lit)
    have hr := s.r.render_length
    simp only [scanFuel, renderFrom, List.length_append] at this ⊢
    omega

theorem last_of_append_ne_nil (pre ds : Str) (h : ds ≠ []) :
    ∃ pre' d, pre ++ ds = pre' ++ [d] ∧ d ∈ ds := by
  refine ⟨pre ++ ds.dropLast, ds.getLast h, ?_, List.getLast_mem h⟩
  rw [List.append_assoc, List.dropLast_concat_getLast h]

theorem no_match_end (L : Str) (hcolon : ':' ∉ L) :
    ∀ L1 c L2, L = L1 ++ c :: L2 → matchRange (c :: L2 ++ []) = none := by
  apply no_match_in L [] hcolon
  · intro pre ds _ _ hds
    simpa using matchNum_digits ds hds
  · intro pre c _
    exact matchAlpha_one c

theorem no_match_before (L : Str) (r : Rng) (rest : Str) (hcolon : ':' ∉ L) (hr : r.WF)
    (hside : SideBefore r L) :
    ∀ L1 c L2, L = L1 ++ c :: L2 → matchRange (c :: L2 ++ (r.render ++ rest)) = none := by
  apply no_match_in L (r.render ++ rest) hcolon
  · -- a numeric match begun by trailing digits of L
    intro pre ds hL hne hds
    cases r with
    | num a b =>
      obtain ⟨pre', d, he, hd⟩ := last_of_append_ne_nil pre ds hne
      have := hside pre' d (by rw [hL, he])
      rw [hds d hd] at this
      cases this
    | alpha a b =>
      cases a with
      | none =>
        simp only [Rng.render, List.cons_append, List.nil_append]
        apply matchNum_colon_nodigit ds _ hds
        intro c hc
        simp at hc; subst hc
        exact alpha_not_digit hr.2
      | some a =>
        simp only [Rng.render, List.cons_append, List.nil_append]
        have haa := hr.1 a rfl
        exact matchNum_none_of ds a _ hds (alpha_not_digit haa) (alpha_ne_colon haa)
  · -- an alphabetic match begun by the last character of L
    intro pre c hL
    have hcc : c ≠ ':' := by intro e; subst e; exact hcolon (by rw [hL]; simp)
    cases r with
    | num a b =>
      obtain ⟨ha, hb, hne⟩ := hr
      cases a with
      | nil =>
        cases b with
        | nil => exact absurd rfl hne
        | cons b0 b' =>
          simp only [Rng.render, List.nil_append, List.cons_append]
          exact matchAlpha_colon c b0 _ hcc (Or.inr (digit_not_alpha (hb b0 (by simp))))
      | cons d a' =>
        simp only [Rng.render, List.cons_append]
        exact matchAlpha_two c d _ hcc (digit_ne_colon (ha d (by simp)))
    | alpha a b =>
      cases a with
      | none =>
        simp only [Rng.render, List.cons_append, List.nil_append]
        exact matchAlpha_colon c b _ hcc (Or.inl (hside pre c hL))
      | some a =>
        simp only [Rng.render, List.cons_append, List.nil_append]
        exact matchAlpha_two c a _ hcc (alpha_ne_colon (hr.1 a rfl))

theorem scan_item (L : Str) (t : List Seg) (n : Nat) (h : ScanWF L t) :
    rangeSplitAux (scanFuel L t + n) (renderFrom L t) = rawPieces L t := by
  induction t generalizing L n with
  | nil =>
    simp only [scanFuel, renderFrom, rawPieces]
    have := scan_lit L [] n (no_match_end L h)
    simpa [rangeSplitAux_nil, prependHead] using this
  | cons s t ih =>
    obtain ⟨hcolon, hr, hside, hafter, hrest⟩ := h
    simp only [scanFuel, renderFrom, rawPieces]
    have hno := no_match_before (L ++ s.opn) s.r (renderFrom (s.cls ++ s.lit) t) hcolon hr hside
    rw [show (L ++ s.opn).length + 1 + scanFuel (s.cls ++ s.lit) t + n
        = (L ++ s.opn).length + ((scanFuel (s.cls ++ s.lit) t + n) + 1) by omega]
    rw [scan_lit (L ++ s.opn) _ _ hno]
    have hm := matchRange_render s.r (renderFrom (s.cls ++ s.lit) t) hr (by
      intro hnum
      cases hsr : s.r with
      | num a b => rw [hsr] at hafter; exact hafter
      | alpha a b => rw [hsr] at hnum; cases hnum)
    rw [scan_match _ _ _ _ (by simp [s.r.render_ne_nil]) hm, ih _ _ hrest]
    simp [prependHead]

theorem rangeSplit_item (it : Item) (h : ScanWF it.head it.tail) :
    rangeSplit it.render = rawPieces it.head it.tail := by
  unfold rangeSplit Item.render
  have hle := scanFuel_le it.head it.tail
  have := scan_item it.head it.tail ((renderFrom it.head it.tail).length + 1 - scanFuel it.head it.tail) h
  rw [show scanFuel it.head it.tail + ((renderFrom it.head it.tail).length + 1 - scanFuel it.head it.tail)
      = (renderFrom it.head it.tail).length + 1 by omega] at this
  exact this

/-! ### the parenthesis pass -/

theorem Rng.render_colon (r : Rng) (h : r.WF) :
    r.render.contains ':' = true ∧ (r.render != [':']) = true := by
  cases r with
  | num a b =>
    refine ⟨by simp [Rng.render], ?_⟩
    obtain ⟨_, _, hne⟩ := h
    cases a with
    | nil =>
      cases b with
      | nil => exact absurd rfl hne
      | cons y ys => simp [Rng.render]
    | cons x xs => simp [Rng.render]
  | alpha a b => cases a <;> simp [Rng.render]

theorem contains_false_of_not_mem (L : Str) (h : ':' ∉ L) : L.contains ':' = false := by
  simpa using h

theorem stripParensAux_cons (prev cur next : Str) (rest : List Str) :
    stripParensAux prev cur (next :: rest) =
      if parenCond prev cur next = true then prev.dropLast :: stripParensAux cur next.tail rest
      else prev :: stripParensAux cur next rest := rfl

theorem parenCond_paren (L x : Str) (r : Rng) (h : r.WF) :
    parenCond (L ++ ['(']) r.render (')' :: x) = true := by
  have hm : ':' ∈ r.render := by simpa using (r.render_colon h).1
  have hne : r.render ≠ [':'] := by simpa using (r.render_colon h).2
  simp [parenCond, hm, hne]

theorem parenCond_nocolon (prev cur next : Str) (h : ':' ∉ cur) :
    parenCond prev cur next = false := by
  simp [parenCond, h]

theorem parenCond_plain (L cur next : Str) (h : ¬ (L.getLast? = some '(' ∧ next.head? = some ')')) :
    parenCond L cur next = false := by
  unfold parenCond
  cases h1 : (L.getLast? == some '(') with
  | false => simp
  | true =>
    cases h2 : (next.head? == some ')') with
    | false => simp
    | true =>
      exfalso
      exact h ⟨by simpa using h1, by simpa using h2⟩

/-- first step of the pass at a range `s`: the literal before it loses its `(` and the text after
    it its `)` exactly when the range is parenthesised -/
theorem strip_step (L : Str) (s : Seg) (next : Str) (rest : List Str) (hr : s.r.WF)
    (hp : s.paren = false → ¬ (L.getLast? = some '(' ∧ next.head? = some ')')) :
    stripParensAux (L ++ s.opn) s.r.render ((s.cls ++ next) :: rest)
      = L :: stripParensAux s.r.render next rest := by
  rw [stripParensAux_cons]
  cases hpar : s.paren with
  | true =>
    simp only [Seg.opn, Seg.cls, hpar, if_true, List.cons_append, List.nil_append]
    rw [parenCond_paren L next s.r hr]
    simp
  | false =>
    simp only [Seg.opn, Seg.cls, hpar, Bool.false_eq_true, if_false, List.append_nil, List.nil_append]
    rw [parenCond_plain L s.r.render next (hp hpar)]
    simp

theorem strip_aux (L : Str) (s : Seg) (t : List Seg) (hr : s.r.WF)
    (hcol : ScanWF (s.cls ++ s.lit) t) (hp : ParenWF L (s :: t)) :
    stripParensAux (L ++ s.opn) s.r.render (rawPieces (s.cls ++ s.lit) t)
      = L :: s.r.render :: plainPieces s.lit t := by
  induction t generalizing L s with
  | nil =>
    simp only [rawPieces, plainPieces]
    obtain ⟨hp1, _⟩ := hp
    have := strip_step L s s.lit [] hr (by simpa [nextOpn] using hp1)
    rw [this]
    rfl
  | cons s' t' ih =>
    obtain ⟨hp1, hp2⟩ := hp
    obtain ⟨hcolon', hr', hside', hafter', hrest'⟩ := hcol
    simp only [rawPieces, plainPieces]
    rw [List.append_assoc s.cls, strip_step L s (s.lit ++ s'.opn) _ hr (by simpa [nextOpn] using hp1)]
    -- the literal between `s` and `s'` has no colon
    have hnc : ':' ∉ s.lit ++ s'.opn := by
      intro hm
      apply hcolon'
      simp only [List.mem_append] at hm ⊢
      rcases hm with hm | hm
      · exact Or.inl (Or.inr hm)
      · exact Or.inr hm
    rw [stripParensAux_cons, parenCond_nocolon _ _ _ hnc]
    simp only [Bool.false_eq_true, if_false]
    rw [ih s.lit s' hr' hrest' hp2]

theorem stripParens_item (it : Item) (h : ScanWF it.head it.tail) (hp : ParenWF it.head it.tail) :
    stripParens (rawPieces it.head it.tail) = plainPieces it.head it.tail := by
  cases ht : it.tail with
  | nil => simp [rawPieces, plainPieces, stripParens]
  | cons s t =>
    rw [ht] at h hp
    simp only [rawPieces, plainPieces]
    cases hr : rawPieces (s.cls ++ s.lit) t with
    | nil => cases t <;> simp [rawPieces] at hr
    | cons x xs =>
      unfold stripParens
      rw [← hr]
      exact strip_aux it.head s t h.2.1 h.2.2.2.2 hp

/-! ### the value of a range -/

/-- value of a digit string (0 for the empty string) -/
def digitsVal (s : Str) : Nat := s.foldl (fun acc c => acc * 10 + (c.toNat - 48)) 0

/-- position of a letter in `a…zA…Z` -/
def letterIdx (c : Char) : Nat := if 97 ≤ c.toNat then c.toNat - 97 else c.toNat - 65 + 26

/-- the letter at a position of `a…zA…Z` -/
def letterAt (k : Nat) : Char := Char.ofNat (if k < 26 then 97 + k else 65 + (k - 26))

/-- **denotation of a range**: `a:b` enumerates `a, …, b-1` in decimal (start 0 when omitted);
    `x:y` enumerates the letters from `x` to `y` inclusive in the order `a…zA…Z` (start `a`
    when omitted) -/
def Rng.den : Rng → List Str
  | .num a b =>
      (List.range (digitsVal b - digitsVal a)).map (fun i => Nat.toDigits 10 (digitsVal a + i))
  | .alpha a b =>
      let ia := letterIdx (a.getD 'a')
      (List.range (letterIdx b + 1 - ia)).map (fun i => [letterAt (ia + i)])

theorem digit_not_space {c : Char} (h : isDigit c = true) : isSpace c = false := by
  simp only [isDigit, Bool.and_eq_true, decide_eq_true_eq] at h
  cases hsp : isSpace c with
  | false => rfl
  | true =>
    simp only [isSpace, Bool.or_eq_true, Bool.and_eq_true, decide_eq_true_eq, beq_iff_eq] at hsp
    omega

theorem strip_digits (s : Str) (h : ∀ c ∈ s, isDigit c = true) : strip s = s := by
  cases hs : s with
  | nil => rfl
  | cons d ds =>
    have hne : s ≠ [] := by rw [hs]; simp
    have hl := List.dropLast_concat_getLast hne
    have := strip_core [] [] s.dropLast (s.getLast hne) (by simp) (by simp)
      (digit_not_space (h _ (List.getLast_mem hne)))
      (by intro d' ds' he; rw [hl, hs] at he; injection he with h1 _; subst h1
          exact digit_not_space (h d (by rw [hs]; simp)))
    simp only [List.nil_append, List.append_nil, hl] at this
    rw [← hs]; exact this

theorem natLitAux_digits (s : Str) (acc : Nat) (pd : Bool) (h : ∀ c ∈ s, isDigit c = true)
    (hne : s ≠ [] ∨ pd = true) :
    natLitAux s acc pd = some (s.foldl (fun acc c => acc * 10 + (c.toNat - 48)) acc) := by
  induction s generalizing acc pd with
  | nil =>
    rcases hne with h | h
    · exact absurd rfl h
    · simp [natLitAux, h]
  | cons c cs ih =>
    have hc := h c (by simp)
    simp only [natLitAux, hc, if_true, List.foldl_cons]
    exact ih _ true (fun x hx => h x (by simp [hx])) (Or.inr rfl)

theorem pyInt_digits (s : Str) (h : ∀ c ∈ s, isDigit c = true) (hne : s ≠ []) :
    pyInt s = some (Int.ofNat (digitsVal s)) := by
  unfold pyInt
  rw [strip_digits s h]
  have hl := natLitAux_digits s 0 false h (Or.inl hne)
  cases hs : s with
  | nil => exact absurd hs hne
  | cons d ds =>
    have hd := h d (by rw [hs]; simp)
    have h1 : d ≠ '+' := by intro e; subst e; revert hd; decide
    have h2 : d ≠ '-' := by intro e; subst e; revert hd; decide
    rw [hs] at hl
    split
    · rename_i heq; injection heq with e _; exact absurd e h1
    · rename_i heq; injection heq with e _; exact absurd e h2
    · simp [natLit, hl, digitsVal]

theorem intRange_ofNat (x y : Nat) :
    (intRange (Int.ofNat x) (Int.ofNat y)).map intRepr
      = (List.range (y - x)).map (fun i => Nat.toDigits 10 (x + i)) := by
  unfold intRange
  simp only [Int.ofNat_eq_natCast]
  have : ((y : Int) - (x : Int)).toNat = y - x := by omega
  rw [this, List.map_map]
  apply List.map_congr_left
  intro i _
  simp only [Function.comp, intRepr]
  have hnn : ¬ (((x : Int) + (i : Int)) < 0) := by omega
  have hab : ((x : Int) + (i : Int)).natAbs = x + i := by omega
  simp [hnn, hab]

set_option maxRecDepth 8000 in
theorem subIndex_alpha_aux : ∀ n, n < 123 → isAlpha (Char.ofNat n) = true →
    subIndex [Char.ofNat n] asciiLetters 0 = some (letterIdx (Char.ofNat n)) := by decide

theorem subIndex_alpha (c : Char) (h : isAlpha c = true) :
    subIndex [c] asciiLetters 0 = some (letterIdx c) := by
  have hn : c.toNat < 123 := by
    simp only [isAlpha, Bool.or_eq_true, Bool.and_eq_true, decide_eq_true_eq] at h; omega
  have := subIndex_alpha_aux c.toNat hn (by simpa using h)
  simpa using this

set_option maxRecDepth 8000 in
theorem letters_at : ∀ k, k < 52 → (asciiLetters.drop k).take 1 = [letterAt k] := by decide

theorem letterIdx_lt (c : Char) (h : isAlpha c = true) : letterIdx c < 52 := by
  simp only [isAlpha, Bool.or_eq_true, Bool.and_eq_true, decide_eq_true_eq] at h
  unfold letterIdx
  split <;> omega

theorem getLast?_append_cons (a : Str) (b0 : Char) (b : Str) :
    (a ++ ':' :: b0 :: b).getLast? = (b0 :: b).getLast? := by
  rw [show a ++ ':' :: b0 :: b = (a ++ [':']) ++ (b0 :: b) by simp, List.getLast?_append]
  cases h : (b0 :: b).getLast? with
  | none => simp at h
  | some c => simp

/-- **every range piece enumerates its range** -/
theorem expandPiece_range (r : Rng) (h : r.WF) : expandPiece r.render = .ok r.den := by
  cases r with
  | num a b =>
    obtain ⟨ha, hb, hne⟩ := h
    cases hbs : b with
    | nil => exact absurd hbs hne
    | cons b0 b' =>
      have hbl : ∃ c, (b0 :: b').getLast? = some c ∧ isDigit c = true := by
        refine ⟨(b0 :: b').getLast (by simp), List.getLast?_eq_some_getLast (by simp), ?_⟩
        exact hb _ (by rw [hbs]; exact List.getLast_mem _)
      obtain ⟨cl, hcl, hcld⟩ := hbl
      have hac : ':' ∉ a := fun hm => by have := ha _ hm; simp [colon_not_digit] at this
      have hbc : ':' ∉ b0 :: b' := fun hm => by
        have := hb _ (by rw [hbs]; exact hm); simp [colon_not_digit] at this
      have hsplit : splitOn ':' (a ++ ':' :: b0 :: b') = [a, b0 :: b'] := by
        rw [splitOn_append_sep _ _ _ hac, splitOn_no_sep _ _ hbc]
      have hb' : ∀ c ∈ b0 :: b', isDigit c = true := by rw [← hbs]; exact hb
      unfold expandPiece
      simp only [Rng.render, List.contains_append, List.contains_cons, beq_self_eq_true, Bool.true_or,
        Bool.or_true, if_true, getLast?_append_cons, hcl, hsplit, hcld]
      have hcc : (some cl == some ':') = false := by
        have := digit_ne_colon hcld
        simp [this]
      simp only [hcc, Bool.false_eq_true, if_false]
      have hld : lastIsDigit (b0 :: b') = true := by simp [lastIsDigit, hcl, hcld]
      simp only [hld, if_true, numPiece]
      rw [pyInt_digits _ hb' (by simp)]
      cases has : a with
      | nil =>
        simp only [List.isEmpty_nil, if_true, Rng.den, digitsVal, List.foldl_nil]
        have := intRange_ofNat 0 (digitsVal (b0 :: b'))
        simp only [digitsVal, Nat.sub_zero, Nat.zero_add] at this
        simp only [Nat.sub_zero, Nat.zero_add]
        rw [← this]; rfl
      | cons a0 a' =>
        have ha' : ∀ c ∈ a0 :: a', isDigit c = true := by rw [← has]; exact ha
        simp only [List.isEmpty_cons, Bool.false_eq_true, if_false]
        rw [pyInt_digits _ ha' (by simp)]
        simp only [Rng.den]
        rw [intRange_ofNat]
  | alpha a b =>
    obtain ⟨ha, hb⟩ := h
    have hbd := alpha_not_digit hb
    have hbc := alpha_ne_colon hb
    have hib := subIndex_alpha b hb
    have hlt := letterIdx_lt b hb
    cases a with
    | none =>
      have hsplit : splitOn ':' [':', b] = [[], [b]] := by
        rw [show [':', b] = [] ++ ':' :: [b] by rfl, splitOn_append_sep _ _ _ (by simp),
          splitOn_no_sep _ _ (by simp [Ne.symm hbc])]
      have hia := subIndex_alpha 'a' (by decide)
      unfold expandPiece
      simp only [Rng.render, hsplit]
      have hcc : (some b == some ':') = false := by simp [hbc]
      simp [hcc, hbd, hia, hib, Rng.den, lastIsDigit, alphaPiece]
      intro i hi
      exact letters_at _ (by omega)
    | some a =>
      have haa := ha a rfl
      have hac := alpha_ne_colon haa
      have hsplit : splitOn ':' [a, ':', b] = [[a], [b]] := by
        rw [show [a, ':', b] = [a] ++ ':' :: [b] by rfl, splitOn_append_sep _ _ _ (by simp [Ne.symm hac]),
          splitOn_no_sep _ _ (by simp [Ne.symm hbc])]
      have hia := subIndex_alpha a haa
      unfold expandPiece
      simp only [Rng.render, hsplit]
      have hcc : (some b == some ':') = false := by simp [hbc]
      simp [hcc, hbd, hia, hib, Rng.den, lastIsDigit, alphaPiece]
      intro i hi
      exact letters_at _ (by omega)

theorem expandPiece_lit (L : Str) (h : ':' ∉ L) : expandPiece L = .ok [L] := by
  unfold expandPiece
  simp [h]

/-! ### the product -/

/-- `[a ++ b | a ← A, b ← B]` -/
def cat (A B : List Str) : List Str := A.flatMap (fun a => B.map (fun b => a ++ b))

/-- **denotation of an item**: concatenation product of the literal pieces and the ranges -/
def denFrom : Str → List Seg → List Str
  | L, [] => [L]
  | L, s :: t => cat [L] (cat s.r.den (denFrom s.lit t))

def Item.den (it : Item) : List Str := denFrom it.head it.tail

def Item.hasRange (it : Item) : Bool := !it.tail.isEmpty

/-- the pieces after expansion -/
def expandedFrom : Str → List Seg → List (List Str)
  | L, [] => [[L]]
  | L, s :: t => [L] :: s.r.den :: expandedFrom s.lit t

def allNonEmpty : List Seg → Bool
  | [] => true
  | s :: t => !s.r.den.isEmpty && allNonEmpty t

def LitWF : Str → List Seg → Prop
  | L, [] => ':' ∉ L
  | L, s :: t => ':' ∉ L ∧ s.r.WF ∧ LitWF s.lit t

theorem litWF_of_scanWF (L0 L : Str) (t : List Seg) (h : ScanWF (L0 ++ L) t) : LitWF L t := by
  induction t generalizing L0 L with
  | nil => exact fun hm => h (by simp [ScanWF, hm])
  | cons s t ih =>
    obtain ⟨hc, hr, _, _, hrest⟩ := h
    exact ⟨fun hm => hc (by simp [hm]), hr, ih s.cls s.lit hrest⟩

theorem expandPieces_plain (L : Str) (t : List Seg) (h : LitWF L t) :
    expandPieces (plainPieces L t)
      = .ok (if allNonEmpty t then some (expandedFrom L t) else none) := by
  induction t generalizing L with
  | nil => simp [plainPieces, expandPieces, expandPiece_lit L h, allNonEmpty, expandedFrom]
  | cons s t ih =>
    obtain ⟨hc, hr, hrest⟩ := h
    cases h1 : s.r.den.isEmpty <;> cases h2 : allNonEmpty t <;>
      simp [plainPieces, expandPieces, expandPiece_lit L hc, expandPiece_range s.r hr,
        ih s.lit hrest, allNonEmpty, expandedFrom, h1, h2]

theorem cartes_expanded (L : Str) (t : List Seg) : cartes (expandedFrom L t) = denFrom L t := by
  induction t generalizing L with
  | nil => simp [expandedFrom, cartes, denFrom]
  | cons s t ih =>
    simp only [expandedFrom, cartes, denFrom, cat, ih]

theorem denFrom_empty (L : Str) (t : List Seg) (h : allNonEmpty t = false) : denFrom L t = [] := by
  induction t generalizing L with
  | nil => simp [allNonEmpty] at h
  | cons s t ih =>
    simp only [allNonEmpty, Bool.and_eq_false_iff, Bool.not_eq_false'] at h
    rcases h with h | h
    · have : s.r.den = [] := by simpa using h
      simp [denFrom, cat, this]
    · simp [denFrom, cat, ih s.lit h]

theorem cat_ne_nil (A B : List Str) (hA : A ≠ []) (hB : B ≠ []) : cat A B ≠ [] := by
  cases A with
  | nil => exact absurd rfl hA
  | cons a A =>
    cases B with
    | nil => exact absurd rfl hB
    | cons b B => simp [cat]

theorem denFrom_nonempty (L : Str) (t : List Seg) (h : allNonEmpty t = true) : denFrom L t ≠ [] := by
  induction t generalizing L with
  | nil => simp [denFrom]
  | cons s t ih =>
    simp only [allNonEmpty, Bool.and_eq_true, Bool.not_eq_true'] at h
    have h1 : s.r.den ≠ [] := by simpa using h.1
    have h2 := ih s.lit h.2
    simp only [denFrom]
    exact cat_ne_nil _ _ (by simp) (cat_ne_nil _ _ h1 h2)

/-- all side conditions of a well-formed item -/
def Item.WF (it : Item) : Prop := ScanWF it.head it.tail ∧ ParenWF it.head it.tail

theorem renderFrom_colon (L : Str) (s : Seg) (t : List Seg) : ':' ∈ renderFrom L (s :: t) := by
  have : s.r.render.contains ':' = true := by
    cases s.r with
    | num a b => simp [Rng.render]
    | alpha a b => cases a <;> simp [Rng.render]
  simp only [renderFrom, List.mem_append]
  exact Or.inr (Or.inl (by simpa using this))

theorem renderFrom_ne_nil_of (L : Str) (t : List Seg) (h : L ≠ [] ∨ t ≠ []) : renderFrom L t ≠ [] := by
  cases t with
  | nil => rcases h with h | h; simpa [renderFrom] using h; exact absurd rfl h
  | cons s t =>
    intro he
    have := renderFrom_colon L s t
    rw [he] at this
    cases this

/-- **one name**: a well-formed item expands to its denotation; the sequence flag is switched
    on exactly when the item has a range and its denotation is not empty -/
theorem expandName_item (it : Item) (h : it.WF) (hne : it.head ≠ [] ∨ it.tail ≠ []) :
    expandName [] it.render = .ok (it.den, it.hasRange && !it.den.isEmpty) := by
  obtain ⟨hs, hp⟩ := h
  have hrne : it.render.isEmpty = false := by
    have := renderFrom_ne_nil_of it.head it.tail hne
    simpa [Item.render] using this
  unfold expandName
  simp only [hrne, Bool.false_eq_true, if_false]
  cases ht : it.tail with
  | nil =>
    have hc : ':' ∉ it.head := by rw [ht] at hs; exact hs
    simp [Item.render, ht, renderFrom, hc, literal_nil, Item.den, denFrom, Item.hasRange]
  | cons s t =>
    have hcol : it.render.contains ':' = true := by
      simpa [Item.render, ht] using renderFrom_colon it.head s t
    simp only [hcol, Bool.not_true, Bool.false_eq_true, if_false]
    rw [rangeSplit_item it hs, stripParens_item it hs hp]
    have hl : LitWF it.head it.tail := litWF_of_scanWF [] it.head it.tail (by simpa using hs)
    rw [expandPieces_plain it.head it.tail hl, ht]
    cases hall : allNonEmpty (s :: t) with
    | false =>
      simp [Item.den, ht, denFrom_empty it.head (s :: t) hall]
    | true =>
      have hne' := denFrom_nonempty it.head (s :: t) hall
      simp only [if_true]
      have hlit : ∀ l : List Str, l.map (literal []) = l := by
        intro l
        have : literal [] = id := funext literal_nil
        rw [this, List.map_id]
      simp only [expandedFrom, hlit]
      have := cartes_expanded it.head (s :: t)
      simp only [expandedFrom] at this
      rw [this]
      simp [Item.den, ht, Item.hasRange, hne']

end Sympde.Pat
