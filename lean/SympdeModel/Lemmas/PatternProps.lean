/-
  Helper definitions and lemmas for C20, part 5: the shape of the result, the loop over the
  names of a list of items, the kinds of error a piece / a name can raise, and the element
  constructors.  (Props/C20.lean holds the property theorems only.)
-/
import SympdeModel.Lemmas.PatternLayout
import SympdeModel.Lemmas.PatternItem
namespace Sympde.Pat

/-- a well-formed item that can stand as a name of a layout -/
def Item.Good (it : Item) : Prop :=
  it.WF ∧ (it.head ≠ [] ∨ it.tail ≠ [])

/-- whether the item switches the sequence flag on (utils.py:141) -/
def Item.setsSeq (it : Item) : Bool := it.hasRange && !it.den.isEmpty

/-- **the shape of the result** (independent description of utils.py:151-156): nothing → `()`;
    one name and no sequence flag → the bare name; otherwise a tuple -/
def shape (seq : Bool) : List Str → Res
  | [] => .cont .tuple []
  | [x] => if seq then .cont .tuple [.name x] else .name x
  | xs => .cont .tuple (xs.map .name)

theorem finish_eq_shape (seq : Bool) (xs : List Str) : finish seq xs = shape seq xs := by
  cases xs with
  | nil => cases seq <;> simp [finish, shape]
  | cons x xs =>
    cases xs with
    | nil => cases seq <;> simp [finish, shape]
    | cons y ys => cases seq <;> simp [finish, shape]

theorem expandNames_items (items : List Item) (h : ∀ it ∈ items, it.Good) :
    expandNames [] (items.map Item.render)
      = .ok (items.flatMap Item.den, items.any Item.setsSeq) := by
  induction items with
  | nil => rfl
  | cons it its ih =>
    have hg := h it (by simp)
    have := ih (fun x hx => h x (by simp [hx]))
    simp only [List.map_cons, expandNames, expandName_item it hg.1 hg.2, this, List.flatMap_cons,
      List.any_cons, Item.setsSeq]

theorem cat_length (A B : List Str) : (cat A B).length = A.length * B.length := by
  induction A with
  | nil => simp [cat]
  | cons a A ih =>
    simp only [cat, List.flatMap_cons, List.length_append, List.length_map, List.length_cons] at ih ⊢
    rw [ih, Nat.succ_mul]; omega

theorem numPiece_error (a b : Str) (e : Err) (h : numPiece a b = .error e) : e = .badRange := by
  unfold numPiece at h
  split at h
  · cases h
  · injection h with h; exact h.symm

theorem alphaPiece_error (a b : Str) (e : Err) (h : alphaPiece a b = .error e) : e = .badRange := by
  unfold alphaPiece at h
  split at h
  · cases h
  · injection h with h; exact h.symm

theorem expandPiece_errors (p : Str) (e : Err) (h : expandPiece p = .error e) :
    ':' ∈ p ∧ (e = .missingEndRange ∨ e = .badRange) := by
  by_cases hc : ':' ∈ p
  · refine ⟨hc, ?_⟩
    unfold expandPiece at h
    split at h
    · split at h
      · injection h with h; exact Or.inl h.symm
      · split at h
        · split at h
          · exact Or.inr (numPiece_error _ _ _ h)
          · exact Or.inr (alphaPiece_error _ _ _ h)
        · injection h with h; exact Or.inr h.symm
    · cases h
  · simp [expandPiece, hc] at h

theorem expandPieces_errors (ps : List Str) (e : Err) (h : expandPieces ps = .error e) :
    ∃ p ∈ ps, expandPiece p = .error e := by
  induction ps with
  | nil => simp [expandPieces] at h
  | cons p ps ih =>
    unfold expandPieces at h
    cases hp : expandPiece p with
    | error e' =>
      simp only [hp] at h
      injection h with h; subst h
      exact ⟨p, by simp, hp⟩
    | ok xs =>
      simp only [hp] at h
      split at h
      · cases h
      · cases hr : expandPieces ps with
        | error e' =>
          simp only [hr] at h
          injection h with h; subst h
          obtain ⟨q, hq, hqe⟩ := ih hr
          exact ⟨q, by simp [hq], hqe⟩
        | ok r =>
          simp only [hr] at h
          cases r <;> simp at h

theorem expandName_errors (lits : List (Char × Str)) (n : Str) (e : Err)
    (h : expandName lits n = .error e) :
    (n = [] ∧ e = .missingSymbol) ∨
    (n ≠ [] ∧ ∃ p ∈ stripParens (rangeSplit n), expandPiece p = .error e) := by
  unfold expandName at h
  split at h
  · rename_i hn
    injection h with h
    exact Or.inl ⟨by simpa using hn, h.symm⟩
  · rename_i hn
    split at h
    · cases h
    · cases hp : expandPieces (stripParens (rangeSplit n)) with
      | error e' =>
        simp only [hp] at h
        injection h with h; subst h
        exact Or.inr ⟨by simpa using hn, expandPieces_errors _ _ hp⟩
      | ok r =>
        simp only [hp] at h
        cases r <;> simp at h

theorem expandNames_errors (lits : List (Char × Str)) (ns : List Str) (e : Err)
    (h : expandNames lits ns = .error e) : ∃ n ∈ ns, expandName lits n = .error e := by
  induction ns with
  | nil => simp [expandNames] at h
  | cons n ns ih =>
    unfold expandNames at h
    cases hn : expandName lits n with
    | error e' =>
      simp only [hn] at h
      injection h with h; subst h
      exact ⟨n, by simp, hn⟩
    | ok r =>
      simp only [hn] at h
      cases hr : expandNames lits ns with
      | error e' =>
        simp only [hr] at h
        injection h with h; subst h
        obtain ⟨m, hm, hme⟩ := ih hr
        exact ⟨m, by simp [hm], hme⟩
      | ok r' => simp only [hr] at h; cases h

/-- a scalar or vector function space -/
def Space.isFn : Space → Bool
  | .scalar _ => true
  | .vector _ => true
  | _ => false

/-- the function of that name in a scalar / vector space -/
def Space.mk : Space → Str → Elem
  | .scalar v, n => .fn false n v
  | .vector v, n => .fn true n v
  | _, n => .fn false n ""

theorem element_fn (sp : Space) (h : sp.isFn = true) (n : Str) : sp.element n = .ok (sp.mk n) := by
  cases sp <;> simp_all [Space.isFn, Space.element, Space.mk]

theorem recElemZip_names (sps : List Space) (hs : ∀ sp ∈ sps, sp.isFn = true) (names : List Str) :
    recElemZip sps (names.map .name) = .ok (List.zipWith Space.mk sps names) := by
  induction sps generalizing names with
  | nil => simp [recElemZip]
  | cons sp sps ih =>
    cases names with
    | nil => simp [recElemZip]
    | cons n ns =>
      simp [recElemZip, recElem, element_fn sp (hs sp (by simp)), ih (fun x hx => hs x (by simp [hx])) ns]

theorem recElemsAll_names (sp : Space) (h : sp.isFn = true) (names : List Str) :
    recElemsAll sp (names.map .name) = .ok (names.map sp.mk) := by
  induction names with
  | nil => simp [recElemsAll]
  | cons n ns ih => simp [recElemsAll, recElems, element_fn sp h, ih]

end Sympde.Pat
