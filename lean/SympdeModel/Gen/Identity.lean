/-
  GENERATED on every run by harness/translate/identity.py from the live sympde classes; do not edit.
  One row per (class, constructor attribute): two instances differing only there - do they compare ==,
  do their hashes agree, and which cached entry points give different (uncached) results on them.
-/
import SympdeModel.Model.Memo
namespace Sympde.Gen
open Sympde.Memo

def identity : List Row := [
  ⟨"Domain", "dim", true, true, ["dom_grad", "dom_form"]⟩,
  ⟨"Domain", "name", false, false, ["dom_form"]⟩,
  ⟨"InteriorDomain", "dim", true, true, []⟩,
  ⟨"InteriorDomain", "name", false, false, []⟩,
  ⟨"Square", "lo", true, false, ["dom_dict"]⟩,
  ⟨"Square", "name", false, false, ["dom_dict"]⟩,
  ⟨"MappedDomain", "lo", true, false, ["dom_dict"]⟩,
  ⟨"MappedDomain", "mname", false, false, ["dom_logical", "dom_dict"]⟩,
  ⟨"MappedDomain", "mtype", false, false, ["dom_logical"]⟩,
  ⟨"MappedDomain", "name", false, false, ["dom_dict"]⟩,
  ⟨"Boundary", "axis", false, false, []⟩,
  ⟨"Boundary", "ext", false, false, []⟩,
  ⟨"ScalarFunctionSpace", "dim", true, true, ["sp_grad"]⟩,
  ⟨"ScalarFunctionSpace", "dname", true, false, []⟩,
  ⟨"ScalarFunctionSpace", "kind", true, false, ["sp_grad"]⟩,
  ⟨"ScalarFunctionSpace", "name", true, false, []⟩,
  ⟨"VectorFunctionSpace", "dname", true, false, []⟩,
  ⟨"VectorFunctionSpace", "kind", true, false, ["vsp_div"]⟩,
  ⟨"VectorFunctionSpace", "lo", true, false, []⟩,
  ⟨"VectorFunctionSpace", "mname", true, false, ["vsp_div"]⟩,
  ⟨"VectorFunctionSpace", "name", true, false, []⟩,
  ⟨"ScalarFunction", "dim", true, true, ["fn_terminal"]⟩,
  ⟨"ScalarFunction", "dname", true, false, []⟩,
  ⟨"ScalarFunction", "kind", true, false, ["fn_terminal"]⟩,
  ⟨"ScalarFunction", "name", false, false, ["fn_terminal", "fn_symbolic", "fn_dx"]⟩,
  ⟨"ScalarFunction", "sname", true, false, []⟩,
  ⟨"VectorFunction", "kind", true, false, ["fn_logical"]⟩,
  ⟨"VectorFunction", "mname", true, false, ["fn_logical"]⟩,
  ⟨"VectorFunction", "name", false, false, ["fn_terminal", "fn_logical"]⟩,
  ⟨"VectorFunction", "sname", true, false, []⟩,
  ⟨"Mapping", "name", false, false, ["map_logical"]⟩,
  ⟨"PolarMapping", "c1", false, false, []⟩,
  ⟨"PolarMapping", "name", false, false, ["map_logical"]⟩,
  ⟨"PolarMapping", "rmax", false, false, ["map_logical"]⟩,
  ⟨"Constant", "name", false, false, ["const_dx"]⟩,
  ⟨"Constant", "real", false, false, ["const_dx"]⟩,
  ⟨"DifferentialForm", "dim", false, false, ["form_hodge"]⟩,
  ⟨"DifferentialForm", "index", false, false, ["form_hodge"]⟩,
  ⟨"DifferentialForm", "name", false, false, ["form_hodge"]⟩,
  ⟨"EssentialBC", "face", false, false, ["bc_equation"]⟩,
  ⟨"EssentialBC", "rhs", false, false, ["bc_equation"]⟩
]

end Sympde.Gen
