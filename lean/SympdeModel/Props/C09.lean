/-
  C09 — linearisation of a nonlinear form is its Gateaux derivative.

  Specification: evaluate the integrand over the dual numbers K[ε]/(ε²) (Mathlib's
  `DualNumber K`) with every field u replaced by u + ε·du; by definition of the ring, the
  ε-coefficient of the result is d/dε g(u + ε du) at ε = 0 for polynomial integrands, and for
  elementary functions the first-order Taylor law f(a + εb) = f(a) + ε f'(a) b is used.
  Theorem: the expression returned by the model of `linearize` (`Lin.gd`) denotes exactly that
  coefficient, and the original integrand the ε⁰ coefficient — for every integrand of the
  fragment (fields, vector components, derivatives of any order, sums, n-ary products,
  integer powers, elementary functions) in every differential ring.
-/
import Mathlib.Algebra.DualNumber
import SympdeModel.Model.Linearize
import SympdeModel.Lemmas.PDeriv
namespace Sympde.Lin
open E
open TrivSqZeroExt (inl inr fst snd)

variable {K : Type} [CommRing K] [Algebra ℚ K]

/-- interpretation of the fields' directions: the direction of a scalar field named n is the
    scalar function named `d`, etc. (read off the same structure S) -/
def dual (a b : K) : DualNumber K := inl a + inr b

@[simp] theorem fst_dual (a b : K) : (dual a b).fst = a := by simp [dual]
@[simp] theorem snd_dual (a b : K) : (dual a b).snd = b := by simp [dual]

mutual
/-- evaluation over the dual numbers with u ↦ u + ε du -/
def evalD (S : DRing K) (ds : Dirs) : E → DualNumber K
  | num p q => inl (algebraMap ℚ K ((p : ℚ) / (q : ℚ)))
  | cst s => inl (S.cst s)
  | sym s => inl (S.sym s)
  | sf n _ => match dirOf ds n with
      | some d => dual (S.sf n) (S.sf d)
      | none => inl (S.sf n)
  | idx (vf n _) i => match dirOf ds n with
      | some d => dual (S.vf n i) (S.vf d i)
      | none => inl (S.vf n i)
  | E.add as => evalDSum S ds as
  | E.mul as => evalDProd S ds as
  | pow b (num (Int.ofNat n) 1) => evalD S ds b ^ n
  | fn f a => dual (S.fn f (evalD S ds a).fst) (S.fn' f (evalD S ds a).fst * (evalD S ds a).snd)
  | pd c a => dual (S.D c (evalD S ds a).fst) (S.D c (evalD S ds a).snd)
  | _ => 0
def evalDSum (S : DRing K) (ds : Dirs) : List E → DualNumber K
  | [] => 0
  | a :: as => evalD S ds a + evalDSum S ds as
def evalDProd (S : DRing K) (ds : Dirs) : List E → DualNumber K
  | [] => 1
  | a :: as => evalD S ds a * evalDProd S ds as
end

mutual
/-- the fragment: scalar terminal expressions with natural-number literal exponents -/
def Frag : E → Bool
  | num _ _ => true
  | cst _ => true
  | sym _ => true
  | sf _ _ => true
  | idx (vf _ _) _ => true
  | E.add as => FragList as
  | E.mul as => FragList as
  | pow b (num (Int.ofNat _) 1) => Frag b
  | fn f a => knownFn f && Frag a
  | pd _ a => Frag a
  | _ => false
def FragList : List E → Bool
  | [] => true
  | a :: as => Frag a && FragList as
end

theorem FragList_iff (as : List E) : FragList as = as.all Frag := by
  induction as with
  | nil => simp [FragList]
  | cons a as ih => simp [FragList, ih]

theorem gdList_eq (ds : Dirs) (as : List E) : gdList ds as = as.map (gd ds) := by
  induction as with
  | nil => simp [gdList]
  | cons a as ih => simp [gdList, ih]

/-- value of the Leibniz sum: (Π pre) · L(l) with L([]) = 0, L((a,a') :: r) = a'·Π r + a·L(r) -/
def leibVal (S : DRing K) : List (E × E) → K
  | [] => 0
  | (a, da) :: rest =>
      den S da 0 0 * denProd S (rest.map (·.1)) 0 0 + den S a 0 0 * leibVal S rest

theorem denProd_append (S : DRing K) (xs ys : List E) (i j : Nat) :
    denProd S (xs ++ ys) i j = denProd S xs i j * denProd S ys i j := by
  induction xs with
  | nil => simp [denProd]
  | cons x xs ih => simp only [List.cons_append, denProd, ih]; ring

theorem den_leibniz (S : DRing K) (pre : List E) (l : List (E × E)) :
    denSum S (leibniz pre l) 0 0 = denProd S pre 0 0 * leibVal S l := by
  induction l generalizing pre with
  | nil => simp [leibniz, denSum, leibVal]
  | cons p rest ih =>
    obtain ⟨a, da⟩ := p
    simp only [leibniz, denSum, leibVal, den]
    rw [ih (pre ++ [a]), denProd_append, denProd_append, denProd_append]
    simp only [denProd, mul_one]
    ring

/-- **Gateaux derivative.**  Over the dual numbers with u ↦ u + ε du, the ε⁰ coefficient of the
    integrand is the integrand and the ε¹ coefficient is what the model of `linearize` returns. -/
theorem gateaux_dual (S : DRing K) (T : FnTable S) (ds : Dirs) (e : E) (hf : Frag e = true) :
    (evalD S ds e).fst = den S e 0 0 ∧ (evalD S ds e).snd = den S (gd ds e) 0 0 := by
  induction e using E.rec
    (motive_2 := fun as => ∀ a ∈ as, Frag a = true →
      (evalD S ds a).fst = den S a 0 0 ∧ (evalD S ds a).snd = den S (gd ds a) 0 0) with
  | num p q => simp [evalD, den, gd, E.zero]
  | cst s => simp [evalD, den, gd, E.zero]
  | sym s => simp [evalD, den, gd, E.zero]
  | sf n k =>
    simp only [evalD, gd]
    split <;> rename_i h <;> simp [h, den, E.zero]
  | idx b i _ =>
    cases b with
    | vf n k =>
      simp only [evalD, gd, hasField]
      split <;> rename_i h <;> simp [h, den, E.zero]
    | _ => simp [Frag] at hf
  | add as ih =>
    simp only [Frag, FragList_iff, List.all_eq_true] at hf
    simp only [evalD, gd, den, gdList_eq]
    have key : ∀ (l : List E), (∀ a ∈ l, a ∈ as) →
        (evalDSum S ds l).fst = denSum S l 0 0 ∧ (evalDSum S ds l).snd = denSum S (l.map (gd ds)) 0 0 := by
      intro l
      induction l with
      | nil => intro _; simp [evalDSum, denSum]
      | cons a l ihl =>
        intro hl
        have ha := ih a (hl a (by simp)) (hf a (hl a (by simp)))
        have hr := ihl (fun x hx => hl x (by simp [hx]))
        simp only [evalDSum, List.map, denSum, TrivSqZeroExt.fst_add, TrivSqZeroExt.snd_add]
        rw [ha.1, ha.2, hr.1, hr.2]
        exact ⟨rfl, rfl⟩
    exact key as (fun a ha => ha)
  | mul as ih =>
    simp only [Frag, FragList_iff, List.all_eq_true] at hf
    simp only [evalD, gd, den, gdList_eq]
    rw [den_leibniz]
    simp only [denProd, one_mul]
    have key : ∀ (l : List E), (∀ a ∈ l, a ∈ as) →
        (evalDProd S ds l).fst = denProd S l 0 0 ∧
        (evalDProd S ds l).snd = leibVal S (l.zip (l.map (gd ds))) := by
      intro l
      induction l with
      | nil => intro _; simp [evalDProd, denProd, leibVal]
      | cons a l ihl =>
        intro hl
        have ha := ih a (hl a (by simp)) (hf a (hl a (by simp)))
        have hr := ihl (fun x hx => hl x (by simp [hx]))
        simp only [evalDProd, List.map, List.zip_cons_cons, denProd, leibVal,
          TrivSqZeroExt.fst_mul, TrivSqZeroExt.snd_mul]
        rw [ha.1, ha.2, hr.1, hr.2, zip_map_fst _ _ (by simp)]
        refine ⟨rfl, ?_⟩
        simp only [smul_eq_mul, MulOpposite.smul_eq_mul_unop, MulOpposite.unop_op]
        ring
    exact key as (fun a ha => ha)
  | pow b e ihb _ =>
    -- natural-number literal exponent
    cases e with
    | num p q =>
      cases p with
      | ofNat n =>
        match q, hf with
        | 1, hf =>
          simp only [Frag] at hf
          have hb := ihb hf
          have hl : PD.intLit (num (Int.ofNat n) 1) = some (Int.ofNat n) := rfl
          simp only [evalD, gd, hl]
          constructor
          · rw [TrivSqZeroExt.fst_pow, hb.1]
            simp [den, powSem, PD.intLit]
          · rw [TrivSqZeroExt.snd_pow, hb.1, hb.2]
            simp only [den, denProd, mul_one]
            have hp : ∀ y, powSem S (den S b 0 0) (num (Int.ofNat n - 1) 1) y
                = if n = 0 then S.inv (den S b 0 0) else den S b 0 0 ^ (n - 1) := by
              intro y
              cases n with
              | zero =>
                have : (Int.ofNat 0 - 1 : Int) = -1 := by decide
                rw [this, powSem_neg_one]; simp
              | succ k =>
                have : (Int.ofNat (k + 1) - 1 : Int) = Int.ofNat k := by simp
                rw [this]; simp [powSem, PD.intLit]
            simp only [hp]
            cases n with
            | zero => simp
            | succ k => simp [smul_eq_mul, nsmul_eq_mul]
        | 0, hf => simp [Frag] at hf
        | (q + 2), hf => simp [Frag] at hf
      | negSucc n => simp [Frag] at hf
    | _ => simp [Frag] at hf
  | fn f a iha =>
    simp only [Frag, Bool.and_eq_true] at hf
    have ha := iha hf.2
    simp only [evalD, gd, fst_dual, snd_dual, den, denProd, mul_one]
    rw [ha.1, ha.2, den_fnDeriv S T f a 0 0 hf.1]
    exact ⟨rfl, rfl⟩
  | pd c a iha =>
    simp only [Frag] at hf
    have ha := iha hf
    simp only [evalD, gd, fst_dual, snd_dual, den]
    rw [ha.1, ha.2]
    exact ⟨rfl, rfl⟩
  | nil => cases ‹_ ∈ []›
  | cons a as iha ihas =>
    rename_i x hx hfx
    rcases List.mem_cons.mp hx with rfl | hx
    · exact iha hfx
    · exact ihas x hx hfx
  | _ => simp [Frag] at hf

/-- the ε¹ coefficient alone (the statement used by the check) -/
theorem linearize_is_gateaux (S : DRing K) (T : FnTable S) (ds : Dirs) (e : E) (hf : Frag e = true) :
    den S (gd ds e) 0 0 = (evalD S ds e).snd := (gateaux_dual S T ds e hf).2.symm

/-- an integrand that does not mention the field has derivative zero (so its integral is dropped) -/
theorem gd_const (ds : Dirs) (p : Int) (q : Nat) (s : String) :
    gd ds (num p q) = zero ∧ gd ds (cst s) = zero ∧ gd ds (sym s) = zero := by
  simp [gd]

/-! non-vacuity: g(u) = u² · dx(u),  dg = 2 u du dx(u) + u² dx(du) -/
example : Frag (mul [pow (sf "u" .h1) (num 2 1), pd .x (sf "u" .h1)]) = true := by decide
example : gd [("u", "du")] (mul [pow (sf "u" .h1) (num 2 1), pd .x (sf "u" .h1)])
    = add [mul [mul [num 2 1, pow (sf "u" .h1) (num 1 1), sf "du" .h1], pd .x (sf "u" .h1)],
           mul [pow (sf "u" .h1) (num 2 1), pd .x (sf "du" .h1)]] := by rfl

end Sympde.Lin
