/-
  C20 — name patterns expand exactly like sympy.symbols and shape the created elements.
  Property theorems only.  Model: Model/Pattern.lean (`expandStr`/`expand` =
  expand_name_patterns, `elementOf`/`elementsOf` = element_of/elements_of).  The grammar of
  well-formed patterns (`Layout`, `Item`, `Rng`), its independent denotation (`Item.den`,
  `Rng.den`, `shape`) and the helper lemmas are in Lemmas/Pattern*.lean.

  The agreement of the *implementation* with sympy.symbols is established by the three-way
  correspondence run and the oracle (sympy's source is not modelled a second time).
-/
import SympdeModel.Lemmas.PatternProps
import SympdeModel.Lemmas.PatternEscape
namespace Sympde.Pat

/-- **expand_spec** — on the grammar of well-formed patterns (names separated by commas and/or
    blanks, optional padding and trailing comma; every name a literal text interleaved with
    numeric / alphabetic ranges, optionally parenthesised) the model returns exactly the
    denotation: the concatenation, in order, of the concatenation-products of the items, in the
    shape decided by the sequence flag (explicit, else trailing comma), a range that expanded,
    and the number of names. -/
theorem expand_spec (p : Layout) (items : List Item) (hp : p.WF)
    (hn : p.names = items.map Item.render) (hi : ∀ it ∈ items, it.Good) (seq : Option Bool) :
    expandStr (match seq with | none => .none | some b => .some b) p.render
      = .ok (shape (seq.getD p.tcomma.isSome || items.any Item.setsSeq) (items.flatMap Item.den)) := by
  rw [expandStr_layout p hp, hn, expandNames_items items hi]
  cases seq with
  | none => simp [finish_eq_shape]
  | some b => simp [finish_eq_shape]

/-- length of the enumeration of a range: `b - a` numbers, `idx b + 1 - idx a` letters -/
theorem range_length (r : Rng) :
    r.den.length = match r with
      | .num a b => digitsVal b - digitsVal a
      | .alpha a b => letterIdx b + 1 - letterIdx (a.getD 'a') := by
  cases r <;> simp [Rng.den]

/-- **length formula**: an item yields the product of the lengths of its ranges -/
theorem den_length (it : Item) :
    it.den.length = (it.tail.map (fun s => s.r.den.length)).foldr (· * ·) 1 := by
  obtain ⟨head, tail⟩ := it
  simp only [Item.den]
  induction tail generalizing head with
  | nil => simp [denFrom]
  | cons s t ih =>
    simp only [denFrom, cat_length, List.length_cons, List.length_nil, ih s.lit, List.map_cons,
      List.foldr_cons]
    omega

/-- **order**: the first range varies slowest — the names of `head r lit …` are, for every value
    of `r` in order, the names of the remainder prefixed by `head` and that value -/
theorem den_order (head : Str) (s : Seg) (t : List Seg) :
    Item.den ⟨head, s :: t⟩
      = s.r.den.flatMap (fun x => (Item.den ⟨s.lit, t⟩).map (fun y => head ++ (x ++ y))) := by
  simp [Item.den, denFrom, cat, List.map_flatMap, List.flatMap_map, Function.comp_def]

/-- **escapes** — a name written with unescaped characters (no blank, comma, colon, backslash, nor
    one of the code points 0-2, which serve as markers) and the escapes `\\,` `\\:` `\\ ` expands
    to the single name in which every escape stands for the escaped character: the escaped
    comma, colon and blank neither separate names nor start a range. -/
theorem expand_escaped (ts : List Tok) (hne : ts ≠ []) (hpl : ∀ c, Tok.plain c ∈ ts → PlainOK c) :
    expandStr .none (renderToks ts) = .ok (.name (ts.map Tok.value)) :=
  expandStr_escaped ts hne hpl

/-! ### errors -/

/-- 'missing end range' is raised by exactly the pieces that end with a colon -/
theorem piece_missing_end (p : Str) :
    expandPiece p = .error .missingEndRange ↔ p.getLast? = some ':' := by
  constructor
  · intro h
    unfold expandPiece at h
    split at h
    · split at h
      · rename_i hl; simpa using hl
      · exfalso
        split at h
        · split at h
          · cases numPiece_error _ _ _ h
          · cases alphaPiece_error _ _ _ h
        · injection h with h; cases h
    · cases h
  · intro h
    have hc : ':' ∈ p := List.mem_of_getLast? h
    unfold expandPiece
    simp [hc, h]

/-- **expand_errors** — for every string and every `seq` argument, the model fails only in the
    listed ways and exactly in the listed cases: `b` being the text after escape replacement,
    `strip` and removal of one trailing comma,
    * 'no symbols given'  ⇔  `b` is empty;
    * 'missing symbol between commas'  ⇔  `b` is not empty and some comma-separated field is blank;
    * `TypeError`  ⇔  neither of these and `seq` is not a bool;
    * 'missing symbol' (utils.py:107) is never raised;
    * any other failure is a `ValueError` raised by a piece containing a colon of one of the
      blank-separated names: 'missing end range' iff that piece ends with the colon, else a
      malformed range (several colons, non-integer bound, non-letter bound). -/
theorem expand_errors (seq : SeqArg) (s : Str) :
    let b := (body (escapeAll s).names).1
    let fields := (splitOn ',' b).map strip
    let names := fields.flatMap splitWs
    (expandStr seq s = .error .noSymbols ↔ b = []) ∧
    (expandStr seq s = .error .missingComma ↔ b ≠ [] ∧ [] ∈ fields) ∧
    (expandStr seq s = .error .seqType ↔ b ≠ [] ∧ [] ∉ fields ∧ seq = .bad) ∧
    expandStr seq s ≠ .error .missingSymbol ∧
    (∀ e, expandStr seq s = .error e → e ≠ .noSymbols → e ≠ .missingComma → e ≠ .seqType →
      (e = .missingEndRange ∨ e = .badRange) ∧
      ∃ n ∈ names, ∃ p ∈ stripParens (rangeSplit n), ':' ∈ p ∧ expandPiece p = .error e) := by
  intro b fields names
  have key : expandStr seq s =
      if b.isEmpty then .error .noSymbols
      else if fields.any (·.isEmpty) then .error .missingComma
      else match (match seq with | .none => some (body (escapeAll s).names).2 | .some x => some x | .bad => none) with
        | none => .error .seqType
        | some seq0 =>
          match expandNames (escapeAll s).lits names with
          | .error e => .error e
          | .ok (result, sq) => .ok (finish (seq0 || sq) result) := rfl
  have hnames : ∀ e, expandNames (escapeAll s).lits names = .error e →
      (e = .missingEndRange ∨ e = .badRange) ∧
      ∃ n ∈ names, ∃ p ∈ stripParens (rangeSplit n), ':' ∈ p ∧ expandPiece p = .error e := by
    intro e he
    obtain ⟨n, hn, hne⟩ := expandNames_errors _ _ _ he
    rcases expandName_errors _ _ _ hne with ⟨hnil, _⟩ | ⟨_, p, hp, hpe⟩
    · -- names produced by `split()` are never empty
      obtain ⟨f, _, hf⟩ := List.mem_flatMap.mp hn
      exact absurd hnil (splitWs_nonempty f n hf)
    · have := expandPiece_errors p e hpe
      exact ⟨this.2, n, hn, p, hp, this.1, hpe⟩
  have hfields : fields.any (·.isEmpty) = true ↔ [] ∈ fields := by
    simp only [List.any_eq_true, List.isEmpty_iff]
    constructor
    · rintro ⟨x, hx, rfl⟩; exact hx
    · intro h; exact ⟨[], h, rfl⟩
  by_cases hb : b = []
  · have hbe : b.isEmpty = true := by simp [hb]
    rw [key]; simp only [hbe, if_true]
    refine ⟨by simp [hb], by simp [hb], by simp [hb], by simp, ?_⟩
    intro e he; injection he with he; intro h; exact absurd he.symm h
  · have hbe : b.isEmpty = false := by simpa using hb
    rw [key]; simp only [hbe, Bool.false_eq_true, if_false]
    by_cases hf : [] ∈ fields
    · have hfa := hfields.mpr hf
      simp only [hfa, if_true]
      refine ⟨by simp [hb], by simp [hb, hf], by simp [hf], by simp, ?_⟩
      intro e he; injection he with he; intro _ h; exact absurd he.symm h
    · have hfa : fields.any (·.isEmpty) = false := by
        cases h : fields.any (·.isEmpty) with
        | false => rfl
        | true => exact absurd (hfields.mp h) hf
      simp only [hfa, Bool.false_eq_true, if_false]
      cases seq with
      | bad =>
        refine ⟨by simp [hb], by simp [hf], by simp [hb, hf], by simp, ?_⟩
        intro e he; injection he with he; intro _ _ h; exact absurd he.symm h
      | none =>
        simp only
        cases hr : expandNames (escapeAll s).lits names with
        | ok r => simp [hb, hf]
        | error e' =>
          have := hnames e' hr
          refine ⟨?_, ?_, ?_, ?_, ?_⟩
          · simp only [hb, iff_false]; intro h; injection h with h; subst h; rcases this.1 with h | h <;> cases h
          · simp only [hf, and_false, iff_false]; intro h; injection h with h; subst h; rcases this.1 with h | h <;> cases h
          · constructor
            · intro h; injection h with h; subst h; rcases this.1 with h | h <;> cases h
            · rintro ⟨_, _, h⟩; cases h
          · intro h; injection h with h; subst h; rcases this.1 with h | h <;> cases h
          · intro e he _ _ _; injection he with he; subst he; exact this
      | some x =>
        simp only
        cases hr : expandNames (escapeAll s).lits names with
        | ok r => simp [hb, hf]
        | error e' =>
          have := hnames e' hr
          refine ⟨?_, ?_, ?_, ?_, ?_⟩
          · simp only [hb, iff_false]; intro h; injection h with h; subst h; rcases this.1 with h | h <;> cases h
          · simp only [hf, and_false, iff_false]; intro h; injection h with h; subst h; rcases this.1 with h | h <;> cases h
          · constructor
            · intro h; injection h with h; subst h; rcases this.1 with h | h <;> cases h
            · rintro ⟨_, _, h⟩; cases h
          · intro h; injection h with h; subst h; rcases this.1 with h | h <;> cases h
          · intro e he _ _ _; injection he with he; subst he; exact this

/-- on the grammar no error is possible (corollary of `expand_spec`) -/
theorem expand_ok_on_grammar (p : Layout) (items : List Item) (hp : p.WF)
    (hn : p.names = items.map Item.render) (hi : ∀ it ∈ items, it.Good) (seq : Option Bool) :
    ∃ r, expandStr (match seq with | none => .none | some b => .some b) p.render = .ok r :=
  ⟨_, expand_spec p items hp hn hi seq⟩

/-- blank input, with or without one comma: 'no symbols given' -/
theorem blank_no_symbols (w1 w2 : Str) (h1 : Blank w1) (h2 : Blank w2) (seq : SeqArg) :
    expandStr seq (w1 ++ w2) = .error .noSymbols ∧
    expandStr seq (w1 ++ ',' :: w2) = .error .noSymbols := by
  have hstrip : ∀ w : Str, Blank w → strip w = [] := by
    intro w hw
    have h : lstrip w = [] := by simpa [lstrip] using lstrip_ws_append w [] hw
    simp [strip, h, rstrip]
  have hbs : ∀ w : Str, Blank w → '\\' ∉ w := fun w hw => blank_no_backslash hw
  constructor
  · have hw : Blank (w1 ++ w2) := by
      intro c hc; rcases List.mem_append.mp hc with h | h; exact h1 c h; exact h2 c h
    have he := escapeAll_no_backslash _ (hbs _ hw)
    unfold expandStr
    simp [he.1, body, hstrip _ hw]
  · have hnb : '\\' ∉ w1 ++ ',' :: w2 := by
      intro hm
      simp only [List.mem_append, List.mem_cons] at hm
      rcases hm with hm | hm | hm
      · exact blank_no_backslash h1 hm
      · cases hm
      · exact blank_no_backslash h2 hm
    have he := escapeAll_no_backslash _ hnb
    have hs : strip (w1 ++ ',' :: w2) = [','] := by
      have := strip_core w1 w2 [] ',' h1 h2 (by decide) (by intro d ds h; injection h with h _; subst h; decide)
      simpa using this
    unfold expandStr
    simp [he.1, body, hs, rstrip]

/-! ### containers -/

/-- in a container every item is expanded on its own, without `seq` (utils.py:158-163), and the
    container type is kept -/
theorem expand_container (seq : SeqArg) (k : Kind) (ps : List Pattern) (rs : List Res)
    (h : expandList ps = .ok rs) : expand seq (.cont k ps) = .ok (.cont k rs) := by
  simp [expand, h]

/-- **container_seq_witness** (open finding C20-container-seq-nesting) — with `seq=True` a list of
    two plain names stays a list of bare names, whereas each name alone becomes a 1-tuple:
    `sympy.symbols(['x', 'y'], seq=True)` applies the flag to the items (`[(x,), (y,)]`), sympde
    does not (same names, different nesting). -/
theorem container_seq_witness :
    expand (.some true) (.cont .list [.str ['x'], .str ['y']]) = .ok (.cont .list [.name ['x'], .name ['y']]) ∧
    expand (.some true) (.str ['x']) = .ok (.cont .tuple [.name ['x']]) := by
  constructor <;> rfl

theorem expandList_spec (ps : List Pattern) (rs : List Res) :
    expandList ps = .ok rs ↔
      ps.length = rs.length ∧ ∀ i (hi : i < ps.length) (hj : i < rs.length), expand .none ps[i] = .ok rs[i] := by
  induction ps generalizing rs with
  | nil =>
    cases rs with
    | nil => simp [expandList]
    | cons r rs => simp [expandList]
  | cons p ps ih =>
    unfold expandList
    cases hp : expand .none p with
    | error e =>
      simp only [hp]
      constructor
      · intro h; cases h
      · rintro ⟨hl, h⟩
        cases rs with
        | nil => simp at hl
        | cons r rs => have := h 0 (by simp) (by simp); simp [hp] at this
    | ok r =>
      simp only [hp]
      cases hps : expandList ps with
      | error e =>
        simp only [hps]
        constructor
        · intro h; cases h
        · rintro ⟨hl, h⟩
          cases rs with
          | nil => simp at hl
          | cons r' rs' =>
            have : expandList ps = .ok rs' := (ih rs').mpr ⟨by simpa using hl, fun i hi hj => by
              have := h (i + 1) (by simp; omega) (by simp; omega); simpa using this⟩
            rw [hps] at this; cases this
      | ok rs0 =>
        simp only [hps]
        have ih0 := (ih rs0).mp hps
        constructor
        · intro h
          injection h with h; subst h
          refine ⟨by simp [ih0.1], ?_⟩
          intro i hi hj
          cases i with
          | zero => simpa using hp
          | succ i => simpa using ih0.2 i (by simp at hi; omega) (by simp at hj; omega)
        · rintro ⟨hl, h⟩
          cases rs with
          | nil => simp at hl
          | cons r' rs' =>
            have h0 := h 0 (by simp) (by simp)
            simp only [List.getElem_cons_zero, hp] at h0
            injection h0 with h0
            have : expandList ps = .ok rs' := (ih rs').mpr ⟨by simpa using hl, fun i hi hj => by
              have := h (i + 1) (by simp; omega) (by simp; omega); simpa using this⟩
            rw [hps] at this; injection this with this
            rw [h0, this]

/-! ### element_of / elements_of -/

/-- **element_shape** (structure) — `element_of` on a product of scalar/vector spaces with a
    container of names creates, position by position, the function carrying that name in the
    component space of that position, in a container of the same type; the number created is
    `min` of the two lengths (Python `zip`), so with as many names as components nothing is lost. -/
theorem element_shape (sps : List Space) (hs : ∀ sp ∈ sps, sp.isFn = true) (k : Kind) (names : List Str) :
    recElem (.product sps) (.cont k (names.map .name)) = .ok (.cont k (List.zipWith Space.mk sps names)) ∧
    (List.zipWith Space.mk sps names).length = min sps.length names.length := by
  refine ⟨by simp [recElem, recElemZip_names sps hs names], by simp⟩

/-- a single name in a scalar/vector space is one function; in a product space it is refused;
    several names in a scalar/vector space are refused by `element_of` -/
theorem element_single (sp : Space) (h : sp.isFn = true) (n : Str) (sps : List Space) (k : Kind)
    (items : List Res) :
    recElem sp (.name n) = .ok (sp.mk n) ∧
    recElem (.product sps) (.name n) = .error .productElement ∧
    recElem sp (.cont k items) = .error .multiple := by
  cases sp <;> simp_all [Space.isFn, recElem, Space.element, Space.mk]

/-- **element_shape** (from the pattern) — `element_of(V1 × … × Vn, pattern)` for a well-formed
    pattern denoting exactly `n ≥ 2` names is the tuple of the `n` functions carrying the
    expanded names, the i-th one in `Vi`. -/
theorem element_of_pattern (sps : List Space) (hs : ∀ sp ∈ sps, sp.isFn = true) (p : Layout)
    (items : List Item) (hp : p.WF) (hn : p.names = items.map Item.render)
    (hi : ∀ it ∈ items, it.Good) (hlen : (items.flatMap Item.den).length = sps.length)
    (h2 : 2 ≤ sps.length) :
    elementOf (.product sps) (.str p.render)
      = .ok (.cont .tuple (List.zipWith Space.mk sps (items.flatMap Item.den))) := by
  have := expand_spec p items hp hn hi none
  simp only at this
  unfold elementOf
  simp only [isSpaceObj, Bool.not_true, Bool.false_eq_true, if_false, expand, this]
  have hsh : ∀ b, shape b (items.flatMap Item.den) = .cont .tuple ((items.flatMap Item.den).map .name) := by
    intro b
    cases hd : items.flatMap Item.den with
    | nil => rw [hd] at hlen; simp at hlen; omega
    | cons x xs =>
      cases xs with
      | nil => rw [hd] at hlen; simp at hlen; omega
      | cons y ys => simp [shape]
  rw [hsh]
  exact (element_shape sps hs .tuple _).1

/-- **elements_shape** — `elements_of` on a scalar/vector space creates one function per name,
    same number, same order, same container type, all in that space … -/
theorem elements_shape (sp : Space) (h : sp.isFn = true) (k : Kind) (names : List Str) :
    recElems sp (.cont k (names.map .name)) = .ok (.cont k (names.map sp.mk)) := by
  cases sp with
  | scalar v => simp [recElems, recElemsAll_names (.scalar v) rfl]
  | vector v => simp [recElems, recElemsAll_names (.vector v) rfl]
  | product sps => simp [Space.isFn] at h
  | notSpace => simp [Space.isFn] at h

/-- … and on a product space the outer level of the names is matched with the component spaces
    and every group of names becomes a group of functions of that component space. -/
theorem elements_product_shape (sps : List Space) (hs : ∀ sp ∈ sps, sp.isFn = true) (k k' : Kind)
    (groups : List (List Str)) :
    recElems (.product sps) (.cont k (groups.map (fun g => .cont k' (g.map .name))))
      = .ok (.cont k (List.zipWith (fun sp g => .cont k' (g.map sp.mk)) sps groups)) := by
  have : ∀ (sps : List Space), (∀ sp ∈ sps, sp.isFn = true) → ∀ groups : List (List Str),
      recElemsZip sps (groups.map (fun g => .cont k' (g.map .name)))
        = .ok (List.zipWith (fun sp g => .cont k' (g.map sp.mk)) sps groups) := by
    intro sps
    induction sps with
    | nil => intro _ groups; simp [recElemsZip]
    | cons sp sps ih =>
      intro hs groups
      cases groups with
      | nil => simp [recElemsZip]
      | cons g gs =>
        simp [recElemsZip, elements_shape sp (hs sp (by simp)) k' g,
          ih (fun x hx => hs x (by simp [hx])) gs]
  simp [recElems, this sps hs groups]

/-- `elements_of(V, pattern)` for a well-formed pattern: one function of `V` per expanded name,
    always in a tuple (the sequence flag is forced) -/
theorem elements_of_pattern (sp : Space) (h : sp.isFn = true) (p : Layout) (items : List Item)
    (hp : p.WF) (hn : p.names = items.map Item.render) (hi : ∀ it ∈ items, it.Good) :
    elementsOf sp (.str p.render) = .ok (.cont .tuple ((items.flatMap Item.den).map sp.mk)) := by
  have := expand_spec p items hp hn hi (some true)
  simp only [Option.getD_some, Bool.true_or] at this
  unfold elementsOf
  have hsp : isSpaceObj sp = true := by cases sp <;> simp_all [Space.isFn, isSpaceObj]
  simp only [hsp, Bool.not_true, Bool.false_eq_true, if_false, expand, this]
  have hsh : shape true (items.flatMap Item.den) = .cont .tuple ((items.flatMap Item.den).map .name) := by
    cases hd : items.flatMap Item.den with
    | nil => simp [shape]
    | cons x xs => cases xs <;> simp [shape]
  rw [hsh]
  exact elements_shape sp h .tuple _

/-! ### the single-name entry point `element_of(V, pattern)` on a scalar / vector space -/

/-- **element_of_spec** — for EVERY string (no grammar hypothesis) and a scalar / vector space:
    `element_of` always goes through the expansion (space.py:65) and succeeds iff the expansion
    is exactly one bare name, the result being the function of that (expanded, un-escaped) name
    in that space; an expansion that is a container — several names, a trailing comma, a range —
    is refused with 'To create multiple elements …' (`ValueError`), and every error of the
    expansion ('no symbols given' for an empty / blank pattern, …) is passed on unchanged. -/
theorem element_of_spec (sp : Space) (h : sp.isFn = true) (s : Str) :
    (∀ el, elementOf sp (.str s) = .ok el ↔ ∃ n, expandStr .none s = .ok (.name n) ∧ el = sp.mk n) ∧
    (∀ k items, expandStr .none s = .ok (.cont k items) → elementOf sp (.str s) = .error .multiple) ∧
    (∀ e, expandStr .none s = .error e → elementOf sp (.str s) = .error e) := by
  have hsp : isSpaceObj sp = true := by cases sp <;> simp_all [Space.isFn, isSpaceObj]
  have key : elementOf sp (.str s) = match expandStr .none s with
      | .error e => .error e
      | .ok r => recElem sp r := by
    unfold elementOf
    simp only [hsp, Bool.not_true, Bool.false_eq_true, if_false, expand]
    rfl
  refine ⟨?_, ?_, ?_⟩
  · intro el
    rw [key]
    cases hr : expandStr .none s with
    | error e => simp
    | ok r =>
      cases r with
      | name n =>
        simp only [(element_single sp h n [] .tuple []).1]
        constructor
        · intro he; injection he with he; exact ⟨n, rfl, he.symm⟩
        · rintro ⟨m, hm, rfl⟩
          injection hm with hm; injection hm with hm; rw [hm]
      | cont k items =>
        simp only [(element_single sp h [] [] k items).2.2]
        constructor
        · intro he; cases he
        · rintro ⟨m, hm, _⟩; injection hm with hm; cases hm
  · intro k items hr
    rw [key, hr]
    exact (element_single sp h [] [] k items).2.2
  · intro e hr
    rw [key, hr]

/-- **element_of_layout** — on the grammar: `element_of(V, pattern)` succeeds iff the pattern has
    no trailing comma, no range that expands, and denotes exactly one name; padding blanks around
    the name are dropped; two names separated by blanks or commas are refused. -/
theorem element_of_layout (sp : Space) (h : sp.isFn = true) (p : Layout) (items : List Item)
    (hp : p.WF) (hn : p.names = items.map Item.render) (hi : ∀ it ∈ items, it.Good) :
    elementOf sp (.str p.render) =
      match (p.tcomma.isSome || items.any Item.setsSeq), items.flatMap Item.den with
      | false, [n] => .ok (sp.mk n)
      | _, _ => .error .multiple := by
  have hx := expand_spec p items hp hn hi none
  simp only [Option.getD_none] at hx
  have hs := element_of_spec sp h p.render
  cases hf : (p.tcomma.isSome || items.any Item.setsSeq) with
  | true =>
    rw [hf] at hx
    cases hd : items.flatMap Item.den with
    | nil => rw [hd] at hx; exact hs.2.1 _ _ (by simpa [shape] using hx)
    | cons x xs =>
      rw [hd] at hx
      cases xs with
      | nil => exact hs.2.1 .tuple [.name x] (by simpa [shape] using hx)
      | cons y ys => exact hs.2.1 .tuple _ (by simpa [shape] using hx)
  | false =>
    rw [hf] at hx
    cases hd : items.flatMap Item.den with
    | nil => rw [hd] at hx; exact hs.2.1 _ _ (by simpa [shape] using hx)
    | cons x xs =>
      rw [hd] at hx
      cases xs with
      | nil => exact (hs.1 _).mpr ⟨x, by simpa [shape] using hx, rfl⟩
      | cons y ys => exact hs.2.1 .tuple _ (by simpa [shape] using hx)

/-- **element_of_escaped** — a single name written with the escapes `\\,` `\\:` `\\ ` is one
    function whose name holds the escaped characters themselves (`u\\ v` is named `u v`). -/
theorem element_of_escaped (sp : Space) (h : sp.isFn = true) (ts : List Tok) (hne : ts ≠ [])
    (hpl : ∀ c, Tok.plain c ∈ ts → PlainOK c) :
    elementOf sp (.str (renderToks ts)) = .ok (sp.mk (ts.map Tok.value)) :=
  ((element_of_spec sp h _).1 _).mpr ⟨_, expand_escaped ts hne hpl, rfl⟩

/-- **element_of_blank** — an empty or all-blank pattern names nothing: 'no symbols given'. -/
theorem element_of_blank (sp : Space) (h : sp.isFn = true) (w : Str) (hw : Blank w) :
    elementOf sp (.str w) = .error .noSymbols := by
  have := (blank_no_symbols w [] hw (by intro c hc; cases hc) .none).1
  rw [List.append_nil] at this
  exact (element_of_spec sp h w).2.2 _ this

/-! ### non-vacuity: concrete patterns meet the hypotheses, and the model computes on them -/

/-- the item `x(1:3)_(a:b)` -/
def exItem : Item :=
  ⟨['x'], [⟨.num ['1'] ['3'], true, ['_']⟩, ⟨.alpha (some 'a') 'b', true, []⟩]⟩

example : exItem.render = "x(1:3)_(a:b)".toList := by decide
example : exItem.Good := by
  refine ⟨⟨?_, ?_⟩, Or.inl (by decide)⟩
  · refine ⟨by decide, ⟨by decide, by decide, by decide⟩, ?_, ?_, ?_⟩
    · intro pre c h
      have : ['x', '('] = pre ++ [c] := h
      have hl := congrArg List.getLast? this
      simp at hl; subst hl; decide
    · intro c h
      simp [renderFrom, Seg.cls, Seg.opn, exItem] at h
      subst h; decide
    · exact ⟨by decide, ⟨by intro c h; injection h with h; subst h; decide, by decide⟩, trivial, trivial,
        by simp [ScanWF, Seg.cls]⟩
  · exact ⟨by simp, by simp, trivial⟩
example : exItem.den = ["x1_a".toList, "x1_b".toList, "x2_a".toList, "x2_b".toList] := by decide
example : expandStr .none " x(1:3)_(a:b), y ".toList
    = .ok (.cont .tuple (["x1_a", "x1_b", "x2_a", "x2_b", "y"].map (fun s => .name s.toList))) := by rfl
example : expandStr .none "x:".toList = .error .missingEndRange := by rfl
example : expandStr .none "a,,b".toList = .error .missingComma := by rfl
example : expandStr .none " , ".toList = .error .noSymbols := by rfl
example : expandStr .bad "x".toList = .error .seqType := by rfl
example : expandStr .none "x:y:z:".toList = .error .missingEndRange := by rfl
example : expandStr (.some true) "x".toList = .ok (.cont .tuple [.name ['x']]) := by rfl
example : expandStr .none "x\\,y".toList = .ok (.name "x,y".toList) := by rfl
example : renderToks [.plain 'x', .esc .comma, .plain 'y', .esc .colon, .plain '2', .esc .blank, .plain 'z']
    = "x\\,y\\:2\\ z".toList := by decide
example : ∀ c, Tok.plain c ∈ [Tok.plain 'x', .esc .comma, .plain 'y'] → PlainOK c := by
  intro c hc
  simp at hc
  rcases hc with rfl | rfl <;> exact ⟨by decide, by decide, by decide, by decide, by decide⟩
example : elementOf (.product [.scalar "V", .vector "W"]) (.str "u, F".toList)
    = .ok (.cont .tuple [.fn false ['u'] "V", .fn true ['F'] "W"]) := by rfl
example : elementOf (.scalar "V") (.str "  u ".toList) = .ok (.fn false ['u'] "V") := by rfl
example : elementOf (.scalar "V") (.str "u\\ v".toList) = .ok (.fn false "u v".toList "V") := by rfl
example : elementOf (.vector "W") (.str "p\\:q".toList) = .ok (.fn true "p:q".toList "W") := by rfl
example : elementOf (.scalar "V") (.str "u v".toList) = .error .multiple := by rfl
example : elementOf (.vector "W") (.str "u,".toList) = .error .multiple := by rfl
example : elementOf (.scalar "V") (.str "".toList) = .error .noSymbols := by rfl
example : elementOf (.vector "W") (.str "   ".toList) = .error .noSymbols := by rfl
example : elementOf (.product [.scalar "V", .vector "W"]) (.str "u\\ 1  w".toList)
    = .ok (.cont .tuple [.fn false "u 1".toList "V", .fn true ['w'] "W"]) := by rfl
example : elementsOf (.scalar "V") (.str "u:3".toList)
    = .ok (.cont .tuple [.fn false "u0".toList "V", .fn false "u1".toList "V", .fn false "u2".toList "V"]) := by
  rfl

end Sympde.Pat
