/-
  C06 — form lowering is a lossless decomposition by region and test/trial block.
  C07's partition statement (sides of an interface as the index set) is the same theorem and is
  re-exported in Props/C07.lean.
-/
import SympdeModel.Model.Forms
namespace Sympde.Forms

theorem keepTest_some (i t : Nat) (m : Mono) (h : m.test = some t) : keepTest i m = (t == i) := by
  simp [keepTest, h]

theorem keepTrial_some (j u : Nat) (m : Mono) (h : m.trial = some u) : keepTrial j m = (u == j) := by
  simp [keepTrial, h]

/-- **entry (i,j) is exactly the part coupling test i with trial j** -/
theorem extract_eq_block (P : List Mono) (nt nu i j : Nat) (h : Bilinear P nt nu) :
    extract P i j = block P i j := by
  unfold extract block
  rw [List.filter_filter]
  apply List.filter_congr
  intro m hm
  obtain ⟨⟨t, ht, _⟩, ⟨u, hu, _⟩⟩ := h m hm
  simp [keepTest, keepTrial, ht, hu, Bool.and_comm]

/-- **purity / disjointness**: a monomial sits in at most one entry -/
theorem blocks_disjoint (P : List Mono) (nt nu i j i' j' : Nat) (h : Bilinear P nt nu) (m : Mono)
    (h1 : m ∈ extract P i j) (h2 : m ∈ extract P i' j') : i = i' ∧ j = j' := by
  rw [extract_eq_block P nt nu i j h] at h1
  rw [extract_eq_block P nt nu i' j' h] at h2
  simp only [block, List.mem_filter, Bool.and_eq_true, beq_iff_eq] at h1 h2
  constructor
  · have := h1.2.1.symm.trans h2.2.1; simpa using this
  · have := h1.2.2.symm.trans h2.2.2; simpa using this

/-- **coverage**: every monomial of a bilinear integrand sits in some entry of the kernel -/
theorem blocks_cover (P : List Mono) (nt nu : Nat) (h : Bilinear P nt nu) (m : Mono) (hm : m ∈ P) :
    ∃ i, i < nt ∧ ∃ j, j < nu ∧ m ∈ extract P i j := by
  obtain ⟨⟨t, ht, htl⟩, ⟨u, hu, hul⟩⟩ := h m hm
  refine ⟨t, htl, u, hul, ?_⟩
  simp [extract, List.mem_filter, hm, keepTest, keepTrial, ht, hu]

theorem sum_zero_of_all_zero (l : List Nat) (h : ∀ x ∈ l, x = 0) : l.sum = 0 := by
  induction l with
  | nil => rfl
  | cons a l ih =>
    simp only [List.sum_cons]
    rw [h a (by simp), ih (fun x hx => h x (by simp [hx]))]

theorem count_filter_eq (p : Mono → Bool) (m : Mono) (l : List Mono) :
    (l.filter p).count m = if p m then l.count m else 0 := by
  induction l with
  | nil => simp
  | cons a l ih =>
    simp only [List.filter]
    by_cases ha : a = m
    · subst ha
      cases hp : p a <;> simp [hp, ih, List.count_cons]
    · cases hp : p a <;> simp [hp, ih, List.count_cons, ha]

theorem sum_range_indicator (n t c : Nat) (h : t < n) :
    ((List.range n).map (fun i => if t == i then c else 0)).sum = c := by
  induction n with
  | zero => omega
  | succ n ih =>
    rw [List.range_succ, List.map_append, List.sum_append]
    by_cases htn : t = n
    · subst htn
      have : ((List.range t).map (fun i => if t == i then c else 0)).sum = 0 := by
        apply sum_zero_of_all_zero
        intro x hx
        obtain ⟨i, hi, rfl⟩ := List.mem_map.mp hx
        have : i < t := List.mem_range.mp hi
        have : ¬ (t = i) := by omega
        simp [this]
      rw [this]; simp
    · have : t < n := by omega
      rw [ih this]
      have : ¬ (t = n) := htn
      simp [this]

/-- **recombination**: taken together, the entries contain every monomial of a bilinear
    integrand exactly as often as the integrand does — nothing lost, nothing duplicated,
    nothing invented. -/
theorem blocks_recombine (P : List Mono) (nt nu : Nat) (h : Bilinear P nt nu) (m : Mono) :
    (allEntries P nt nu).count m = P.count m := by
  unfold allEntries
  rw [List.count_flatMap]
  by_cases hm : m ∈ P
  · obtain ⟨⟨t, ht, htl⟩, ⟨u, hu, hul⟩⟩ := h m hm
    have inner : ∀ i, (List.count m ∘ fun i => (List.range nu).flatMap (fun j => extract P i j)) i
        = if t == i then P.count m else 0 := by
      intro i
      simp only [Function.comp]
      rw [List.count_flatMap]
      have : ∀ j, (List.count m ∘ fun j => extract P i j) j
          = if u == j then (if t == i then P.count m else 0) else 0 := by
        intro j
        simp only [Function.comp, extract]
        rw [count_filter_eq, count_filter_eq, keepTest_some i t m ht, keepTrial_some j u m hu]
      rw [List.map_congr_left (fun j _ => this j)]
      exact sum_range_indicator nu u _ hul
    rw [List.map_congr_left (fun i _ => inner i)]
    exact sum_range_indicator nt t _ htl
  · have hz : P.count m = 0 := List.count_eq_zero.mpr hm
    rw [hz]
    apply sum_zero_of_all_zero
    intro x hx
    obtain ⟨i, _, rfl⟩ := List.mem_map.mp hx
    simp only [Function.comp]
    rw [List.count_eq_zero]
    intro hmem
    obtain ⟨j, _, hj⟩ := List.mem_flatMap.mp hmem
    exact hm (List.mem_filter.mp (List.mem_filter.mp hj).1).1

/-- linear forms: entry i is the part containing test component i -/
theorem extractLin_eq_block (P : List Mono) (nt i : Nat) (h : LinearIn P nt) :
    extractLin P i = blockLin P i := by
  unfold extractLin blockLin
  apply List.filter_congr
  intro m hm
  obtain ⟨t, ht, _⟩ := h m hm
  simp [keepTest, ht]

theorem linear_recombine (P : List Mono) (nt : Nat) (h : LinearIn P nt) (m : Mono) :
    ((List.range nt).flatMap (fun i => extractLin P i)).count m = P.count m := by
  rw [List.count_flatMap]
  by_cases hm : m ∈ P
  · obtain ⟨t, ht, htl⟩ := h m hm
    have : ∀ i, (List.count m ∘ fun i => extractLin P i) i = if t == i then P.count m else 0 := by
      intro i
      simp only [Function.comp, extractLin]
      rw [count_filter_eq, keepTest_some i t m ht]
    rw [List.map_congr_left (fun i _ => this i)]
    exact sum_range_indicator nt t _ htl
  · have hz : P.count m = 0 := List.count_eq_zero.mpr hm
    rw [hz]
    apply sum_zero_of_all_zero
    intro x hx
    obtain ⟨i, _, rfl⟩ := List.mem_map.mp hx
    simp only [Function.comp]
    rw [List.count_eq_zero]
    intro hmem
    exact hm (List.mem_filter.mp hmem).1

/-- a vanishing integrand gives empty (zero) entries, never an error -/
theorem zero_form (i j : Nat) : extract [] i j = [] ∧ extractLin [] i = [] := by
  simp [extract, extractLin]

/-- without bilinearity the extraction is NOT a partition: a monomial free of test functions is
    copied into every row (this is why the linearity verdict, C08, matters) -/
theorem nonlinear_term_duplicated :
    (allEntries [⟨0, none, some 0⟩] 2 1).count ⟨0, none, some 0⟩ = 2 := by decide

/-! ### regions -/

/-- **attribution**: the integrands accumulated for region d are exactly those of the integrals
    whose domain contains d — in order, with multiplicity -/
theorem group_spec (ts : List Term) (d b : Nat) :
    (group ts d).count b = (ts.filter (fun t => t.regions.contains d && t.body == b)).length := by
  unfold group
  induction ts with
  | nil => simp
  | cons t ts ih =>
    simp only [List.filter]
    cases h1 : t.regions.contains d <;> cases h2 : (t.body == b) <;>
      simp_all [List.count_cons]

theorem mem_dedup (l : List Nat) (d : Nat) : d ∈ dedup l ↔ d ∈ l := by
  induction l with
  | nil => simp [dedup]
  | cons a l ih =>
    simp only [dedup]
    split
    · rename_i hc
      have : a ∈ dedup l := by simpa using hc
      constructor
      · intro h; exact List.mem_cons_of_mem _ (ih.mp h)
      · intro h
        rcases List.mem_cons.mp h with rfl | h
        · exact this
        · exact ih.mpr h
    · simp [ih]

theorem nodup_dedup (l : List Nat) : (dedup l).Nodup := by
  induction l with
  | nil => simp [dedup]
  | cons a l ih =>
    simp only [dedup]
    split
    · exact ih
    · rename_i hc
      exact List.nodup_cons.mpr ⟨by simpa using hc, ih⟩

theorem mem_regionsOf (ts : List Term) (d : Nat) :
    d ∈ regionsOf ts ↔ ∃ t ∈ ts, d ∈ t.regions := by
  simp [regionsOf, mem_dedup, List.mem_flatMap]

/-- **one kernel per region that occurs**: no region is invented, lost or listed twice -/
theorem kernels_regions (ts : List Term) :
    ((kernels ts).map (·.1)).Nodup ∧
    ∀ d, d ∈ (kernels ts).map (·.1) ↔ ∃ t ∈ ts, d ∈ t.regions := by
  have hmap : (kernels ts).map (·.1) = regionsOf ts := by
    unfold kernels
    rw [List.map_map]
    have : ((fun (x : Nat × List Nat) => x.1) ∘ fun d => (d, group ts d)) = id := by
      funext d; rfl
    rw [this, List.map_id]
  rw [hmap]
  exact ⟨nodup_dedup _, fun d => mem_regionsOf ts d⟩

/-! non-vacuity -/
example : Bilinear [⟨0, some 0, some 1⟩, ⟨1, some 1, some 0⟩, ⟨2, some 0, some 1⟩] 2 2 := by
  intro m hm; simp at hm; rcases hm with rfl | rfl | rfl <;> simp
example : extract [⟨0, some 0, some 1⟩, ⟨1, some 1, some 0⟩, ⟨2, some 0, some 1⟩] 0 1
    = [⟨0, some 0, some 1⟩, ⟨2, some 0, some 1⟩] := by decide
example : kernels [⟨[0, 1], 7⟩, ⟨[1], 8⟩] = [(0, [7]), (1, [7, 8])] := by decide

end Sympde.Forms
