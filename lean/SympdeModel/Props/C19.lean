/-
  C19 — exterior-calculus operators obey their algebraic laws and degree arithmetic.
  Property theorems only (helper lemmas are in Lemmas/Exterior.lean).
-/
import SympdeModel.Lemmas.Exterior
namespace Sympde.Ext
open XE

theorem WFList_iff (xs : List XE) : WFList xs = xs.all WF := by
  induction xs with
  | nil => simp [WFList]
  | cons a as ih => simp [WFList, ih]

theorem shortcut_isImg (o : U) (h : o ≠ U.hodge) (e r : XE) (hs : shortcut o e = some r) :
    isImg o r = true := by
  cases o with
  | hodge => exact absurd rfl h
  | d => cases e <;> simp_all [shortcut] <;> (try (obtain ⟨_, rfl⟩ := hs; exact isLin_zero _))
  | delta => cases e <;> simp_all [shortcut] <;> (try (obtain ⟨_, rfl⟩ := hs; exact isLin_zero _))

/-- **Normal form, step 1**: whatever `d` (resp. `delta`) returns on a well-formed argument is
    an *image*: zero, a `d`-node, a sum of images, or coefficients times one image. -/
theorem eval_isImg (o : U) (ho : o ≠ U.hodge) (t : XE) (hwf : WF t = true) :
    isImg o (uEval o t) = true := by
  unfold isImg
  induction t using XE.rec
    (motive_2 := fun as => ∀ a ∈ as, WF a = true → isLin (isNode o) (uEval o a) = true) with
  | add as ih =>
    rw [uEval, uEvalList_eq]
    apply isLin_sAdd
    intro x hx
    obtain ⟨a, ha, rfl⟩ := List.mem_map.mp hx
    simp only [WF, WFList_iff, List.all_eq_true] at hwf
    exact ih a ha (hwf a ha)
  | mul as ih =>
    simp only [WF, WFList_iff, Bool.and_eq_true, List.all_eq_true] at hwf
    obtain ⟨hne, hall⟩ := hwf
    rw [uEval, mulBranch, rvs_eq]
    apply isLin_sMul _ (isNode_not_coef o)
    · intro c hc; exact (List.mem_filter.mp hc).2
    · have hne' : (vecs as).isEmpty = false := by simpa using hne
      simp only [hne', Bool.false_eq_true, if_false]
      split
      · exact isImg_node o _
      · cases hv : vecs as with
        | nil => simp [hv] at hne'
        | cons v vs =>
          cases vs with
          | nil =>
            simp only [List.map]
            have hv_mem : v ∈ as := by
              have : v ∈ vecs as := by simp [hv]
              exact (List.mem_filter.mp this).1
            exact ih v hv_mem (hall v hv_mem)
          | cons v2 vs => exact isImg_node o _
  | nil => cases ‹_ ∈ []›
  | cons a as iha ihas =>
    rename_i x hx hw
    rcases List.mem_cons.mp hx with rfl | hx
    · exact iha hw
    · exact ihas x hx hw
  | _ =>
    simp only [uEval]
    split
    · exact shortcut_isImg o ho _ _ ‹_›
    · exact isImg_node o _

theorem isZero_sAdd (xs : List XE) (h : ∀ x ∈ xs, isZero x = true) : isZero (sAdd xs) = true := by
  have key : ∀ (xs : List XE), (∀ x ∈ xs, isZero x = true) → ∀ y ∈ flatAddArgs xs, isZero y = true := by
    intro xs
    induction xs with
    | nil => simp [flatAddArgs]
    | cons a as ih =>
      intro h y hy
      have ha := h a (by simp)
      have ih' := ih (fun x hx => h x (by simp [hx]))
      cases a with
      | add ys =>
        simp only [flatAddArgs, List.mem_append] at hy
        rcases hy with hy | hy
        · simp only [isZero, allZero_iff, List.all_eq_true] at ha; exact ha y hy
        · exact ih' y hy
      | _ =>
        simp only [flatAddArgs, List.mem_cons] at hy
        rcases hy with rfl | hy
        · exact ha
        · exact ih' y hy
  unfold sAdd
  have : (flatAddArgs xs).filter (fun y => !isZero y) = [] := by
    rw [List.filter_eq_nil_iff]; intro y hy; simp [key xs h y hy]
  rw [this]; simp [finishAdd, isZero_zero]

/-- the single non-coefficient factor of a canonical linear product -/
theorem lin_mul_vec (b : XE → Bool) (as : List XE) (h : isLin b (mul as) = true) :
    ∃ v, vecs as = [v] ∧ v ∈ as ∧ isLin b v = true ∧ (coefs as).isEmpty = false := by
  obtain ⟨hcs, hcnt, hall⟩ := isLin_mul_parts b as h
  rw [countVecs_eq] at hcnt
  cases hv : vecs as with
  | nil => simp [hv] at hcnt
  | cons v vs =>
    cases vs with
    | cons _ _ => simp [hv] at hcnt
    | nil =>
      have : v ∈ vecs as := by simp [hv]
      have hm := List.mem_filter.mp this
      have hnc : isCoef v = false := by simpa using hm.2
      refine ⟨v, rfl, hm.1, ?_, hcs⟩
      simpa [hnc] using hall v hm.1

/-- **General zero theorem**: if operator `o` annihilates every base term, it annihilates every
    canonical linear combination of base terms. -/
theorem eval_lin_zero (o : U) (b : XE → Bool)
    (hbase : ∀ e, (∀ as, e ≠ add as) → (∀ as, e ≠ mul as) → isLin b e = true →
      isZero (uEval o e) = true)
    (v : XE) (hv : isLin b v = true) : isZero (uEval o v) = true := by
  induction v using XE.rec
    (motive_2 := fun as => ∀ a ∈ as, isLin b a = true → isZero (uEval o a) = true) with
  | add as ih =>
    rw [uEval, uEvalList_eq]
    apply isZero_sAdd
    intro x hx
    obtain ⟨a, ha, rfl⟩ := List.mem_map.mp hx
    simp only [isLin, allLin_iff, List.all_eq_true] at hv
    exact ih a ha (hv a ha)
  | mul as ih =>
    obtain ⟨v, hvs, hmem, hlin, hcs⟩ := lin_mul_vec b as hv
    rw [uEval, mulBranch, rvs_eq, hvs]
    apply isZero_sMul
    exact ⟨uEval o v, by simp [hcs], ih v hmem hlin⟩
  | nil => cases ‹_ ∈ []›
  | cons a as iha ihas =>
    rename_i x hx hw
    rcases List.mem_cons.mp hx with rfl | hx
    · exact iha hw
    · exact ihas x hx hw
  | _ => exact hbase _ (by intro as h; cases h) (by intro as h; cases h) hv

/-- **General map theorem**: if `o` sends base terms of kind `b` to canonical linear
    combinations of kind `b'`, it does so for every canonical linear combination. -/
theorem eval_lin_map (o : U) (b b' : XE → Bool) (hb' : ∀ e, b' e = true → isCoef e = false)
    (hbase : ∀ e, (∀ as, e ≠ add as) → (∀ as, e ≠ mul as) → isLin b e = true →
      isLin b' (uEval o e) = true)
    (t : XE) (ht : isLin b t = true) : isLin b' (uEval o t) = true := by
  induction t using XE.rec
    (motive_2 := fun as => ∀ a ∈ as, isLin b a = true → isLin b' (uEval o a) = true) with
  | add as ih =>
    rw [uEval, uEvalList_eq]
    apply isLin_sAdd
    intro x hx
    obtain ⟨a, ha, rfl⟩ := List.mem_map.mp hx
    simp only [isLin, allLin_iff, List.all_eq_true] at ht
    exact ih a ha (ht a ha)
  | mul as ih =>
    obtain ⟨v, hvs, hmem, hlin, hcs⟩ := lin_mul_vec b as ht
    rw [uEval, mulBranch, rvs_eq, hvs]
    apply isLin_sMul b' hb'
    · intro c hc; exact (List.mem_filter.mp hc).2
    · simpa [hcs] using ih v hmem hlin
  | nil => cases ‹_ ∈ []›
  | cons a as iha ihas =>
    rename_i x hx hw
    rcases List.mem_cons.mp hx with rfl | hx
    · exact iha hw
    · exact ihas x hx hw
  | _ => exact hbase _ (by intro as h; cases h) (by intro as h; cases h) ht

/-- **Normal form, step 2**: `d` (resp. `delta`) of an image is zero. -/
theorem eval_img_isZero (o : U) (ho : o ≠ U.hodge) (v : XE) (himg : isImg o v = true) :
    isZero (uEval o v) = true := by
  apply eval_lin_zero o (isNode o) _ v himg
  intro e _ _ he
  cases o with
  | hodge => exact absurd rfl ho
  | d => cases e <;> simp_all [isLin, isNode, uEval, shortcut, isZero_zero]
  | delta => cases e <;> simp_all [isLin, isNode, uEval, shortcut, isZero_zero]

/-- **d ∘ d = 0 and δ ∘ δ = 0** on every well-formed expression, whatever its shape:
    the value returned by the second application is (literally) zero. -/
theorem d_d_zero (t : XE) (h : WF t = true) : isZero (uEval .d (uEval .d t)) = true :=
  eval_img_isZero .d (by decide) _ (eval_isImg .d (by decide) t h)

theorem delta_delta_zero (t : XE) (h : WF t = true) :
    isZero (uEval .delta (uEval .delta t)) = true :=
  eval_img_isZero .delta (by decide) _ (eval_isImg .delta (by decide) t h)

/-- **d vanishes on top-degree forms** — and on every linear combination of them. -/
theorem d_top_zero (t : XE) (h : isLin (isFormP (fun k n => k == n)) t = true) :
    isZero (uEval .d t) = true := by
  apply eval_lin_zero .d _ _ t h
  intro e _ _ he
  cases e <;> simp_all [isLin, isFormP, uEval, shortcut, isZero_zero]

/-- **δ vanishes on 0-forms** — and on every linear combination of them. -/
theorem delta_zero_form_zero (t : XE) (h : isLin (isFormP (fun k _ => k == 0)) t = true) :
    isZero (uEval .delta t) = true := by
  apply eval_lin_zero .delta _ _ t h
  intro e _ _ he
  cases e <;> simp_all [isLin, isFormP, uEval, shortcut, isZero_zero]

theorem isHodgeOfForm_not_coef (e : XE) (h : isHodgeOfForm e = true) : isCoef e = false := by
  cases e <;> simp_all [isHodgeOfForm, isCoef]

/-- **⋆ of a linear combination of forms** is the same combination of ⋆-nodes … -/
theorem hodge_lin (t : XE) (h : isLin (isFormP (fun _ _ => true)) t = true) :
    isLin isHodgeOfForm (uEval .hodge t) = true := by
  apply eval_lin_map .hodge _ _ isHodgeOfForm_not_coef _ t h
  intro e _ _ he
  cases e <;> simp_all [isLin, isFormP, uEval, shortcut, isHodgeOfForm, U.node, isLin_zero]

/-- … and **⋆⋆** of it is again a linear combination of *forms* (no ⋆ left): each `⋆⋆u` has
    been replaced by `(-1)^(k(n-k)) u` (the value is `hodge_hodge_value` below). -/
theorem hodge_hodge_lin (t : XE) (h : isLin (isFormP (fun _ _ => true)) t = true) :
    isLin (isFormP (fun _ _ => true)) (uEval .hodge (uEval .hodge t)) = true := by
  apply eval_lin_map .hodge isHodgeOfForm _ _ _ _ (hodge_lin t h)
  · intro e he; cases e <;> simp_all [isFormP, isCoef]
  · intro e _ _ he
    cases e with
    | hodge a =>
      cases a <;> simp_all [isLin, isHodgeOfForm]
      simp [uEval, shortcut, isLin, coefs, isCoef, countVecs, allCoefOrLin, isFormP]
    | _ => simp_all [isLin, isHodgeOfForm, uEval, shortcut, isLin_zero]

theorem hodge_hodge_value (s : String) (k n : Nat) :
    uEval .hodge (XE.hodge (form s k n)) = mul [num ((-1 : Int) ^ (k * (n - k))) 1, form s k n] := by
  simp [uEval, shortcut]

/-! ### constant coefficients: numbers, Constants **and powers of those** (`c*c = c**2`)

  After the `fix:` commit 5022685 a `Pow` whose base and exponent are registry members is a
  coefficient (`isCoef`), so every theorem above whose hypothesis is `WF` / `isLin` speaks about
  products with such factors too.  The theorems below make the coefficient laws explicit. -/

/-- what the coefficient notion is: exactly `_is_coeff` of calculus.py -/
theorem isCoef_pow (b e : XE) : isCoef (other "Pow" [b, e]) = (isReg b && isReg e) := by
  simp [isCoef, isRegPair]

/-- every operator vanishes on a coefficient — a number, a Constant or a power such as `c**2` -/
theorem eval_coef_zero (o : U) (a : XE) (h : isCoef a = true) : uEval o a = zero := by
  rcases isCoef_cases a h with ⟨p, q, rfl⟩ | ⟨s, rfl⟩ | ⟨b, e, rfl, hb, he⟩
  · cases o <;> simp [uEval, shortcut]
  · cases o <;> simp [uEval, shortcut]
  · cases o <;> simp [uEval, shortcut, isCoef, isRegPair, hb, he]

/-- **homogeneity (literal)**: on a product with at least one coefficient and exactly one other
    factor `v`, the operator goes to `v` and the coefficients (numbers, Constants, powers) stay
    in front, whatever their number and order -/
theorem eval_smul (o : U) (as : List XE) (v : XE) (hc : (coefs as).isEmpty = false)
    (hv : vecs as = [v]) : uEval o (mul as) = sMul (coefs as ++ [uEval o v]) := by
  rw [uEval, mulBranch, rvs_eq, hv]
  simp [hc]

/-- the shape of the former finding: `op(c**e * v) = c**e * op(v)` -/
theorem eval_pow_smul (o : U) (b e v : XE) (hb : isReg b = true) (he : isReg e = true)
    (hv : isCoef v = false) :
    uEval o (mul [other "Pow" [b, e], v]) = sMul [other "Pow" [b, e], uEval o v] := by
  have hp : isCoef (other "Pow" [b, e]) = true := by simp [isCoef_pow, hb, he]
  have := eval_smul o [other "Pow" [b, e], v] v (by simp [coefs, List.filter, hp])
    (by simp [vecs, List.filter, hp, hv])
  simpa [coefs, List.filter, hp, hv] using this

/-- **⋆⋆(c·u) = (-1)^(k(n-k)) c·u** for every coefficient `c` (number, Constant, power) that is
    not literally 0 or 1 — for `c = c₀**2` this is the witness of the former finding C19-coef-pow -/
theorem hodge_hodge_cmul (c : XE) (hc : isCoef c = true) (h0 : isZero c = false)
    (h1 : isOne c = false) (s : String) (k n : Nat) :
    uEval .hodge (uEval .hodge (mul [c, form s k n]))
      = sMul [c, num ((-1 : Int) ^ (k * (n - k))) 1, form s k n] := by
  have hf : isCoef (form s k n) = false := rfl
  have hh : isCoef (XE.hodge (form s k n)) = false := rfl
  have e1 : uEval .hodge (mul [c, form s k n]) = mul [c, XE.hodge (form s k n)] := by
    rw [eval_smul .hodge [c, form s k n] (form s k n) (by simp [coefs, List.filter, hc])
      (by simp [vecs, List.filter, hc, hf])]
    have : coefs [c, form s k n] = [c] := by simp [coefs, List.filter, hc, hf]
    rw [this]
    simpa [uEval, shortcut, U.node] using
      sMul_coef_pair c (XE.hodge (form s k n)) hc h0 h1 (by intro ys h; cases h)
        (by simp [isZero]) (by simp [isOne])
  rw [e1, eval_smul .hodge [c, XE.hodge (form s k n)] (XE.hodge (form s k n))
    (by simp [coefs, List.filter, hc]) (by simp [vecs, List.filter, hc, hh])]
  have : coefs [c, XE.hodge (form s k n)] = [c] := by simp [coefs, List.filter, hc, hh]
  rw [this]
  unfold sMul
  simp only [List.cons_append, List.nil_append, flatMulArgs_coef_cons c _ hc]
  simp [uEval, shortcut, flatMulArgs]

/-! ### degree arithmetic (`infere_type`) -/

/-- the registry knows exactly the degrees 0..6 and returns the degree itself -/
theorem getIndexForm_spec (i : Int) :
    getIndexForm i = if 0 ≤ i ∧ i ≤ 6 then .ok (some i.toNat) else .error .valueError := rfl

theorem infer_form (s : String) (k n : Nat) (h : k ≤ 6) : infer (form s k n) = .ok (some k) := by
  simp [infer, getIndexForm]; omega

/-- `d` raises the degree by one -/
theorem infer_d (a : XE) (k : Nat) (h : infer a = .ok (some k)) :
    infer (XE.d a) = getIndexForm (k + 1) := by
  simp [infer, h, bind, Except.bind]

/-- `delta` lowers the degree by one (and is refused on a 0-form: index −1 is not registered) -/
theorem infer_delta (a : XE) (k : Nat) (h : infer a = .ok (some k)) :
    infer (XE.delta a) = getIndexForm ((k : Int) - 1) := by
  simp [infer, h, bind, Except.bind]

/-- the Hodge star sends degree `k` to `n - k`, `n` being the dimension of the argument's forms -/
theorem infer_hodge (a : XE) (k n : Nat) (ns : List Nat) (h : infer a = .ok (some k))
    (hd : dims a = n :: ns) : infer (XE.hodge a) = getIndexForm ((n : Int) - k) := by
  simp [infer, h, hd, bind, Except.bind]

/-- the wedge product adds degrees -/
theorem infer_wedge (a b : XE) (k l : Nat) (ha : infer a = .ok (some k))
    (hb : infer b = .ok (some l)) : infer (wedge a b) = getIndexForm (k + l) := by
  simp [infer, ha, hb, bind, Except.bind]

/-- **a constant multiple keeps the degree**: a product with exactly one non-coefficient factor
    `v` — the other factors being numbers, Constants or powers of those (`c**2 * v`) — has the
    inferred degree of `v`, and is refused exactly when `v` is (inference.py Mul branch) -/
theorem infer_cmul (as : List XE) (v : XE) (hv : vecs as = [v]) : infer (mul as) = infer v := by
  have hcnt : countVecs as = 1 := by rw [countVecs_eq, hv]; rfl
  obtain ⟨h1, h2⟩ := inferList_one_vec as v hv
  cases hi : infer v with
  | error e => simp [infer, hcnt, h1 e hi, bind, Except.bind]
  | ok t =>
    obtain ⟨ts, hts, hf⟩ := h2 t hi
    simp [infer, hcnt, hts, hf, bind, Except.bind]

theorem dedupOpt_mem (ts : List (Option Nat)) (t : Option Nat) :
    t ∈ dedupOpt ts ↔ t ∈ ts := by
  induction ts with
  | nil => simp [dedupOpt]
  | cons a as ih =>
    simp only [dedupOpt]
    split
    · rename_i hc
      have : a ∈ dedupOpt as := by simpa using hc
      constructor
      · intro h; exact List.mem_cons_of_mem _ (ih.mp h)
      · intro h
        rcases List.mem_cons.mp h with rfl | h
        · exact this
        · exact ih.mpr h
    · simp [ih]

/-- **a sum whose terms have two different inferred degrees is refused** -/
theorem infer_mixed_refused (as : List XE) (ts : List (Option Nat)) (t1 t2 : Option Nat)
    (h : inferList as = .ok ts) (h1 : t1 ∈ ts) (h2 : t2 ∈ ts) (hne : t1 ≠ t2) :
    infer (add as) = .error .valueError := by
  simp only [infer, h, bind, Except.bind]
  have m1 := (dedupOpt_mem ts t1).mpr h1
  have m2 := (dedupOpt_mem ts t2).mpr h2
  split
  · rename_i t heq
    rw [heq] at m1 m2
    simp at m1 m2
    exact absurd (m1.trans m2.symm) hne
  · rfl

/-- a non-empty sum whose terms all have the same inferred degree gets that degree -/
theorem infer_add_same (as : List XE) (ts : List (Option Nat)) (t : Option Nat)
    (h : inferList as = .ok ts) (hne : ts ≠ []) (hall : ∀ x ∈ ts, x = t) :
    infer (add as) = .ok t := by
  simp only [infer, h, bind, Except.bind]
  have hsub : ∀ x ∈ dedupOpt ts, x = t := fun x hx => hall x ((dedupOpt_mem ts x).mp hx)
  have hne' : dedupOpt ts ≠ [] := by
    cases ts with
    | nil => exact absurd rfl hne
    | cons a as =>
      intro hnil
      have : a ∈ dedupOpt (a :: as) := (dedupOpt_mem _ a).mpr (by simp)
      rw [hnil] at this; cases this
  -- dedupOpt has no duplicates and all members equal t, hence it is [t]
  have nodup : ∀ (l : List (Option Nat)), (dedupOpt l).Nodup := by
    intro l
    induction l with
    | nil => simp [dedupOpt]
    | cons a as ih =>
      simp only [dedupOpt]
      split
      · exact ih
      · rename_i hc
        exact List.nodup_cons.mpr ⟨by simpa using hc, ih⟩
  have hnd := nodup ts
  match hd : dedupOpt ts, hne', hsub, hnd with
  | [x], _, hsub, _ =>
    simp only
    have := hsub x (by simp); subst this; rfl
  | x :: y :: rest, _, hsub, hnd =>
    exfalso
    have hx := hsub x (by simp)
    have hy := hsub y (by simp)
    rw [List.nodup_cons] at hnd
    apply hnd.1
    rw [hx, hy]; simp

/-! ### non-vacuity: concrete non-trivial arguments meet the hypotheses -/

example : WF (mul [num 2 1, XE.d (form "u" 1 3)]) = true := by decide
example : isZero (uEval .d (mul [num 2 1, XE.d (form "u" 1 3)])) = true := by decide
example : isLin (isFormP (fun _ _ => true))
    (add [mul [num 2 1, form "u" 1 3], mul [cst "c", form "w" 2 3]]) = true := by decide
example : uEval .hodge (uEval .hodge (add [mul [num 2 1, form "u" 1 2], form "w" 2 3]))
    = add [mul [num 2 1, num (-1) 1, form "u" 1 2], mul [num 1 1, form "w" 2 3]] := by rfl
example : infer (add [XE.d (form "u" 1 3), form "w" 1 3]) = .error .valueError := by rfl
-- powers of constants are coefficients: the witness of the former finding C19-coef-pow and friends
example : isCoef (other "Pow" [cst "c", num 2 1]) = true := by decide
example : isCoef (other "Pow" [other "Symbol" [], num 2 1]) = false := by decide
example : WF (mul [other "Pow" [cst "c", num 2 1], form "u1_3" 1 3]) = true := by decide
example : uEval .hodge (uEval .hodge (mul [other "Pow" [cst "c", num 2 1], form "u1_3" 1 3]))
    = mul [other "Pow" [cst "c", num 2 1], form "u1_3" 1 3] := by rfl
example : uEval .d (mul [num 4 1, other "Pow" [cst "c", num 2 1], other "Pow" [cst "e", num 3 1],
      add [form "u" 1 3, form "w" 1 3]])
    = mul [num 4 1, other "Pow" [cst "c", num 2 1], other "Pow" [cst "e", num 3 1],
        add [XE.d (form "u" 1 3), XE.d (form "w" 1 3)]] := by rfl
example : isZero (uEval .d (uEval .d (mul [other "Pow" [cst "c", num 2 1], form "u" 1 3]))) = true := by
  decide
example : isLin (isFormP (fun k n => k == n))
    (mul [other "Pow" [cst "c", cst "e"], form "t" 3 3]) = true := by decide
example : infer (add [mul [other "Pow" [cst "c", num 2 1], XE.d (form "u" 1 3)],
    mul [other "Pow" [cst "c", num 2 1], form "u" 1 3]]) = .error .valueError := by rfl

end Sympde.Ext
