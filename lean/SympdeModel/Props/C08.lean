/-
  C08 — the linearity verdict at form construction is exact.
  Property theorems only.  Model: Model/Linear.lean (`additive`, `homogeneous`, `isLinear`,
  `isBilinear` = `is_linear_expression` and the verdicts of LinearForm / BilinearForm), using
  Model/Subst.lean, Model/Calc.lean (operator constructors) and Model/RingEq.lean (comparison).
  Helpers: Lemmas/Linear.lean, Lemmas/LinearSound.lean, Lemmas/LinearProduct.lean (product arguments,
  sums of integrals, absent arguments, the one-tag variant), Lemmas/LinearSum.lean (verdict per
  integral, the lumped and the term-wise variants), Lemmas/RingEq.lean,
  Sem/Instances.lean (polynomial DRing).
-/
import SympdeModel.Lemmas.LinearSum
namespace Sympde.Linear
open E
open Sympde.Sub

variable {K : Type} [CommRing K] [Algebra ℚ K]

/-- **accept_sound** — if the additivity and homogeneity tests of the model succeed on an
    integrand, and re-evaluation preserves the meaning of the substituted trees, then in every
    differential ring (all functions, all points) the integrand with `l + r` substituted for the
    arguments means the sum of the integrands with `l` and with `r`, and with `α·l` substituted
    it means `α` times the integrand with `l` — for arbitrary interpretations of the fresh
    functions `l`, `r` and of the constant `α`. -/
theorem accept_sound (S : DRing K) (d : Nat) (lg : Bool) (args : List E) (e : E)
    (ha : additive d args e = .ok true) (hh : homogeneous d args e = .ok true)
    (hs : ∀ vals, ReevalSound S d lg (subst (args.zip vals) e)) :
    denG S d lg (subst (args.zip (sumVals args)) e) 0 0
      = denG S d lg (subst (args.zip (freshList "l#" args)) e) 0 0
        + denG S d lg (subst (args.zip (freshList "r#" args)) e) 0 0 ∧
    denG S d lg (subst (args.zip (mulVals args)) e) 0 0
      = S.cst "alpha#" * denG S d lg (subst (args.zip (freshList "l#" args)) e) 0 0 := by
  constructor
  · unfold additive at ha
    simp only [substEval] at ha
    cases h1 : reeval2 d (subst (args.zip (sumVals args)) e) with
    | error x => simp [sumVals] at h1; simp [h1] at ha
    | ok n =>
      cases h2 : reeval2 d (subst (args.zip (freshList "l#" args)) e) with
      | error x => simp [sumVals] at h1; simp [h1, h2] at ha
      | ok l =>
        cases h3 : reeval2 d (subst (args.zip (freshList "r#" args)) e) with
        | error x => simp [sumVals] at h1; simp [h1, h2, h3] at ha
        | ok r =>
          have h1' := h1
          simp only [sumVals] at h1'
          simp only [h1', h2, h3] at ha
          injection ha with ha
          have := RingEq.ringEq_sound S d lg n (add [l, r]) ha
          rw [hs _ n h1] at this
          rw [this]
          simp [denG, denGSum, hs _ l h2, hs _ r h3]
  · unfold homogeneous at hh
    simp only [substEval] at hh
    cases h1 : reeval2 d (subst (args.zip (mulVals args)) e) with
    | error x => simp [mulVals] at h1; simp [h1] at hh
    | ok n =>
      cases h2 : reeval2 d (subst (args.zip (freshList "l#" args)) e) with
      | error x => simp [mulVals] at h1; simp [h1, h2] at hh
      | ok l =>
        have h1' := h1
        simp only [mulVals] at h1'
        simp only [h1', h2] at hh
        injection hh with hh
        have := RingEq.ringEq_sound S d lg n (mul [alpha, l]) hh
        rw [hs _ n h1] at this
        rw [this]
        simp [denG, denGProd, alpha, hs _ l h2]

/-- **accept_sound** on the fragment polynomial in the arguments and their derivatives
    (arbitrary coefficient fields, constants, coordinates, elementary functions): no hypothesis
    on the re-evaluation is needed. -/
theorem accept_sound_opfree (S : DRing K) (d : Nat) (lg : Bool) (args : List E) (e : E)
    (hargs : ∀ a ∈ args, isFn a = true) (he : OpFree e = true)
    (ha : additive d args e = .ok true) (hh : homogeneous d args e = .ok true) :
    denG S d lg (subst (args.zip (sumVals args)) e) 0 0
      = denG S d lg (subst (args.zip (freshList "l#" args)) e) 0 0
        + denG S d lg (subst (args.zip (freshList "r#" args)) e) 0 0 ∧
    denG S d lg (subst (args.zip (mulVals args)) e) 0 0
      = S.cst "alpha#" * denG S d lg (subst (args.zip (freshList "l#" args)) e) 0 0 := by
  have hhom : denG S d lg (subst (args.zip (mulVals args)) e) 0 0
      = S.cst "alpha#" * denG S d lg (subst (args.zip (freshList "l#" args)) e) 0 0 := by
    have s1 := (reevalSound_opfree S d lg args (mulVals args) e hargs (mulVals_opfree args hargs) he).1
    have s2 := (reevalSound_opfree S d lg args (freshList "l#" args) e hargs (freshList_opfree _ args hargs) he).1
    unfold homogeneous at hh
    simp only [substEval] at hh
    cases h1 : reeval2 d (subst (args.zip (mulVals args)) e) with
    | error x => simp [mulVals] at h1; simp [h1] at hh
    | ok n =>
      cases h2 : reeval2 d (subst (args.zip (freshList "l#" args)) e) with
      | error x => simp [mulVals] at h1; simp [h1, h2] at hh
      | ok l =>
        have h1' := h1
        simp only [mulVals] at h1'
        simp only [h1', h2] at hh
        injection hh with hh
        have := RingEq.ringEq_sound S d lg n (mul [alpha, l]) hh
        rw [s1 n h1] at this
        rw [this]
        simp [denG, denGProd, alpha, s2 l h2]
  refine ⟨?_, hhom⟩
  have s1 := (reevalSound_opfree S d lg args (sumVals args) e hargs (sumVals_opfree args hargs) he).1
  have s2 := (reevalSound_opfree S d lg args (freshList "l#" args) e hargs (freshList_opfree _ args hargs) he).1
  have s3 := (reevalSound_opfree S d lg args (freshList "r#" args) e hargs (freshList_opfree _ args hargs) he).1
  unfold additive at ha
  simp only [substEval] at ha
  cases h1 : reeval2 d (subst (args.zip (sumVals args)) e) with
  | error x => simp [sumVals] at h1; simp [h1] at ha
  | ok n =>
    cases h2 : reeval2 d (subst (args.zip (freshList "l#" args)) e) with
    | error x => simp [sumVals] at h1; simp [h1, h2] at ha
    | ok l =>
      cases h3 : reeval2 d (subst (args.zip (freshList "r#" args)) e) with
      | error x => simp [sumVals] at h1; simp [h1, h2, h3] at ha
      | ok r =>
        have h1' := h1
        simp only [sumVals] at h1'
        simp only [h1', h2, h3] at ha
        injection ha with ha
        have := RingEq.ringEq_sound S d lg n (add [l, r]) ha
        rw [s1 n h1] at this
        rw [this]
        simp [denG, denGSum, s2 l h2, s3 r h3]

/-- **reject_sound_const** — an integrand with a non-zero constant term, `c + u`, is rejected. -/
theorem reject_sound_const (d : Nat) (u : String) (k : Kind) (dom : String) (p : Int) (q : Nat)
    (hc : ((p : ℚ) / (q : ℚ)) ≠ 0) :
    isLinear d [sf u k] [(dom, add [num p q, sf u k])] = .ok false := by
  apply reject_of_refutation d u k dom _ (by rfl) 0
  have e1 : subst ([sf u k].zip (mulVals [sf u k])) (add [num p q, sf u k]) = add [num p q, mul [alpha, l0 k]] := by
    simp [mulVals_single, subst, substList, lookup, eqb]
  have e2 : subst ([sf u k].zip (freshList "l#" [sf u k])) (add [num p q, sf u k]) = add [num p q, l0 k] := by
    simp [fresh_single, subst, substList, lookup, eqb]
  rw [e1, e2]
  apply ne_of_evalAt (fun _ => 1)
  simp only [denG, denGSum, denGProd, alpha, l0, refute_sf, refute_cst, map_add, map_mul, map_zero, evalAt_C,
    evalAt_algebraMap]
  intro h
  apply hc
  linarith

/-- **reject_sound_power** — a power `u^m`, `m ≥ 2`, of the argument is rejected. -/
theorem reject_sound_power (d : Nat) (u : String) (k : Kind) (dom : String) (m : Nat) (hm : 2 ≤ m) :
    isLinear d [sf u k] [(dom, pow (sf u k) (num (Int.ofNat m) 1))] = .ok false := by
  apply reject_of_refutation d u k dom _ (by rfl) 1
  have e1 : subst ([sf u k].zip (mulVals [sf u k])) (pow (sf u k) (num (Int.ofNat m) 1))
      = pow (mul [alpha, l0 k]) (num (Int.ofNat m) 1) := by
    simp [mulVals_single, subst, lookup, eqb]
  have e2 : subst ([sf u k].zip (freshList "l#" [sf u k])) (pow (sf u k) (num (Int.ofNat m) 1))
      = pow (l0 k) (num (Int.ofNat m) 1) := by
    simp [fresh_single, subst, lookup, eqb]
  rw [e1, e2]
  apply ne_of_evalAt (fun _ => 1)
  simp only [denG, denGProd, powSem, PD.intLit, alpha, l0, refute_sf, refute_cst, map_mul, map_pow, map_one, evalAt_C,
    mul_one, one_pow]
  exact two_pow_ne m hm

/-- **reject_sound_selfproduct** — a product of the argument with itself, `u·u`, is rejected … -/
theorem reject_sound_selfproduct (d : Nat) (u : String) (k : Kind) (dom : String) :
    isLinear d [sf u k] [(dom, mul [sf u k, sf u k])] = .ok false := by
  apply reject_of_refutation d u k dom _ (by rfl) 1
  have e1 : subst ([sf u k].zip (mulVals [sf u k])) (mul [sf u k, sf u k])
      = mul [mul [alpha, l0 k], mul [alpha, l0 k]] := by
    simp [mulVals_single, subst, substList, lookup, eqb]
  have e2 : subst ([sf u k].zip (freshList "l#" [sf u k])) (mul [sf u k, sf u k]) = mul [l0 k, l0 k] := by
    simp [fresh_single, subst, substList, lookup, eqb]
  rw [e1, e2]
  apply ne_of_evalAt (fun _ => 1)
  simp only [denG, denGProd, alpha, l0, refute_sf, refute_cst, map_mul, map_one, evalAt_C, mul_one]
  norm_num

/-- … and so is the product of the argument with its own derivative, `u·∂u`. -/
theorem reject_sound_selfproduct_deriv (d : Nat) (u : String) (k : Kind) (dom : String) (c : Coord) :
    isLinear d [sf u k] [(dom, mul [sf u k, pd c (sf u k)])] = .ok false := by
  apply reject_of_refutation d u k dom _ (by rfl) (MvPolynomial.X c)
  have e1 : subst ([sf u k].zip (mulVals [sf u k])) (mul [sf u k, pd c (sf u k)])
      = mul [mul [alpha, l0 k], pd c (mul [alpha, l0 k])] := by
    simp [mulVals_single, subst, substList, lookup, eqb]
  have e2 : subst ([sf u k].zip (freshList "l#" [sf u k])) (mul [sf u k, pd c (sf u k)]) = mul [l0 k, pd c (l0 k)] := by
    simp [fresh_single, subst, substList, lookup, eqb]
  rw [e1, e2]
  apply ne_of_evalAt (fun _ => 1)
  simp only [denG, denGProd, alpha, l0, refute_sf, refute_cst, refute_D, mul_one, Derivation.leibniz,
    MvPolynomial.pderiv_X_self, MvPolynomial.pderiv_C, smul_eq_mul, map_mul, map_add, map_one, map_zero, evalAt_C]
  simp [evalAt]

/-- **reject_sound_nonlinear_fn** — an elementary function of the argument, `f(u)`, is rejected
    (the refuting interpretation reads `f` as the square). -/
theorem reject_sound_nonlinear_fn (d : Nat) (u : String) (k : Kind) (dom : String) (f : String) :
    isLinear d [sf u k] [(dom, fn f (sf u k))] = .ok false := by
  apply reject_of_refutation d u k dom _ (by rfl) 1
  have e1 : subst ([sf u k].zip (mulVals [sf u k])) (fn f (sf u k)) = fn f (mul [alpha, l0 k]) := by
    simp [mulVals_single, subst, lookup, eqb]
  have e2 : subst ([sf u k].zip (freshList "l#" [sf u k])) (fn f (sf u k)) = fn f (l0 k) := by
    simp [fresh_single, subst, lookup, eqb]
  rw [e1, e2]
  apply ne_of_evalAt (fun _ => 1)
  simp only [denG, denGProd, alpha, l0, refute_sf, refute_cst, refute_fn, map_mul, map_one, evalAt_C, mul_one]
  norm_num

/-! ### an argument group that does not occur: the integrand is constant in it -/

/-- **reject_sound_argfree** — "does not depend on the argument: constant term".  Whatever the
    (product) argument is: if ONE integral of the form does not contain any of its components, and
    is not zero (in some polynomial interpretation of its symbols), the verdict is False.  This is
    the case of a linear form without test function, of a bilinear form without trial function, and
    of a single integral of a domain + boundary sum that lacks them. -/
theorem reject_sound_argfree (d : Nat) (args : List E) (ints : List (String × E))
    (hargs : ∀ a ∈ args, isFn a = true) (hall : ∀ p ∈ ints, OpFree p.2 = true)
    (p : String × E) (hp : p ∈ ints) (hfree : occurs args p.2 = false)
    (sfv : String → PolyK) (vfv : String → Nat → PolyK)
    (hne : denG (polyDRing sfv vfv (fun _ => 2)) d false p.2 0 0 ≠ 0) :
    isLinear d args ints = .ok false := by
  apply reject_of_refutation_ints (polyDRing sfv vfv (fun _ => 2)) d args ints hargs hall p hp
  rw [subst_argfree args _ p.2 (by rw [length_mulVals]) hfree,
    subst_argfree args _ p.2 (by rw [length_freshList]) hfree]
  intro h
  apply hne
  have hc : (polyDRing sfv vfv (fun _ => 2)).cst "alpha#" = (2 : PolyK) := by
    show MvPolynomial.C (2 : ℚ) = 2
    exact map_ofNat MvPolynomial.C 2
  rw [hc] at h
  linear_combination (-1 : PolyK) * h

/-- a linear form whose integrand is a product of two coordinates — no test function at all — is
    rejected, for every (product) argument. -/
theorem reject_sound_no_test_function (d : Nat) (args : List E) (hargs : ∀ a ∈ args, isFn a = true)
    (dom : String) (c1 c2 : Coord) :
    isLinear d args [(dom, mul [sym c1.name, sym c2.name])] = .ok false := by
  apply reject_sound_argfree d args _ hargs (by intro p hp; simp at hp; subst hp; rfl)
    (dom, mul [sym c1.name, sym c2.name]) (by simp) _ (fun _ => 0) (fun _ _ => 0)
  · apply ne_of_evalAt (fun _ => 1)
    simp [denG, denGProd, polyDRing, polySym, Coord.ofName_name, evalAt]
  · have h1 := any_eqb_nonfn args hargs (mul [sym c1.name, sym c2.name]) rfl
    have h2 := any_eqb_nonfn args hargs (sym c1.name) rfl
    have h3 := any_eqb_nonfn args hargs (sym c2.name) rfl
    simp only [occurs, occursList, h1, h2, h3, Bool.or_self]

/-- a bilinear form whose integrand `x·v` contains no trial function is rejected (the trial side
    is tested first and fails). -/
theorem reject_sound_no_trial_function (d : Nat) (u v : String) (k k' : Kind) (tests : List E) (dom : String)
    (c : Coord) (huv : u ≠ v) :
    isBilinear d [sf u k] tests [(dom, mul [sym c.name, sf v k'])] = .ok false := by
  apply isBilinear_false_of_trials
  have hargs : ∀ a ∈ [sf u k], isFn a = true := by intro a ha; simp at ha; subst ha; rfl
  apply reject_sound_argfree d _ _ hargs (by intro p hp; simp at hp; subst hp; rfl)
    (dom, mul [sym c.name, sf v k']) (by simp) _ (fun _ => 1) (fun _ _ => 0)
  · apply ne_of_evalAt (fun _ => 1)
    simp [denG, denGProd, polyDRing, polySym, Coord.ofName_name, evalAt]
  · simp [occurs, occursList, eqb, huv]

/-- in a domain + boundary sum it is enough that ONE integral lacks the trial function:
    `∫_Ω u·v + ∫_Γ x·v` is rejected. -/
theorem reject_sound_no_trial_function_in_one_integral (d : Nat) (u v : String) (k k' : Kind) (tests : List E)
    (dom bnd : String) (c : Coord) (huv : u ≠ v) :
    isBilinear d [sf u k] tests [(dom, mul [sf u k, sf v k']), (bnd, mul [sym c.name, sf v k'])] = .ok false := by
  apply isBilinear_false_of_trials
  have hargs : ∀ a ∈ [sf u k], isFn a = true := by intro a ha; simp at ha; subst ha; rfl
  apply reject_sound_argfree d _ _ hargs (by intro p hp; simp at hp; rcases hp with rfl | rfl <;> rfl)
    (bnd, mul [sym c.name, sf v k']) (by simp) _ (fun _ => 1) (fun _ _ => 0)
  · apply ne_of_evalAt (fun _ => 1)
    simp [denG, denGProd, polyDRing, polySym, Coord.ofName_name, evalAt]
  · simp [occurs, occursList, eqb, huv]

/-! ### product arguments: different components get different fresh functions -/

/-- **fresh_functions_distinct** — the functions substituted for two different components of a
    product argument are different, also when the components are of the same kind (the tag is
    generated inside the loop over the arguments, expr.py:761-762). -/
theorem fresh_functions_distinct (pre : String) (args : List E) (hargs : ∀ a ∈ args, isFn a = true)
    (i j : Nat) (hi : i < args.length) (hj : j < args.length) (hij : i ≠ j) :
    (freshList pre args)[i]'(by rw [length_freshList]; exact hi)
      ≠ (freshList pre args)[j]'(by rw [length_freshList]; exact hj) := by
  rw [freshList_getElem pre args i hi, freshList_getElem pre args j hj]
  exact fresh_ne pre i j _ _ (hargs _ (List.getElem_mem hi)) (hargs _ (List.getElem_mem hj)) hij

/-- **reject_sound_component_product** — the product `u₁·u₂` of two components of a product
    argument is rejected. -/
theorem reject_sound_component_product (d : Nat) (u1 u2 : String) (k1 k2 : Kind) (dom : String) (hne : u1 ≠ u2) :
    isLinear d [sf u1 k1, sf u2 k2] [(dom, mul [sf u1 k1, sf u2 k2])] = .ok false := by
  apply reject_of_refutation_ints refutePair d _ _ (pair_isFn u1 u2 k1 k2) (by intro p hp; simp at hp; subst hp; rfl)
    (dom, mul [sf u1 k1, sf u2 k2]) (by simp)
  have e1 : subst ([sf u1 k1, sf u2 k2].zip (mulVals [sf u1 k1, sf u2 k2])) (mul [sf u1 k1, sf u2 k2])
      = mul [mul [alpha, l0 k1], mul [alpha, l1 k2]] := by
    simp [mulVals_pair, subst, substList, lookup, eqb, hne]
  have e2 : subst ([sf u1 k1, sf u2 k2].zip (freshList "l#" [sf u1 k1, sf u2 k2])) (mul [sf u1 k1, sf u2 k2])
      = mul [l0 k1, l1 k2] := by
    simp [fresh_pair, subst, substList, lookup, eqb, hne]
  simp only [e1, e2]
  apply ne_of_evalAt (fun _ => 1)
  simp only [denG, denGProd, alpha, l0, l1, refutePair_cst, refutePair_l0, refutePair_l1, map_mul, map_ofNat, mul_one]
  norm_num

/-- **reject_sound_component_difference** — `u₁·(u₁ − u₂)`, non-linear in the product argument
    `(u₁, u₂)` although it vanishes when the two components are identified, is rejected. -/
theorem reject_sound_component_difference (d : Nat) (u1 u2 : String) (k : Kind) (dom : String) (hne : u1 ≠ u2) :
    isLinear d [sf u1 k, sf u2 k] [(dom, mul [sf u1 k, add [sf u1 k, mul [num (-1) 1, sf u2 k]]])] = .ok false := by
  apply reject_of_refutation_ints refutePair d _ _ (pair_isFn u1 u2 k k) (by intro p hp; simp at hp; subst hp; rfl)
    (dom, mul [sf u1 k, add [sf u1 k, mul [num (-1) 1, sf u2 k]]]) (by simp)
  have e1 : subst ([sf u1 k, sf u2 k].zip (mulVals [sf u1 k, sf u2 k]))
        (mul [sf u1 k, add [sf u1 k, mul [num (-1) 1, sf u2 k]]])
      = mul [mul [alpha, l0 k], add [mul [alpha, l0 k], mul [num (-1) 1, mul [alpha, l1 k]]]] := by
    simp [mulVals_pair, subst, substList, lookup, eqb, hne]
  have e2 : subst ([sf u1 k, sf u2 k].zip (freshList "l#" [sf u1 k, sf u2 k]))
        (mul [sf u1 k, add [sf u1 k, mul [num (-1) 1, sf u2 k]]])
      = mul [l0 k, add [l0 k, mul [num (-1) 1, l1 k]]] := by
    simp [fresh_pair, subst, substList, lookup, eqb, hne]
  simp only [e1, e2]
  apply ne_of_evalAt (fun _ => 1)
  simp only [denG, denGSum, denGProd, alpha, l0, l1, refutePair_cst, refutePair_l0, refutePair_l1, map_mul, map_add,
    map_ofNat, evalAt_algebraMap, mul_one, add_zero]
  norm_num

/-- **reject_sound_difference_square** — `(v₁ − v₂)²` is rejected. -/
theorem reject_sound_difference_square (d : Nat) (v1 v2 : String) (k : Kind) (dom : String) (hne : v1 ≠ v2) :
    isLinear d [sf v1 k, sf v2 k] [(dom, pow (add [sf v1 k, mul [num (-1) 1, sf v2 k]]) (num 2 1))] = .ok false := by
  apply reject_of_refutation_ints refutePair d _ _ (pair_isFn v1 v2 k k) (by intro p hp; simp at hp; subst hp; rfl)
    (dom, pow (add [sf v1 k, mul [num (-1) 1, sf v2 k]]) (num 2 1)) (by simp)
  have e1 : subst ([sf v1 k, sf v2 k].zip (mulVals [sf v1 k, sf v2 k]))
        (pow (add [sf v1 k, mul [num (-1) 1, sf v2 k]]) (num 2 1))
      = pow (add [mul [alpha, l0 k], mul [num (-1) 1, mul [alpha, l1 k]]]) (num 2 1) := by
    simp [mulVals_pair, subst, substList, lookup, eqb, hne]
  have e2 : subst ([sf v1 k, sf v2 k].zip (freshList "l#" [sf v1 k, sf v2 k]))
        (pow (add [sf v1 k, mul [num (-1) 1, sf v2 k]]) (num 2 1))
      = pow (add [l0 k, mul [num (-1) 1, l1 k]]) (num 2 1) := by
    simp [fresh_pair, subst, substList, lookup, eqb, hne]
  simp only [e1, e2]
  apply ne_of_evalAt (fun _ => 1)
  simp only [denG, denGSum, denGProd, powSem, PD.intLit, alpha, l0, l1, refutePair_cst, refutePair_l0, refutePair_l1,
    map_mul, map_add, map_pow, map_ofNat, evalAt_algebraMap, mul_one, add_zero]
  norm_num

/-- the same inside a bilinear form: `u₁·(u₁ − u₂)·v` over the trial functions `(u₁, u₂)`. -/
theorem reject_sound_component_difference_bilinear (d : Nat) (u1 u2 v : String) (k k' : Kind) (tests : List E)
    (dom : String) (hne : u1 ≠ u2) (h1 : u1 ≠ v) (h2 : u2 ≠ v) :
    isBilinear d [sf u1 k, sf u2 k] tests
      [(dom, mul [sf u1 k, add [sf u1 k, mul [num (-1) 1, sf u2 k]], sf v k'])] = .ok false := by
  apply isBilinear_false_of_trials
  apply reject_of_refutation_ints refutePair d _ _ (pair_isFn u1 u2 k k) (by intro p hp; simp at hp; subst hp; rfl)
    (dom, mul [sf u1 k, add [sf u1 k, mul [num (-1) 1, sf u2 k]], sf v k']) (by simp)
  have e1 : subst ([sf u1 k, sf u2 k].zip (mulVals [sf u1 k, sf u2 k]))
        (mul [sf u1 k, add [sf u1 k, mul [num (-1) 1, sf u2 k]], sf v k'])
      = mul [mul [alpha, l0 k], add [mul [alpha, l0 k], mul [num (-1) 1, mul [alpha, l1 k]]], sf v k'] := by
    simp [mulVals_pair, subst, substList, lookup, eqb, hne, h1, h2]
  have e2 : subst ([sf u1 k, sf u2 k].zip (freshList "l#" [sf u1 k, sf u2 k]))
        (mul [sf u1 k, add [sf u1 k, mul [num (-1) 1, sf u2 k]], sf v k'])
      = mul [l0 k, add [l0 k, mul [num (-1) 1, l1 k]], sf v k'] := by
    simp [fresh_pair, subst, substList, lookup, eqb, hne, h1, h2]
  simp only [e1, e2]
  apply ne_of_evalAt (fun _ => 1)
  simp only [denG, denGSum, denGProd, alpha, l0, l1, refutePair_cst, refutePair_l0, refutePair_l1, map_mul, map_add,
    map_ofNat, evalAt_algebraMap, mul_one, add_zero]
  rcases refutePair_sf v with h | h <;> rw [h] <;> simp only [map_ofNat, map_one] <;> norm_num

/-! ### why the distinctness matters: the variant with one tag for all the arguments

  `isLinearShared` (Lemmas/LinearProduct.lean) replaces every component of the same kind by the
  same fresh function, i.e. tests additivity and homogeneity on the diagonal `u₁ = u₂` only.  It
  coincides with the test for a single argument and accepts integrands that are not linear. -/

def exU1 : E := sf "u1" .h1
def exU2 : E := sf "u2" .h1
def exV1 : E := sf "v1" .h1
def exV2 : E := sf "v2" .h1

/-- **shared_tag_accepts_nonlinear** — counterexamples: with a single tag, `u₁·(u₁ − u₂)` and
    `(v₁ − v₂)²` are accepted; the model (and the code) rejects them. -/
theorem shared_tag_accepts_nonlinear :
    (isLinearShared 2 [exU1, exU2] [("Omega", mul [exU1, add [exU1, mul [num (-1) 1, exU2]]])] = .ok true ∧
      isLinear 2 [exU1, exU2] [("Omega", mul [exU1, add [exU1, mul [num (-1) 1, exU2]]])] = .ok false) ∧
    (isLinearShared 2 [exV1, exV2] [("Omega", pow (add [exV1, mul [num (-1) 1, exV2]]) (num 2 1))] = .ok true ∧
      isLinear 2 [exV1, exV2] [("Omega", pow (add [exV1, mul [num (-1) 1, exV2]]) (num 2 1))] = .ok false) :=
  ⟨⟨by decide, reject_sound_component_difference 2 "u1" "u2" .h1 "Omega" (by decide)⟩,
    ⟨by decide, reject_sound_difference_square 2 "v1" "v2" .h1 "Omega" (by decide)⟩⟩

/-- for a single argument the one-tag variant is the test itself -/
theorem shared_tag_same_on_single_argument (d : Nat) (a : E) (ints : List (String × E)) :
    isLinearShared d [a] ints = isLinear d [a] ints := isLinearShared_single d a ints

/- Goal (not proved): `reject_sound_full` — for every operator-free integrand `e` whose polynomial
   normal form in the argument and its derivatives has a monomial of argument-degree ≠ 1 there is an
   interpretation refuting additivity or homogeneity, hence `isLinear … = .ok false`; and the
   `degree_criterion` (`isLinear = .ok true` iff every monomial has argument-degree exactly 1).  Both
   need that distinct normal forms of core's normaliser are separated by some interpretation. -/

/-! ### non-vacuity: the model accepts the classical linear integrands -/

def exV : E := sf "v" .h1
def exU : E := sf "u" .h1
def exFld : E := sf "f" .h1

example : isLinear 2 [exV] [("Omega", add [mul [exFld, exV], mul [num 2 1, pd .x exV]])] = .ok true := by decide
example : isBilinear 2 [exU] [exV]
    [("Omega", add [mul [exFld, op2 .dot (op1 .grad exU) (op1 .grad exV)], mul [exU, exV]]), ("Gamma", mul [exU, exV])]
    = .ok true := by decide
example : isBilinear 2 [exU] [exV] [("Omega", mul [exU, exU, exV])] = .ok false := by decide
example : OpFree (add [mul [exFld, exV], mul [num 2 1, pd .x exV]]) = true := by decide
example : additive 2 [exV] (add [mul [exFld, exV], mul [num 2 1, pd .x exV]]) = .ok true ∧
    homogeneous 2 [exV] (add [mul [exFld, exV], mul [num 2 1, pd .x exV]]) = .ok true := by decide

/-! ### sums of integrals: one verdict per integral

  `is_linear_expression` compares the whole `IntAdd`; integrals over different regions are different
  atoms of that comparison, so the test holds iff it holds for the integrand of every region
  (`isLinear` = conjunction over the integrals).  A violation on `Ω` cannot be compensated on `Γ`. -/

/-- **verdict_is_conjunction** — the verdict on a sum of integrals is positive iff the verdict on
    every integral taken alone is (no hypothesis on the integrands). -/
theorem verdict_is_conjunction (d : Nat) (args : List E) (ints : List (String × E)) :
    isLinear d args ints = .ok true ↔ ∀ p ∈ ints, isLinear d args [p] = .ok true :=
  isLinear_true_iff d args ints

/-- **reject_sound_any_integral** — on operator-free integrands: if ONE integral alone is rejected,
    the sum is rejected, whatever the other integrals are. -/
theorem reject_sound_any_integral (d : Nat) (args : List E) (ints : List (String × E))
    (hargs : ∀ a ∈ args, isFn a = true) (hall : ∀ p ∈ ints, OpFree p.2 = true)
    (p : String × E) (hp : p ∈ ints) (h : isLinear d args [p] = .ok false) :
    isLinear d args ints = .ok false := by
  obtain ⟨b, hb⟩ := isLinear_total d args ints hargs hall
  cases b with
  | false => exact hb
  | true =>
    have := (isLinear_true_iff d args ints).mp hb p hp
    rw [h] at this
    cases this

/-- **reject_sound_cancel_across_regions** — `∫_Ω f·v + v²  +  (any other integrals, e.g.
    ∫_Γ x·v − v²)` is rejected: the square on `Ω` is not compensated by the other regions. -/
theorem reject_sound_cancel_across_regions (d : Nat) (v f : String) (k k' : Kind) (dom : String)
    (rest : List (String × E)) (hrest : ∀ p ∈ rest, OpFree p.2 = true) (hne : v ≠ f) :
    isLinear d [sf v k] ((dom, add [mul [sf f k', sf v k], pow (sf v k) (num 2 1)]) :: rest) = .ok false := by
  have hargs : ∀ a ∈ [sf v k], isFn a = true := by intro a ha; simp at ha; subst ha; rfl
  apply reject_of_refutation_ints (refuteRing 1) d _ _ hargs
    (by
      intro p hp
      rcases List.mem_cons.mp hp with rfl | hp
      · rfl
      · exact hrest p hp)
    (dom, add [mul [sf f k', sf v k], pow (sf v k) (num 2 1)]) (by simp)
  have e1 : subst ([sf v k].zip (mulVals [sf v k])) (add [mul [sf f k', sf v k], pow (sf v k) (num 2 1)])
      = add [mul [sf f k', mul [alpha, l0 k]], pow (mul [alpha, l0 k]) (num 2 1)] := by
    simp [mulVals_single, subst, substList, lookup, eqb, hne]
  have e2 : subst ([sf v k].zip (freshList "l#" [sf v k])) (add [mul [sf f k', sf v k], pow (sf v k) (num 2 1)])
      = add [mul [sf f k', l0 k], pow (l0 k) (num 2 1)] := by
    simp [fresh_single, subst, substList, lookup, eqb, hne]
  simp only [e1, e2]
  apply ne_of_evalAt (fun _ => 1)
  simp only [denG, denGSum, denGProd, powSem, PD.intLit, alpha, l0, refute_sf, refute_cst, map_mul, map_add, map_pow,
    map_one, evalAt_C, mul_one, one_pow, add_zero]
  norm_num

/-- **lumped_accepts_nonlinear** — counterexample for the variant that adds the integrands of all
    the regions before testing (`isLinearLumped`): it accepts `∫_Ω f·v + v² + ∫_Γ x·v − v²`, which is
    not linear on `Ω`; the model (and the code) rejects it. -/
theorem lumped_accepts_nonlinear :
    isLinearLumped 2 [exV]
        [("Omega", add [mul [exFld, exV], pow exV (num 2 1)]),
         ("Gamma", add [mul [sym "x", exV], mul [num (-1) 1, pow exV (num 2 1)]])] = .ok true ∧
    isLinear 2 [exV]
        [("Omega", add [mul [exFld, exV], pow exV (num 2 1)]),
         ("Gamma", add [mul [sym "x", exV], mul [num (-1) 1, pow exV (num 2 1)]])] = .ok false :=
  ⟨by decide, reject_sound_cancel_across_regions 2 "v" "f" .h1 .h1 "Omega" _
    (by intro p hp; simp at hp; subst hp; rfl) (by decide)⟩

/-! ### sums of terms inside one integrand: the integrand is tested as a whole

  The two sides of the comparison are expanded (`RingEq.ringEq` normalises powers of sums and
  products of sums), so non-linear summands that cancel do not matter: `(v+f)² − v² − f²` is
  accepted, and `accept_sound_opfree` applies to it. -/

/-- the integrand `(v + f)² − v² − f²` (three summands, each of them non-linear in `v` or constant) -/
def exCancel : E :=
  add [pow (add [exV, exFld]) (num 2 1), mul [num (-1) 1, pow exV (num 2 1)], mul [num (-1) 1, pow exFld (num 2 1)]]

/-- **cancelling_terms_accepted** — the model accepts `(v+f)² − v² − f²` (= 2 f v); the variant that
    tests the summands one by one (`isLinearTermwise`) rejects it. -/
theorem cancelling_terms_accepted :
    isLinear 2 [exV] [("Omega", exCancel)] = .ok true ∧
    isLinearTermwise 2 [exV] [("Omega", exCancel)] = .ok false :=
  ⟨by decide, by decide⟩

/-- **cancelling_terms_linear** — and the acceptance is right: in every differential ring
    `(v+f)² − v² − f²` is additive and homogeneous in `v` (instance of `accept_sound_opfree`). -/
theorem cancelling_terms_linear (S : DRing K) (lg : Bool) :
    denG S 2 lg (subst ([exV].zip (sumVals [exV])) exCancel) 0 0
      = denG S 2 lg (subst ([exV].zip (freshList "l#" [exV])) exCancel) 0 0
        + denG S 2 lg (subst ([exV].zip (freshList "r#" [exV])) exCancel) 0 0 ∧
    denG S 2 lg (subst ([exV].zip (mulVals [exV])) exCancel) 0 0
      = S.cst "alpha#" * denG S 2 lg (subst ([exV].zip (freshList "l#" [exV])) exCancel) 0 0 :=
  accept_sound_opfree S 2 lg [exV] exCancel (by intro a ha; simp at ha; subst ha; rfl) (by decide)
    (by decide) (by decide)

/-! the fixed corpus of the harness, on the model -/
example : isBilinear 2 [exU1, exU2] [exV1, exV2]
    [("Omega", mul [exU1, add [exU1, mul [num (-1) 1, exU2]], exV1])] = .ok false := by decide
example : isLinear 2 [exV1, exV2] [("Omega", mul [exFld, pow (add [exV1, mul [num (-1) 1, exV2]]) (num 2 1)])]
    = .ok false := by decide
example : isLinear 2 [exV] [("Omega", mul [sym "x", sym "y"])] = .ok false := by decide
example : isBilinear 2 [exU] [exV] [("Omega", mul [sym "x", exV])] = .ok false := by decide
example : isBilinear 2 [exU1, exU2] [exV1, exV2]
    [("Omega", mul [sym "x", exFld, add [exU1, mul [num (-1) 1, exU2]], exV1]), ("Gamma", mul [exU2, exV2])]
    = .ok true := by decide
example : isLinearShared 2 [exU1, exU2]
    [("Omega", mul [exU1, exU2])] = .ok false := by decide
example : isLinear 2 [exV] [("Omega", add [mul [exFld, exV], num 1 1]), ("Gamma", add [mul [sym "x", exV], num (-1) 1])]
    = .ok false := by decide
example : isLinear 2 [exV] [("Omega", add [mul [exV, add [exV, sym "x"]], mul [num (-1) 1, pow exV (num 2 1)]])]
    = .ok true := by decide
example : isBilinear 2 [exU] [exV]
    [("Omega", add [mul [exU, exV, add [num 1 1, mul [sym "y", exV]]], mul [num (-1) 1, sym "y", exU, pow exV (num 2 1)]])]
    = .ok true := by decide
example : isLinearLumped 2 [exV] [("Omega", mul [exFld, exV]), ("Gamma", pow exV (num 2 1))] = .ok false := by decide
example : isLinearTermwise 2 [exV] [("Omega", add [mul [exFld, exV], mul [sym "x", exV]])] = .ok true := by decide

/-! floating-point coefficients reach the model as their exact rational values (`num p q`): here
    `(x + 0.1)·v + 0.2·v` with the binary values of `0.1` and `0.2`; the comparison is exact -/
example : isLinear 2 [exV]
    [("Omega", add [mul [add [sym "x", num 3602879701896397 36028797018963968], exV],
                    mul [num 3602879701896397 18014398509481984, exV]])] = .ok true := by decide
example : isLinear 2 [exV]
    [("Omega", add [mul [add [sym "x", num 3602879701896397 36028797018963968], exV],
                    num 3602879701896397 18014398509481984])] = .ok false := by decide

end Sympde.Linear
