/-
  C08 — the linearity verdict at form construction is exact.
  Property theorems only.  Model: Model/Linear.lean (`additive`, `homogeneous`, `isLinear`,
  `isBilinear` = `is_linear_expression` and the verdicts of LinearForm / BilinearForm), using
  Model/Subst.lean, Model/Calc.lean (operator constructors) and Model/RingEq.lean (comparison).
  Helpers: Lemmas/Linear.lean, Lemmas/RingEq.lean, Sem/Instances.lean (polynomial DRing).
-/
import SympdeModel.Lemmas.LinearSound
namespace Sympde.Linear
open E
open Sympde.Sub

variable {K : Type} [CommRing K] [Algebra ℚ K]

/-- **accept_sound** — if the additivity and homogeneity tests of the model succeed on an
    integrand, and re-evaluation preserves the meaning of the substituted trees, then in every
    differential ring (all functions, all points) the integrand with `l + r` substituted for the
    arguments means the sum of the integrands with `l` and with `r`, and with `α·l` substituted
    it means `α` times the integrand with `l` — for arbitrary interpretations of the fresh
    functions `l`, `r` and of the constant `α`. -/
theorem accept_sound (S : DRing K) (d : Nat) (lg : Bool) (args : List E) (e : E)
    (ha : additive d args e = .ok true) (hh : homogeneous d args e = .ok true)
    (hs : ∀ vals, ReevalSound S d lg (subst (args.zip vals) e)) :
    denG S d lg (subst (args.zip (sumVals args)) e) 0 0
      = denG S d lg (subst (args.zip (freshList "l#" args)) e) 0 0
        + denG S d lg (subst (args.zip (freshList "r#" args)) e) 0 0 ∧
    denG S d lg (subst (args.zip (mulVals args)) e) 0 0
      = S.cst "alpha#" * denG S d lg (subst (args.zip (freshList "l#" args)) e) 0 0 := by
  constructor
  · unfold additive at ha
    simp only [substEval] at ha
    cases h1 : reeval d (subst (args.zip (sumVals args)) e) with
    | error x => simp [sumVals] at h1; simp [h1] at ha
    | ok n =>
      cases h2 : reeval d (subst (args.zip (freshList "l#" args)) e) with
      | error x => simp [sumVals] at h1; simp [h1, h2] at ha
      | ok l =>
        cases h3 : reeval d (subst (args.zip (freshList "r#" args)) e) with
        | error x => simp [sumVals] at h1; simp [h1, h2, h3] at ha
        | ok r =>
          have h1' := h1
          simp only [sumVals] at h1'
          simp only [h1', h2, h3] at ha
          injection ha with ha
          have := RingEq.ringEq_sound S d lg n (add [l, r]) ha
          rw [hs _ n h1] at this
          rw [this]
          simp [denG, denGSum, hs _ l h2, hs _ r h3]
  · unfold homogeneous at hh
    simp only [substEval] at hh
    cases h1 : reeval d (subst (args.zip (mulVals args)) e) with
    | error x => simp [mulVals] at h1; simp [h1] at hh
    | ok n =>
      cases h2 : reeval d (subst (args.zip (freshList "l#" args)) e) with
      | error x => simp [mulVals] at h1; simp [h1, h2] at hh
      | ok l =>
        have h1' := h1
        simp only [mulVals] at h1'
        simp only [h1', h2] at hh
        injection hh with hh
        have := RingEq.ringEq_sound S d lg n (mul [alpha, l]) hh
        rw [hs _ n h1] at this
        rw [this]
        simp [denG, denGProd, alpha, hs _ l h2]

/-- **accept_sound** on the fragment polynomial in the arguments and their derivatives
    (arbitrary coefficient fields, constants, coordinates, elementary functions): no hypothesis
    on the re-evaluation is needed. -/
theorem accept_sound_opfree (S : DRing K) (d : Nat) (lg : Bool) (args : List E) (e : E)
    (hargs : ∀ a ∈ args, isFn a = true) (he : OpFree e = true)
    (ha : additive d args e = .ok true) (hh : homogeneous d args e = .ok true) :
    denG S d lg (subst (args.zip (sumVals args)) e) 0 0
      = denG S d lg (subst (args.zip (freshList "l#" args)) e) 0 0
        + denG S d lg (subst (args.zip (freshList "r#" args)) e) 0 0 ∧
    denG S d lg (subst (args.zip (mulVals args)) e) 0 0
      = S.cst "alpha#" * denG S d lg (subst (args.zip (freshList "l#" args)) e) 0 0 := by
  have hhom : denG S d lg (subst (args.zip (mulVals args)) e) 0 0
      = S.cst "alpha#" * denG S d lg (subst (args.zip (freshList "l#" args)) e) 0 0 := by
    have s1 := (reevalSound_opfree S d lg args (mulVals args) e hargs (mulVals_opfree args hargs) he).1
    have s2 := (reevalSound_opfree S d lg args (freshList "l#" args) e hargs (freshList_opfree _ args hargs) he).1
    unfold homogeneous at hh
    simp only [substEval] at hh
    cases h1 : reeval d (subst (args.zip (mulVals args)) e) with
    | error x => simp [mulVals] at h1; simp [h1] at hh
    | ok n =>
      cases h2 : reeval d (subst (args.zip (freshList "l#" args)) e) with
      | error x => simp [mulVals] at h1; simp [h1, h2] at hh
      | ok l =>
        have h1' := h1
        simp only [mulVals] at h1'
        simp only [h1', h2] at hh
        injection hh with hh
        have := RingEq.ringEq_sound S d lg n (mul [alpha, l]) hh
        rw [s1 n h1] at this
        rw [this]
        simp [denG, denGProd, alpha, s2 l h2]
  refine ⟨?_, hhom⟩
  have s1 := (reevalSound_opfree S d lg args (sumVals args) e hargs (sumVals_opfree args hargs) he).1
  have s2 := (reevalSound_opfree S d lg args (freshList "l#" args) e hargs (freshList_opfree _ args hargs) he).1
  have s3 := (reevalSound_opfree S d lg args (freshList "r#" args) e hargs (freshList_opfree _ args hargs) he).1
  unfold additive at ha
  simp only [substEval] at ha
  cases h1 : reeval d (subst (args.zip (sumVals args)) e) with
  | error x => simp [sumVals] at h1; simp [h1] at ha
  | ok n =>
    cases h2 : reeval d (subst (args.zip (freshList "l#" args)) e) with
    | error x => simp [sumVals] at h1; simp [h1, h2] at ha
    | ok l =>
      cases h3 : reeval d (subst (args.zip (freshList "r#" args)) e) with
      | error x => simp [sumVals] at h1; simp [h1, h2, h3] at ha
      | ok r =>
        have h1' := h1
        simp only [sumVals] at h1'
        simp only [h1', h2, h3] at ha
        injection ha with ha
        have := RingEq.ringEq_sound S d lg n (add [l, r]) ha
        rw [s1 n h1] at this
        rw [this]
        simp [denG, denGSum, s2 l h2, s3 r h3]

/-- **reject_sound_const** — an integrand with a non-zero constant term, `c + u`, is rejected. -/
theorem reject_sound_const (d : Nat) (u : String) (k : Kind) (dom : String) (p : Int) (q : Nat)
    (hc : ((p : ℚ) / (q : ℚ)) ≠ 0) :
    isLinear d [sf u k] [(dom, add [num p q, sf u k])] = .ok false := by
  apply reject_of_refutation d u k dom _ (by rfl) 0
  have e1 : subst ([sf u k].zip (mulVals [sf u k])) (add [num p q, sf u k]) = add [num p q, mul [alpha, l0 k]] := by
    simp [mulVals_single, subst, substList, lookup, eqb]
  have e2 : subst ([sf u k].zip (freshList "l#" [sf u k])) (add [num p q, sf u k]) = add [num p q, l0 k] := by
    simp [fresh_single, subst, substList, lookup, eqb]
  rw [e1, e2]
  apply ne_of_evalAt (fun _ => 1)
  simp only [denG, denGSum, denGProd, alpha, l0, refute_sf, refute_cst, map_add, map_mul, map_zero, evalAt_C,
    evalAt_algebraMap]
  intro h
  apply hc
  linarith

/-- **reject_sound_power** — a power `u^m`, `m ≥ 2`, of the argument is rejected. -/
theorem reject_sound_power (d : Nat) (u : String) (k : Kind) (dom : String) (m : Nat) (hm : 2 ≤ m) :
    isLinear d [sf u k] [(dom, pow (sf u k) (num (Int.ofNat m) 1))] = .ok false := by
  apply reject_of_refutation d u k dom _ (by rfl) 1
  have e1 : subst ([sf u k].zip (mulVals [sf u k])) (pow (sf u k) (num (Int.ofNat m) 1))
      = pow (mul [alpha, l0 k]) (num (Int.ofNat m) 1) := by
    simp [mulVals_single, subst, lookup, eqb]
  have e2 : subst ([sf u k].zip (freshList "l#" [sf u k])) (pow (sf u k) (num (Int.ofNat m) 1))
      = pow (l0 k) (num (Int.ofNat m) 1) := by
    simp [fresh_single, subst, lookup, eqb]
  rw [e1, e2]
  apply ne_of_evalAt (fun _ => 1)
  simp only [denG, denGProd, powSem, PD.intLit, alpha, l0, refute_sf, refute_cst, map_mul, map_pow, map_one, evalAt_C,
    mul_one, one_pow]
  exact two_pow_ne m hm

/-- **reject_sound_selfproduct** — a product of the argument with itself, `u·u`, is rejected … -/
theorem reject_sound_selfproduct (d : Nat) (u : String) (k : Kind) (dom : String) :
    isLinear d [sf u k] [(dom, mul [sf u k, sf u k])] = .ok false := by
  apply reject_of_refutation d u k dom _ (by rfl) 1
  have e1 : subst ([sf u k].zip (mulVals [sf u k])) (mul [sf u k, sf u k])
      = mul [mul [alpha, l0 k], mul [alpha, l0 k]] := by
    simp [mulVals_single, subst, substList, lookup, eqb]
  have e2 : subst ([sf u k].zip (freshList "l#" [sf u k])) (mul [sf u k, sf u k]) = mul [l0 k, l0 k] := by
    simp [fresh_single, subst, substList, lookup, eqb]
  rw [e1, e2]
  apply ne_of_evalAt (fun _ => 1)
  simp only [denG, denGProd, alpha, l0, refute_sf, refute_cst, map_mul, map_one, evalAt_C, mul_one]
  norm_num

/-- … and so is the product of the argument with its own derivative, `u·∂u`. -/
theorem reject_sound_selfproduct_deriv (d : Nat) (u : String) (k : Kind) (dom : String) (c : Coord) :
    isLinear d [sf u k] [(dom, mul [sf u k, pd c (sf u k)])] = .ok false := by
  apply reject_of_refutation d u k dom _ (by rfl) (MvPolynomial.X c)
  have e1 : subst ([sf u k].zip (mulVals [sf u k])) (mul [sf u k, pd c (sf u k)])
      = mul [mul [alpha, l0 k], pd c (mul [alpha, l0 k])] := by
    simp [mulVals_single, subst, substList, lookup, eqb]
  have e2 : subst ([sf u k].zip (freshList "l#" [sf u k])) (mul [sf u k, pd c (sf u k)]) = mul [l0 k, pd c (l0 k)] := by
    simp [fresh_single, subst, substList, lookup, eqb]
  rw [e1, e2]
  apply ne_of_evalAt (fun _ => 1)
  simp only [denG, denGProd, alpha, l0, refute_sf, refute_cst, refute_D, mul_one, Derivation.leibniz,
    MvPolynomial.pderiv_X_self, MvPolynomial.pderiv_C, smul_eq_mul, map_mul, map_add, map_one, map_zero, evalAt_C]
  simp [evalAt]

/-- **reject_sound_nonlinear_fn** — an elementary function of the argument, `f(u)`, is rejected
    (the refuting interpretation reads `f` as the square). -/
theorem reject_sound_nonlinear_fn (d : Nat) (u : String) (k : Kind) (dom : String) (f : String) :
    isLinear d [sf u k] [(dom, fn f (sf u k))] = .ok false := by
  apply reject_of_refutation d u k dom _ (by rfl) 1
  have e1 : subst ([sf u k].zip (mulVals [sf u k])) (fn f (sf u k)) = fn f (mul [alpha, l0 k]) := by
    simp [mulVals_single, subst, lookup, eqb]
  have e2 : subst ([sf u k].zip (freshList "l#" [sf u k])) (fn f (sf u k)) = fn f (l0 k) := by
    simp [fresh_single, subst, lookup, eqb]
  rw [e1, e2]
  apply ne_of_evalAt (fun _ => 1)
  simp only [denG, denGProd, alpha, l0, refute_sf, refute_cst, refute_fn, map_mul, map_one, evalAt_C, mul_one]
  norm_num

/- Goal (not proved): `reject_sound_full` — for every operator-free integrand `e` whose polynomial
   normal form in the argument and its derivatives has a monomial of argument-degree ≠ 1 there is an
   interpretation refuting additivity or homogeneity, hence `isLinear … = .ok false`; and the
   `degree_criterion` (`isLinear = .ok true` iff every monomial has argument-degree exactly 1).  Both
   need that distinct normal forms of core's normaliser are separated by some interpretation. -/

/-! ### non-vacuity: the model accepts the classical linear integrands -/

def exV : E := sf "v" .h1
def exU : E := sf "u" .h1
def exFld : E := sf "f" .h1

example : isLinear 2 [exV] [("Omega", add [mul [exFld, exV], mul [num 2 1, pd .x exV]])] = .ok true := by decide
example : isBilinear 2 [exU] [exV]
    [("Omega", add [mul [exFld, op2 .dot (op1 .grad exU) (op1 .grad exV)], mul [exU, exV]]), ("Gamma", mul [exU, exV])]
    = .ok true := by decide
example : isBilinear 2 [exU] [exV] [("Omega", mul [exU, exU, exV])] = .ok false := by decide
example : OpFree (add [mul [exFld, exV], mul [num 2 1, pd .x exV]]) = true := by decide
example : additive 2 [exV] (add [mul [exFld, exV], mul [num 2 1, pd .x exV]]) = .ok true ∧
    homogeneous 2 [exV] (add [mul [exFld, exV], mul [num 2 1, pd .x exV]]) = .ok true := by decide

end Sympde.Linear
