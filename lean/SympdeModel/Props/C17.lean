/-
  C17 — derivative atoms have a canonical identity: naming and order bookkeeping.
  Property theorems only.  Model: Model/Atoms.lean (`symb` = SymbolicExpr, `maxOrders` =
  get_max_(logical_)partial_derivatives with `findPd`/`sortPd`/`indexAtom`).  Specifications
  (`symChars`, `Hygienic`, `trueMax`) and helper lemmas: Lemmas/AtomsName.lean, AtomsMax.lean.
-/
import SympdeModel.Lemmas.AtomsName
import SympdeModel.Lemmas.AtomsMax
namespace Sympde.Atoms
open E

/-! ### naming -/

/-- **symName_order_invariant** — whatever is below them, the derivatives of one kind at the head
    of a chain may be applied in any order: the symbol is the same. -/
theorem symName_order_invariant (lg : Bool) (cs cs' : List Coord) (hp : pureKind lg cs)
    (hperm : cs.Perm cs') (a : E) : symb (mkChain cs a) = symb (mkChain cs' a) := by
  have hp' : pureKind lg cs' := fun c hc => hp c (hperm.mem_iff.mpr hc)
  cases cs with
  | nil => rw [List.nil_perm.mp hperm]
  | cons c rest =>
    cases cs' with
    | nil => exact absurd (List.perm_nil.mp hperm) (by simp)
    | cons c' rest' =>
      unfold symb
      simp only [mkChain, List.foldr_cons]
      rw [symbP_open, symbP_open, hp c (by simp), hp' c' (by simp)]
      have h1 := symbP_block lg rest (fun x hx => hp x (by simp [hx])) (incr (0, 0, 0) c) none a
      have h2 := symbP_block lg rest' (fun x hx => hp' x (by simp [hx])) (incr (0, 0, 0) c') none a
      simp only [mkChain] at h1 h2
      rw [h1, h2]
      have := countFrom_perm hperm (0, 0, 0)
      simp only [countFrom, List.foldl_cons] at this ⊢
      rw [this]

/-- **symName** — the symbol of a chain of `n ≥ 1` derivatives of one kind over a function or
    vector component is `name[_component]_code`, the code being that of the multi-index. -/
theorem symName_pure (lg : Bool) (c : Coord) (cs : List Coord) (hp : pureKind lg (c :: cs)) (a : E)
    (ha : isFunAtom a = true) :
    symb (mkChain (c :: cs) a) = .ok (sym (String.ofList
      (symChars (atomName a).1 (atomName a).2 [⟨lg, countFrom (0, 0, 0) (c :: cs)⟩]))) := by
  rw [symb_pure_chain lg c cs hp a ha]
  cases a with
  | sf n k => simp [symChars, atomName, baseChars, compChars, tailChars]
  | idx b i =>
    cases b with
    | vf n k => simp [symChars, atomName, baseChars, compChars, tailChars]
    | _ => simp [isFunAtom] at ha
  | _ => simp [isFunAtom] at ha

/-- … and the symbol of the atom itself is `name[_component]` -/
theorem symName_atom (a : E) (ha : isFunAtom a = true) :
    symb a = .ok (sym (String.ofList (symChars (atomName a).1 (atomName a).2 []))) := by
  unfold symb
  rw [symbP_atom a ha]
  cases a with
  | sf n k => simp [symChars, atomName, baseChars, compChars, tailChars, closeBlock, withCode]
  | idx b i =>
    cases b with
    | vf n k => simp [symChars, atomName, baseChars, compChars, tailChars, closeBlock, withCode]
    | _ => simp [isFunAtom] at ha
  | _ => simp [isFunAtom] at ha

/-- **symName_blocks** — the general form, also for chains mixing physical and logical
    derivatives: blocks of derivatives of one kind (outermost first, neighbouring blocks of
    different kinds) over a function or component give `name[_component]` followed by one
    `_code` per block, innermost block first — exactly `symChars` of the reversed block list. -/
theorem symName_blocks (bl : List (Bool × List Coord)) (hok : BlocksOK bl) (a : E) (ha : isFunAtom a = true) :
    symb (mkBlocks bl a) = .ok (sym (String.ofList
      (symChars (atomName a).1 (atomName a).2 (bl.reverse.map toBlock)))) := by
  unfold symb
  rw [symbP_blocks bl hok a ha none (by intro o h; cases h)]
  apply ok_sym_congr
  cases a with
  | sf n k => simp [symChars, atomName, baseChars, compChars, outerSuffix]
  | idx b i =>
    cases b with
    | vf n k => simp [symChars, atomName, baseChars, compChars, outerSuffix]
    | _ => simp [isFunAtom] at ha
  | _ => simp [isFunAtom] at ha

/-- the blocks of a well-formed chain are valid (non-zero multi-indices) -/
theorem blocks_valid (bl : List (Bool × List Coord)) (hok : BlocksOK bl) :
    ∀ b ∈ bl.reverse.map toBlock, b.valid := by
  intro b hb
  obtain ⟨x, hx, rfl⟩ := List.mem_map.mp hb
  have hx' : x ∈ bl := List.mem_reverse.mp hx
  have : x.2 ≠ [] := by
    clear hb hx
    induction bl with
    | nil => cases hx'
    | cons y rest ih =>
      cases rest with
      | nil =>
        simp only [List.mem_singleton] at hx'
        subst hx'
        exact hok.1
      | cons z rest' =>
        rcases List.mem_cons.mp hx' with rfl | h
        · exact hok.1
        · exact ih hok.2.2.2 h
  exact countFrom_pos x.2 this

/-- **symName_injective** — under the hygiene hypothesis, two chains (any number of blocks of
    physical / logical derivatives, over functions or components of functions of the family)
    get the same symbol name IFF function, component and multi-indices coincide. -/
theorem symName_injective (names : List (List Char)) (hh : Hygienic names)
    (n1 n2 : List Char) (h1 : n1 ∈ names) (h2 : n2 ∈ names) (c1 c2 : Option Nat) (bs1 bs2 : List Block)
    (hv1 : ∀ b ∈ bs1, b.valid) (hv2 : ∀ b ∈ bs2, b.valid) :
    symChars n1 c1 bs1 = symChars n2 c2 bs2 ↔ n1 = n2 ∧ c1 = c2 ∧ bs1 = bs2 := by
  constructor
  · intro h
    simp only [symChars, List.append_assoc] at h
    have key : ∀ (m1 m2 : List Char) (d1 d2 : Option Nat) (b1 b2 : List Block), m1 ∈ names → m2 ∈ names →
        (∀ b ∈ b1, b.valid) → (∀ b ∈ b2, b.valid) →
        ∀ r, m2 = m1 ++ r → compChars d1 ++ tailChars b1 = r ++ (compChars d2 ++ tailChars b2) → r = [] := by
      intro m1 m2 d1 d2 b1 b2 hm1 hm2 hb1 hb2 r hr hs
      cases hrn : r with
      | nil => rfl
      | cons x xs =>
        exfalso
        rw [suffix_eq_render, suffix_eq_render] at hs
        obtain ⟨P, Q, hPQ, hP⟩ := renderSegs_prefix _ _ r (segsOf_no_underscore d1 b1) hs
        have hPne : P ≠ [] := by
          intro he; subst he; rw [hrn] at hP; simp [renderSegs] at hP
        have := prefix_isSuffix d1 b1 hb1 P Q hPQ hPne
        exact hh m1 hm1 m2 hm2 _ this (by rw [← hP]; exact hr)
    rcases List.append_eq_append_iff.mp h with ⟨r, hr, hs⟩ | ⟨r, hr, hs⟩
    · have := key n1 n2 c1 c2 bs1 bs2 h1 h2 hv1 hv2 r hr hs
      subst this
      simp only [List.append_nil, List.nil_append] at hr hs
      obtain ⟨e1, e2⟩ := suffix_inj c1 c2 bs1 bs2 hv1 hv2 hs
      exact ⟨hr.symm, e1, e2⟩
    · have := key n2 n1 c2 c1 bs2 bs1 h2 h1 hv2 hv1 r hr hs
      subst this
      simp only [List.append_nil, List.nil_append] at hr hs
      obtain ⟨e1, e2⟩ := suffix_inj c2 c1 bs2 bs1 hv2 hv1 hs
      exact ⟨hr, e1.symm, e2.symm⟩
  · rintro ⟨rfl, rfl, rfl⟩; rfl

/-- names as `String`s: `String.ofList` is injective, so the statement transfers to the symbols -/
theorem symbol_injective (a b : List Char) : sym (String.ofList a) = sym (String.ofList b) ↔ a = b := by
  constructor
  · intro h
    injection h with h
    have := congrArg String.toList h
    simpa using this
  · rintro rfl; rfl

/-- **hygiene is necessary**: where it fails, a bare function gets the symbol of a component or
    derivative of another function. -/
theorem hygiene_needed (names : List (List Char)) (h : ¬ Hygienic names) :
    ∃ n1 ∈ names, ∃ n2 ∈ names, ∃ c bs, (c ≠ none ∨ bs ≠ []) ∧ (∀ b ∈ bs, b.valid) ∧
      symChars n2 none [] = symChars n1 c bs := by
  apply Classical.byContradiction
  intro hcon
  apply h
  intro n1 h1 n2 h2 s hs he
  apply hcon
  obtain ⟨c, bs, hne, hv, rfl⟩ := hs
  exact ⟨n1, h1, n2, h2, c, bs, hne, hv, by simp [symChars, compChars, tailChars, he]⟩

/-- the decidable sufficient condition -/
theorem prefixFree_hygienic (names : List (List Char)) (h : prefixFree names = true) : Hygienic names := by
  intro n1 h1 n2 h2 s hs he
  obtain ⟨c, bs, hne, _, rfl⟩ := hs
  have hstart : ∃ r, compChars c ++ tailChars bs = '_' :: r := by
    cases c with
    | some i => exact ⟨_, rfl⟩
    | none =>
      cases bs with
      | nil => simp at hne
      | cons b bs => exact ⟨_, rfl⟩
  obtain ⟨r, hr⟩ := hstart
  simp only [prefixFree, List.all_eq_true] at h
  have := h n1 h1 n2 h2
  rw [he, hr] at this
  have hp : (n1 ++ ['_']).isPrefixOf (n1 ++ '_' :: r) = true := by
    rw [List.isPrefixOf_iff_prefix]
    exact ⟨r, by simp⟩
  simp [hp] at this

/-- counterexamples of the two open findings (un-hygienic names): a function literally named
    `u_x` has the symbol of `dx(u)`; a scalar function named `F_0` that of the component `F[0]` -/
theorem collision_u_x (k : Kind) : symb (pd .x (sf "u" k)) = symb (sf "u_x" k) := by rfl

theorem collision_F_0 (k : Kind) : symb (idx (vf "F" k) 0) = symb (sf "F_0" k) := by rfl

/-! ### SymbolicExpr is a homomorphism -/

/-- **symbolic_hom** — `SymbolicExpr` commutes with sums, products, powers (base *and* exponent),
    matrices, tuples and elementary functions, and leaves numbers, constants and plain symbols
    untouched. -/
theorem symbolic_hom (code : Option (List Char)) :
    (∀ as ss, symbList code as = .ok ss → symbP none code (add as) = .ok (add ss)) ∧
    (∀ as ss, symbList code as = .ok ss → symbP none code (mul as) = .ok (mul ss)) ∧
    (∀ b e b' e', symbP none code b = .ok b' → symbP none code e = .ok e' →
        symbP none code (pow b e) = .ok (pow b' e')) ∧
    (∀ r c es ss, symbList code es = .ok ss → symbP none code (mat r c es) = .ok (mat r c ss)) ∧
    (∀ as ss, symbList code as = .ok ss → symbP none code (tup as) = .ok (tup ss)) ∧
    (∀ f a a', symbP none code a = .ok a' → symbP none code (fn f a) = .ok (fn f a')) ∧
    (∀ p q, symbP none code (num p q) = .ok (num p q)) ∧
    (∀ n, symbP none code (cst n) = .ok (cst n)) ∧
    (∀ n, symbP none code (sym n) = .ok (sym n)) := by
  refine ⟨?_, ?_, ?_, ?_, ?_, ?_, ?_, ?_, ?_⟩
  · intro as ss h; rw [symbP]; simp [closeBlock, h, Except.map]
  · intro as ss h; rw [symbP]; simp [closeBlock, h, Except.map]
  · intro b e b' e' hb he; rw [symbP]; simp [closeBlock, hb, he]
  · intro r c es ss h; rw [symbP]; simp [closeBlock, h, Except.map]
  · intro as ss h; rw [symbP]; simp [closeBlock, h, Except.map]
  · intro f a a' h; rw [symbP]; simp [closeBlock, h, Except.map]
  · intro p q; rw [symbP]
  · intro n; rw [symbP]
  · intro n; rw [symbP]

/-! ### matrices and tuples: shape and entries -/

/-- **symbolic_matrix_entries** — `SymbolicExpr` of a matrix (`r` rows, `c` columns, entries in
    row-major order; any shape, square or not) succeeds iff every entry converts, and the result
    is a matrix of the SAME shape `r × c` with the same number of entries, the `k`-th one being
    the conversion of the `k`-th entry (with the code in force once a pending block of
    derivatives is closed). -/
theorem symbolic_matrix_entries (pend : Option (Bool × (Nat × Nat × Nat))) (outer : Option (List Char))
    (r c : Nat) (es : List E) (m : E) :
    symbP pend outer (mat r c es) = .ok m ↔
      ∃ ss, m = mat r c ss ∧ es.length = ss.length ∧
        ∀ k (hk : k < es.length) (hk' : k < ss.length),
          symbP none (closeBlock pend outer) es[k] = .ok ss[k] := by
  rw [symbP]
  constructor
  · intro h
    cases hs : symbList (closeBlock pend outer) es with
    | error x => rw [hs] at h; cases h
    | ok ss =>
      rw [hs] at h
      injection h with h
      exact ⟨ss, h.symm, (symbList_spec _ es ss).mp hs⟩
  · rintro ⟨ss, rfl, hl, hent⟩
    rw [(symbList_spec _ es ss).mpr ⟨hl, hent⟩]
    rfl

/-- … in particular entry `(i, j)` (position `i * c + j` of the row-major list) of
    `SymbolicExpr(M)` is `SymbolicExpr(M[i, j])`: no transposition, no re-flow of the entries. -/
theorem symbolic_matrix_entry (r c : Nat) (es ss : List E)
    (h : symb (mat r c es) = .ok (mat r c ss)) (i j : Nat) (_ : i < r) (_ : j < c)
    (hk : i * c + j < es.length) (hk' : i * c + j < ss.length) :
    symb es[i * c + j] = .ok ss[i * c + j] := by
  obtain ⟨ss', hm, _, hent⟩ := (symbolic_matrix_entries none none r c es _).mp h
  injection hm with _ _ hss
  subst hss
  exact hent _ hk hk'

/-- the shape cannot change: a result of `SymbolicExpr(mat r c …)` is never a matrix of another
    shape (e.g. the transposed one) -/
theorem symbolic_matrix_shape (r c r' c' : Nat) (es ss : List E)
    (h : symb (mat r c es) = .ok (mat r' c' ss)) : r' = r ∧ c' = c ∧ ss.length = es.length := by
  obtain ⟨ss', hm, hl, _⟩ := (symbolic_matrix_entries none none r c es _).mp h
  injection hm with hr hc hss
  subst hss
  exact ⟨hr, hc, hl.symm⟩

/-- **symbolic_tuple_entries** — the same for tuples / lists (`Tuple` of the conversions, same
    length, same order). -/
theorem symbolic_tuple_entries (pend : Option (Bool × (Nat × Nat × Nat))) (outer : Option (List Char))
    (es : List E) (m : E) :
    symbP pend outer (tup es) = .ok m ↔
      ∃ ss, m = tup ss ∧ es.length = ss.length ∧
        ∀ k (hk : k < es.length) (hk' : k < ss.length),
          symbP none (closeBlock pend outer) es[k] = .ok ss[k] := by
  rw [symbP]
  constructor
  · intro h
    cases hs : symbList (closeBlock pend outer) es with
    | error x => rw [hs] at h; cases h
    | ok ss =>
      rw [hs] at h
      injection h with h
      exact ⟨ss, h.symm, (symbList_spec _ es ss).mp hs⟩
  · rintro ⟨ss, rfl, hl, hent⟩
    rw [(symbList_spec _ es ss).mpr ⟨hl, hent⟩]
    rfl

/-! ### order bookkeeping -/

/-- **maxOrders_eq_true**, per function — for a kernel in which every derivative chain is
    applied to a function or vector component, and a function or component `f`, the reported
    maximal order in each direction equals the true maximum over all derivative chains of `f`
    found by a full traversal (inside elementary functions, exponents, matrices, and through
    blocks of the other kind of derivative). -/
theorem maxOrders_eq_true_for (lg : Bool) (e f : E) (hc : canon e = true) (hf : isFunAtom f = true)
    (k : Nat) : comp3 k (maxOrders lg e (some f)) = trueMax (Coord.ofIdx lg k) (some f) e := by
  rw [maxOrders_comp, trueMax_eq_sup]
  simp only
  have hchains := canon_chains e hc
  apply Nat.le_antisymm
  · apply supNat_le
    intro x hx
    simp only [indexAtom, List.map_map, List.mem_map, List.mem_filter, Function.comp] at hx
    obtain ⟨i, ⟨hi, hP⟩, rfl⟩ := hx
    have hi' := (mem_sortPd e i).mp hi
    have hfa := hchains i hi'
    rw [comp3_indexOf, countPd_chain _ _ hfa]
    apply le_supNat
    refine List.mem_map.mpr ⟨i, hi', ?_⟩
    -- the chain does belong to `f`
    have hm : sameAtom (stripAll i) f = true := by
      rcases Bool.or_eq_true_iff.mp hP with h | h
      · have he := sameAtom_eq hf h
        have hnp : ∀ c a, stripKind lg i ≠ pd c a := by rw [he]; exact isFunAtom_not_pd hf
        rw [stripKind_eq_stripAll lg i hnp, he]
        exact sameAtom_refl hf
      · exact h
    simp [chainVal, hfa, matchF, hm]
  · apply supNat_le
    intro x hx
    obtain ⟨i, hi, rfl⟩ := List.mem_map.mp hx
    have hfa := hchains i hi
    by_cases hm : sameAtom (stripAll i) f = true
    · simp only [chainVal, hfa, matchF, hm, Bool.and_self, if_true]
      apply le_supNat
      simp only [indexAtom, List.map_map, List.mem_map, List.mem_filter, Function.comp]
      refine ⟨i, ⟨(mem_sortPd e i).mpr hi, by simp [hm]⟩, ?_⟩
      rw [comp3_indexOf, countPd_chain _ _ hfa]
    · simp [chainVal, matchF, hm]

/-- **maxOrders_eq_true**, overall — the same with no function given (`F=None`): the reported
    maximum equals the true maximum over the chains of all functions and components. -/
theorem maxOrders_eq_true (lg : Bool) (e : E) (hc : canon e = true) (k : Nat) :
    comp3 k (maxOrders lg e none) = trueMax (Coord.ofIdx lg k) none e := by
  rw [maxOrders_comp, trueMax_eq_sup]
  simp only
  have hchains := canon_chains e hc
  apply Nat.le_antisymm
  · apply supNat_le
    intro x hx
    simp only [List.mem_map, List.mem_flatMap, indexAtom, List.mem_filter] at hx
    obtain ⟨t, ⟨f, _, i, ⟨hi, _⟩, rfl⟩, rfl⟩ := hx
    have hi' := (mem_sortPd e i).mp hi
    have hfa := hchains i hi'
    rw [comp3_indexOf, countPd_chain _ _ hfa]
    apply le_supNat
    exact List.mem_map.mpr ⟨i, hi', by simp [chainVal, hfa, matchF]⟩
  · apply supNat_le
    intro x hx
    obtain ⟨i, hi, rfl⟩ := List.mem_map.mp hx
    have hfa := hchains i hi
    simp only [chainVal, hfa, matchF, Bool.and_self, if_true]
    apply le_supNat
    simp only [List.mem_map, List.mem_flatMap, indexAtom, List.mem_filter]
    refine ⟨indexOf lg i, ⟨stripAll i, chain_atom_mem e i hi hfa, i,
      ⟨(mem_sortPd e i).mpr hi, by simp [sameAtom_refl hfa]⟩, rfl⟩, ?_⟩
    rw [comp3_indexOf, countPd_chain _ _ hfa]

/-- **maxOrders_ge_true** — never less. -/
theorem maxOrders_ge_true (lg : Bool) (e : E) (hc : canon e = true) (k : Nat) :
    trueMax (Coord.ofIdx lg k) none e ≤ comp3 k (maxOrders lg e none) :=
  Nat.le_of_eq (maxOrders_eq_true lg e hc k).symm

/-! ### non-vacuity -/

def exF : E := sf "f" .h1
def exG : E := idx (vf "G" .h1) 1
/-- `sin(dx(dx(f))) + dx(f)*dy(dx(G[1]))**dx1(dx(f))`, with a matrix around it -/
def exKernel : E :=
  mat 1 2 [add [fn "sin" (pd .x (pd .x exF)),
                mul [pd .x exF, pow (pd .y (pd .x exG)) (pd .x1 (pd .x exF))]], exG]

example : canon exKernel = true := by decide
example : maxOrders false exKernel none = (2, 1, 0) := by decide
example : maxOrders true exKernel (some exF) = (1, 0, 0) := by decide
example : (trueMax .x none exKernel, trueMax .y (some exG) exKernel, trueMax .x1 (some exF) exKernel) = (2, 1, 1) := by
  decide
example : pureKind false [.y, .x, .x] ∧ [Coord.y, .x, .x].Perm [.x, .y, .x] :=
  ⟨by intro c hc; simp at hc; rcases hc with rfl | rfl <;> rfl, by decide⟩
example : symb (mkChain [.y, .x, .x] exG) = .ok (sym "G_1_xxy") := by rfl
example : symb (pd .x (pd .x1 (pd .x exF))) = .ok (sym "f_x_x1_x") := by rfl
example : BlocksOK [(false, [.x]), (true, [.x1]), (false, [.x])] :=
  ⟨by simp, by intro c hc; simp at hc; subst hc; rfl, by simp,
   by simp, by intro c hc; simp at hc; subst hc; rfl, by simp,
   by simp, by intro c hc; simp at hc; subst hc; rfl⟩
example : Hygienic ["f".toList, "G".toList, "u_h".toList] :=
  prefixFree_hygienic _ (by decide)
example : ¬ Hygienic ["u".toList, "u_x".toList] := by
  intro h
  exact h "u".toList (by simp) "u_x".toList (by simp) "_x".toList
    ⟨none, [⟨false, (1, 0, 0)⟩], Or.inr (by simp), by intro b hb; simp at hb; subst hb; simp [Block.valid], by decide⟩
    (by decide)
example : symb (add [pow (pd .x exF) (pd .y exF), num 2 1])
    = .ok (add [pow (sym "f_x") (sym "f_y"), num 2 1]) := by rfl
example : symb (mat 1 3 [pd .x exF, pd .y (pd .x exF), exG])
    = .ok (mat 1 3 [sym "f_x", sym "f_xy", sym "G_1"]) := by rfl
example : symb (mat 2 3 [pd .x exF, pd .y exF, exF, pd .x exG, pd .y exG, exG])
    = .ok (mat 2 3 [sym "f_x", sym "f_y", sym "f", sym "G_1_x", sym "G_1_y", sym "G_1"]) := by rfl
example : symb (tup [pd .x exF, exG]) = .ok (tup [sym "f_x", sym "G_1"]) := by rfl

end Sympde.Atoms
