/-
  C12 — results depend only on inputs: no leakage from history, cache or hash seed.
  Property theorems only (definitions and helper lemmas: Model/Memo.lean, Lemmas/Memo.lean,
  Lemmas/Union.lean; the identity table `Gen.identity` is regenerated from the live classes on
  every run).

  What is a theorem here and what is learnt: the theorems hold for EVERY function `F`, every key
  function and every history; that sympde's entry points are "field-parametric" functions whose read
  sets are the `reads` column of the table is learnt by differential execution (harness), not proved.
-/
import SympdeModel.Lemmas.Memo
import SympdeModel.Gen.Identity
namespace Sympde.Memo
open USet

section
variable {φ κ α ρ : Type} [DecidableEq φ] [DecidableEq κ]

/-- **memoisation is transparent for every history** when the function reads nothing beyond the
    key: after ANY sequence of calls (of any functions on any objects), cache clears and switches of
    the cache, starting from ANY consistent table, a call returns exactly the function's value. -/
theorem memo_transparent_from (key : α → κ) (F : φ → α → ρ) (hk : KeyDetermined key F)
    (s : State φ κ ρ) (hs : Consistent key F s.table) (h : List (Op φ α)) (f : φ) (o : α) :
    (step key F (exec key F s h) (.call f o)).2 = some (F f o) := by
  have hc := consistent_exec key F s h hs
  generalize exec key F s h = s' at hc
  simp only [step]
  split
  · cases hl : lookup s'.table (f, key o) with
    | none => rfl
    | some r =>
      obtain ⟨o', hk', hv⟩ := hc _ (lookup_mem _ _ _ hl)
      simp only at hk' hv
      simp only []
      rw [← hv, hk f o' o hk']
  · rfl

theorem memo_transparent (key : α → κ) (F : φ → α → ρ) (hk : KeyDetermined key F)
    (h : List (Op φ α)) (f : φ) (o : α) : run key F h (.call f o) = some (F f o) :=
  memo_transparent_from key F hk init (by intro e he; cases he) h f o

/-- **the criterion is exact**: as soon as two objects with the same key have different values,
    the one-call history exhibits a leak — the second call returns the value of the first object. -/
theorem memo_leak (key : α → κ) (F : φ → α → ρ) (f : φ) (o₁ o₂ : α) (hkey : key o₁ = key o₂)
    (hne : F f o₁ ≠ F f o₂) :
    run key F [.call f o₁] (.call f o₂) = some (F f o₁) ∧
      run key F [.call f o₁] (.call f o₂) ≠ some (F f o₂) := by
  have : run key F [.call f o₁] (.call f o₂) = some (F f o₁) := by
    simp [run, exec, step, init, lookup, hkey]
  exact ⟨this, by rw [this]; intro h; exact hne (Option.some.inj h)⟩

/-- transparency for all histories ⟺ the function is determined by the key -/
theorem memo_transparent_iff (key : α → κ) (F : φ → α → ρ) :
    (∀ (h : List (Op φ α)) f o, run key F h (.call f o) = some (F f o)) ↔ KeyDetermined key F := by
  constructor
  · intro H f o₁ o₂ hkey
    apply Classical.byContradiction
    intro hne
    exact (memo_leak key F f o₁ o₂ hkey hne).2 (H _ f o₂)
  · intro hk h f o; exact memo_transparent key F hk h f o

/-- with the cache switched off, or right after `clear_cache()`, every function is computed
    afresh — whatever it reads and whatever happened before -/
theorem cache_off_transparent (key : α → κ) (F : φ → α → ρ) (h : List (Op φ α)) (f : φ) (o : α) :
    run key F (h ++ [.cacheOff]) (.call f o) = some (F f o) ∧
    run key F (h ++ [.clear]) (.call f o) = some (F f o) := by
  have e1 : ∀ (s : State φ κ ρ) (ops : List (Op φ α)) (op : Op φ α),
      exec key F s (ops ++ [op]) = (step key F (exec key F s ops) op).1 := by
    intro s ops op
    induction ops generalizing s with
    | nil => rfl
    | cons x xs ih => exact ih _
  constructor
  · simp [run, e1, step]
  · simp only [run, e1, step]
    split <;> simp [lookup]

end

/-! ### the identity table -/

/-- **`leaks t = []` implies key-determinedness** for functions that read the object only through
    the attributes the table lists for them: if every attribute read by some entry point takes part
    in `==`/`hash`, no entry point can tell two objects with the same key apart. -/
theorem leaks_complete {V ρ : Type} (t : List Row) (hl : leaks t = [])
    (key : (String → V) → List (String × V))
    (hkey : ∀ o₁ o₂, key o₁ = key o₂ → ∀ a, InKey t a → o₁ a = o₂ a)
    (F : String → (String → V) → ρ)
    (hF : ∀ f o₁ o₂, (∀ a, Reads t f a → o₁ a = o₂ a) → F f o₁ = F f o₂) :
    KeyDetermined key F := by
  intro f o₁ o₂ hk
  apply hF
  intro a ⟨r, hr, ha, hf⟩
  apply hkey o₁ o₂ hk a
  refine ⟨r, hr, ha, ?_⟩
  have hnot : r.leaks = false := by
    cases hlk : r.leaks
    · rfl
    · have : r ∈ leaks t := List.mem_filter.mpr ⟨hr, hlk⟩
      rw [hl] at this; cases this
  have hne : r.reads.isEmpty = false := by
    cases hre : r.reads with
    | nil => rw [hre] at hf; cases hf
    | cons _ _ => rfl
  simp only [Row.leaks, hne, Bool.not_false, Bool.and_true] at hnot
  exact hnot

/-- hence, for such functions, a table without leaks makes memoisation transparent for every history -/
theorem no_leak_transparent {V ρ : Type} (t : List Row) (hl : leaks t = [])
    (key : (String → V) → List (String × V)) [DecidableEq V]
    (hkey : ∀ o₁ o₂, key o₁ = key o₂ → ∀ a, InKey t a → o₁ a = o₂ a)
    (F : String → (String → V) → ρ)
    (hF : ∀ f o₁ o₂, (∀ a, Reads t f a → o₁ a = o₂ a) → F f o₁ = F f o₂)
    (h : List (Op String (String → V))) (f : String) (o : String → V) :
    run key F h (.call f o) = some (F f o) :=
  memo_transparent key F (leaks_complete t hl key hkey F hF) h f o

/-- conversely a leaking row names an attribute that an entry point reads and the key ignores -/
theorem leaks_sound (t : List Row) (r : Row) (h : r ∈ leaks t) :
    r ∈ t ∧ r.eq = true ∧ r.hashEq = true ∧ r.reads ≠ [] := by
  obtain ⟨hm, hl⟩ := List.mem_filter.mp h
  simp only [Row.leaks, Bool.and_eq_true, Bool.not_eq_true', List.isEmpty_eq_false_iff] at hl
  exact ⟨hm, hl.1.1, hl.1.2, hl.2⟩

/-- **the table regenerated from the live classes leaks exactly in the known rows** (each is an
    open finding of C12 with a deterministic witness).  This statement is re-checked by the kernel
    against what the code says now: a new attribute that is read but not compared — or a repaired
    one — changes `Gen.identity` and stops this theorem from compiling. -/
theorem identity_table_ok : leaks Gen.identity = Known.leaks := by decide

/-! ### order of supply: sorted sets -/

/-- **argument-order independence of every "sort a set by str" site** (unions, connectivity
    names, operands ordered by `str`): permuted supplies give the same canonical list -/
theorem canon_perm {β : Type} [DecidableEq β] (key : β → String) (l₁ l₂ : List β)
    (hp : l₁.Perm l₂) (inj : KeyInj key l₁) : canon key l₁ = canon key l₂ :=
  canon_ext key l₁ l₂ inj (fun _ => hp.mem_iff)

/-- **hash-seed independence**: whatever order (and multiplicity) the iteration of the set delivers
    — that is all a different `PYTHONHASHSEED` can change — the sorted result is the same -/
theorem canon_iteration_order {β : Type} [DecidableEq β] (key : β → String) (l σ : List β)
    (hσ : ∀ x, x ∈ σ ↔ x ∈ l) (inj : KeyInj key l) : sortBy key (dedup σ) = canon key l :=
  (canon_ext key l σ inj (fun x => (hσ x).symm)).symm

/-! ### computing a result does not alter its inputs -/

/-- an operation that leaves the store as it found it -/
def ReadOnly {σ ρ : Type} (op : HOp σ ρ) : Prop := ∀ s, (op.act s).2 = s

/-- **read-only histories are invisible**: after any number of read-only operations every later
    operation sees the store it would have seen in a fresh interpreter -/
theorem readonly_history_invisible {σ ρ : Type} (s : σ) (h : List (HOp σ ρ))
    (hro : ∀ op ∈ h, ReadOnly op) : execH s h = s := by
  induction h generalizing s with
  | nil => rfl
  | cons op ops ih =>
    simp only [execH]
    rw [hro op (by simp) s]
    exact ih s (fun o ho => hro o (List.mem_cons_of_mem _ ho))

theorem readonly_result {σ ρ : Type} (s : σ) (h : List (HOp σ ρ)) (hro : ∀ op ∈ h, ReadOnly op)
    (last : HOp σ ρ) : (last.act (execH s h)).1 = (last.act s).1 := by
  rw [readonly_history_invisible s h hro]

/-- and the hypothesis is needed: one writing operation (the old `Equation`, which stored the
    position of the unknown into the caller's `EssentialBC`) changes what a later reader sees -/
theorem writer_is_visible :
    let setPosition : HOp (Option Nat) (Option Nat) := ⟨fun _ => (none, some 1)⟩
    let readPosition : HOp (Option Nat) (Option Nat) := ⟨fun s => (s, s)⟩
    (readPosition.act (execH none [setPosition])).1 ≠ (readPosition.act none).1 := by
  decide

/-! ### non-vacuity -/

-- a key-determined function (it returns the key) and a leaking one (it returns the hidden attribute)
example : KeyDetermined (fun (o : Nat × String) => o.1) (fun (_ : Nat) (o : Nat × String) => o.1) := fun _ _ _ h => h
example : run (fun (o : Nat × String) => o.1) (fun (_ : Nat) (o : Nat × String) => o.2)
    [.call 0 (7, "2-D result")] (.call 0 (7, "3-D result")) = some "2-D result" := by decide
example : run (fun (o : Nat × String) => o.1) (fun (_ : Nat) (o : Nat × String) => o.2)
    [.call 0 (7, "2-D result"), .clear] (.call 0 (7, "3-D result")) = some "3-D result" := by decide
example : (leaks Gen.identity).length = 3 := by decide
example : canon id ["b", "a", "b", "c"] = canon id ["c", "b", "a"] := by decide

end Sympde.Memo
