/-
  C02 (interface operators) — soundness of the constructors Jump / Average / Minus / Plus /
  NormalDerivative (`Calc.ifaceEval`, sympde/calculus/core.py `*.eval`) with respect to the
  two-sided meaning `denI` (Sem/DenI.lean, mirrors the oracle `InstPair`): every expression has a
  value on each side of the interface, functions are interpreted independently on the two sides,
      minus(w) = w⁻,  plus(w) = w⁺,  jump(w) = w⁻ − w⁺,  avg(w) = (w⁻ + w⁺)/2,
      Dn(w) = Σ_k n_k ∂_k w  with the normal of the side
  (`denI_minus`, `denI_plus`, `denI_jump`, `denI_avg`, `denI_dn`, `denI_normal`, `denI_sf`,
  `denI_add`, `denI_mul` in Lemmas/Calc3.lean are the recursive equations).
  Each theorem is for ALL argument trees (structural induction), all dimensions, both sides,
  every component.  Helpers: Lemmas/Calc3.lean.
-/
import SympdeModel.Lemmas.Calc3
namespace Sympde
open E Calc

variable {K : Type} [CommRing K] [Algebra ℚ K]

/-- **all five interface operators at once**: whatever `k(e)` returns — sum rule, coefficients
    pulled out, `[fg] = {f}[g] + [f]{g}`, `{fg} = {f}{g} + [f][g]/4`, restrictions of products =
    products of restrictions, Leibniz rule of `Dn`, zero jump / normal derivative of a product of
    constants, `minus(n) = n⁻`, `minus(Dn u) = grad(minus u) . n⁻`, entry-wise restriction of
    matrices, the unevaluated node otherwise (also after a refusal inside a product) — has the
    meaning of the literal `k(e)` on both sides of the interface.
    Side condition (Minus / Plus only, `strict k = false`): `DnOK e`. -/
theorem ifaceEval_sound (S : DRing K) (d : Nat) (lg : Bool) (k : IK) (e : E)
    (hk : strict k = true ∨ DnOK e = true) (r : E) (h : ifaceEval d k e = .ok r) :
    ∀ s i j, denI S d lg s r i j = denI S d lg s (op1 k.op e) i j := by
  intro s i j
  rw [denI_op]
  exact ifaceEval_sound' S d lg e k hk r h s i j

/-- **Jump** (no side condition) -/
theorem jumpEval_sound (S : DRing K) (d : Nat) (lg : Bool) (e r : E)
    (h : ifaceEval d .jump e = .ok r) :
    ∀ s i j, denI S d lg s r i j = denI S d lg s (op1 .jump e) i j :=
  ifaceEval_sound S d lg .jump e (Or.inl rfl) r h

/-- **Average** (no side condition) -/
theorem avgEval_sound (S : DRing K) (d : Nat) (lg : Bool) (e r : E)
    (h : ifaceEval d .avg e = .ok r) :
    ∀ s i j, denI S d lg s r i j = denI S d lg s (op1 .avg e) i j :=
  ifaceEval_sound S d lg .avg e (Or.inl rfl) r h

/-- **NormalDerivative** (no side condition): linear, constants out, Leibniz rule -/
theorem dnEval_sound (S : DRing K) (d : Nat) (lg : Bool) (e r : E)
    (h : ifaceEval d .dn e = .ok r) :
    ∀ s i j, denI S d lg s r i j = denI S d lg s (op1 .dn e) i j :=
  ifaceEval_sound S d lg .dn e (Or.inl rfl) r h

/-- **Minus**: `DnOK e` — every `Dn` met along the recursion (terms of sums, factors of
    products, entries of matrices) is applied to a scalar leaf (scalar function, symbol,
    constant); there `minus(Dn u) = Dot(Grad(minus u), n⁻)` -/
theorem minusEval_sound (S : DRing K) (d : Nat) (lg : Bool) (e : E) (hok : DnOK e = true) (r : E)
    (h : ifaceEval d .minus e = .ok r) :
    ∀ s i j, denI S d lg s r i j = denI S d lg s (op1 .minus e) i j :=
  ifaceEval_sound S d lg .minus e (Or.inr hok) r h

/-- **Plus**: as Minus -/
theorem plusEval_sound (S : DRing K) (d : Nat) (lg : Bool) (e : E) (hok : DnOK e = true) (r : E)
    (h : ifaceEval d .plus e = .ok r) :
    ∀ s i j, denI S d lg s r i j = denI S d lg s (op1 .plus e) i j :=
  ifaceEval_sound S d lg .plus e (Or.inr hok) r h

/-- the semantics separates the two sides: the jump of a function is the difference of two
    independent values, its average their half sum -/
example (S : DRing K) (d : Nat) (lg : Bool) (s : Side) (i j : Nat) :
    denI S d lg s (op1 .jump (sf "f" .h1)) i j = S.sf "M:f" - S.sf "P:f"
    ∧ denI S d lg s (op1 .avg (sf "f" .h1)) i j = halfK K * (S.sf "M:f" + S.sf "P:f") := by
  refine ⟨?_, ?_⟩
  · rw [denI_jump, denI_sf, denI_sf]; rfl
  · rw [denI_avg, denI_sf, denI_sf]; rfl

/-- non-vacuity: the rules fire on `jump(2*f*g + h)`, `avg(c*f*g*h)`, `Dn(3*f*g)`,
    `jump(2*c)` (zero), and `minus(c*f*Dn(g) + Dn(h) + n)` satisfies `DnOK` -/
example :
    (∃ r, ifaceEval 2 .jump (add [mul [num 2 1, sf "f" .h1, sf "g" .h1], sf "h" .h1]) = .ok r)
    ∧ (∃ r, ifaceEval 2 .avg (mul [cst "c", sf "f" .h1, sf "g" .h1, sf "h" .h1]) = .ok r)
    ∧ (∃ r, ifaceEval 2 .dn (mul [num 3 1, sf "f" .h1, sf "g" .h1]) = .ok r)
    ∧ ifaceEval 2 .jump (mul [num 2 1, cst "c"]) = .ok (mul [mul [num 2 1, cst "c"], E.zero])
    ∧ DnOK (add [mul [cst "c", sf "f" .h1, op1 .dn (sf "g" .h1)], op1 .dn (sf "h" .h1),
        normal "NormalVector:n"]) = true
    ∧ (∃ r, ifaceEval 2 .minus (add [mul [cst "c", sf "f" .h1, op1 .dn (sf "g" .h1)],
        op1 .dn (sf "h" .h1), normal "NormalVector:n"]) = .ok r) :=
  ⟨⟨_, rfl⟩, ⟨_, rfl⟩, ⟨_, rfl⟩, rfl, by decide, ⟨_, rfl⟩⟩

end Sympde
