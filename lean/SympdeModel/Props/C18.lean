/-
  C18 — equations normalise essential boundary conditions faithfully.
  Property theorems only (definitions of `Shape`, `normalise`, `IsCond` and helper lemmas are in
  Lemmas/BC.lean).  Model: Model/BC.lean (`mkCond` = EssentialBC.__new__, `equation` =
  Equation.__new__).
-/
import SympdeModel.Lemmas.BC
namespace Sympde.BC
open Lhs

/-- **Classification, soundness** — whatever the constructor accepts is written in one of the
    four admitted shapes, and the object carries exactly the attributes the statement
    prescribes for that shape (order, unknown, constrained components, normal flag), the
    left/right-hand sides, boundary and position being those passed in. -/
theorem classify_sound (lhs : Lhs) (rhs : String) (b : Bnd) (p : Option Nat)
    (ic0 : Option (List Nat)) (c : Cond) (h : mkCond lhs rhs b p ic0 = .ok c) :
    ∃ s : Shape, s.lhsIs lhs ∧ c = s.cond lhs rhs b p ic0 := by
  unfold mkCond at h
  cases hu : theFunction lhs with
  | error e => simp [hu] at h
  | ok u =>
    simp only [hu] at h
    split at h
    · cases h
    · rcases theFunction_shape lhs u hu with ⟨f, rfl⟩ | ⟨f, i, rfl⟩
      · -- u = fn f
        cases hn : normalAtoms lhs with
        | nil =>
          simp only [hn, isVecFn, List.isEmpty_nil, Bool.not_true, Bool.and_false, List.any_cons,
            List.any_nil, Bool.or_false, eqv_fn, Bool.not_false, Bool.and_true] at h
          split at h
          · rename_i hl
            subst hl
            refine ⟨.value f, rfl, ?_⟩
            split at h <;> (injection h with h; subst h; simp_all [Shape.cond, Shape.order, Shape.var, Shape.ic, Shape.normal])
          · simp at h
        | cons n ns =>
          cases ns with
          | cons _ _ => simp [hn] at h
          | nil =>
            simp only [hn, isVecFn, spaceIsVector, mkDot] at h
            by_cases hv : f.isVector = true
            · simp only [hv, if_true, Except.map, List.any_cons, List.any_nil, Bool.or_false, eqv_fn,
                eqv_dot, Bool.or_eq_true, decide_eq_true_eq] at h
              split at h
              · rename_i hl
                rcases hl with hl | hl
                · subst hl; simp [normalAtoms] at hn
                · refine ⟨.normalComp f n, ⟨hv, hl⟩, ?_⟩
                  simp at h
                  subst h
                  simp [Shape.cond, Shape.order, Shape.var, Shape.ic, Shape.normal, hv]
              · split at h
                · rename_i hl
                  refine ⟨.normalDeriv f n, hl, ?_⟩
                  injection h with h
                  subst h
                  simp [Shape.cond, Shape.order, Shape.var, Shape.ic, Shape.normal, hv]
                · cases h
            · have hv' : f.isVector = false := by simpa using hv
              simp only [hv', Bool.false_eq_true, if_false, List.any_cons, List.any_nil,
                Bool.or_false, eqv_fn, eqv_dot, decide_eq_true_eq] at h
              split at h
              · rename_i hl
                subst hl; simp [normalAtoms] at hn
              · split at h
                · rename_i hl
                  refine ⟨.normalDeriv f n, hl, ?_⟩
                  injection h with h
                  subst h
                  simp [Shape.cond, Shape.order, Shape.var, Shape.ic, Shape.normal, hv']
                · cases h
      · -- u = idx f i
        have hvec : f.isVector = true := by
          -- a scalar base would be a second function of the left-hand side
          cases hn : normalAtoms lhs with
          | nil =>
            simp only [hn, List.any_cons, List.any_nil, Bool.or_false, eqv_idx] at h
            split at h
            · rename_i hl
              subst hl
              cases hf : f.isVector with
              | true => rfl
              | false => simp [theFunction, scalarAtoms, indexedAtoms, hf] at hu
            · simp at h
          | cons n ns =>
            cases ns with
            | cons _ _ => simp [hn] at h
            | nil => simp [hn, spaceIsVector, mkDot, Except.map] at h
        cases hn : normalAtoms lhs with
        | nil =>
          simp only [hn, List.any_cons, List.any_nil, Bool.or_false, eqv_idx] at h
          split at h
          · rename_i hl
            refine ⟨.component f i, ⟨hvec, hl⟩, ?_⟩
            injection h with h
            subst h
            simp [Shape.cond, Shape.order, Shape.var, Shape.ic, Shape.normal, isVecFn]
          · simp at h
        | cons n ns =>
          cases ns with
          | cons _ _ => simp [hn] at h
          | nil => simp [hn, spaceIsVector, mkDot, Except.map] at h

/-- **Classification, completeness** — every admitted shape is accepted, with the prescribed
    attributes. -/
theorem classify_complete (s : Shape) (lhs : Lhs) (rhs : String) (b : Bnd) (p : Option Nat)
    (ic0 : Option (List Nat)) (h : s.lhsIs lhs) :
    mkCond lhs rhs b p ic0 = .ok (s.cond lhs rhs b p ic0) := by
  cases s with
  | value f =>
    simp only [Shape.lhsIs] at h; subst h
    cases f <;>
      simp [mkCond, theFunction, scalarAtoms, vectorAtoms, indexedAtoms, normalAtoms, hasTrace,
        Fn.isVector, isVecFn, eqv, Shape.cond, Shape.order, Shape.var, Shape.ic, Shape.normal, Fn.ldim]
  | component f i =>
    obtain ⟨hv, rfl⟩ := h
    cases f <;>
      simp_all [mkCond, theFunction, scalarAtoms, vectorAtoms, indexedAtoms, normalAtoms, hasTrace,
        Fn.isVector, isVecFn, eqv, Shape.cond, Shape.order, Shape.var, Shape.ic, Shape.normal]
  | normalComp f n =>
    obtain ⟨hv, h⟩ := h
    rcases h with rfl | rfl <;> cases f <;>
      simp_all [mkCond, theFunction, scalarAtoms, vectorAtoms, indexedAtoms, normalAtoms, hasTrace,
        Fn.isVector, isVecFn, spaceIsVector, mkDot, Except.map, eqv, unionNew, addNew,
        Shape.cond, Shape.order, Shape.var, Shape.ic, Shape.normal]
  | normalDeriv f n =>
    rcases h with rfl | rfl <;> cases f <;>
      simp [mkCond, theFunction, scalarAtoms, vectorAtoms, indexedAtoms, normalAtoms, hasTrace,
        Fn.isVector, isVecFn, spaceIsVector, mkDot, Except.map, eqv, unionNew, addNew,
        Shape.cond, Shape.order, Shape.var, Shape.ic, Shape.normal]

/-- **bad_lhs_refused** — a left-hand side that is not of an admitted shape is refused. -/
theorem bad_lhs_refused (lhs : Lhs) (rhs : String) (b : Bnd) (p : Option Nat)
    (ic0 : Option (List Nat)) (h : ∀ s : Shape, ¬ s.lhsIs lhs) :
    ∃ e, mkCond lhs rhs b p ic0 = .error e := by
  cases hm : mkCond lhs rhs b p ic0 with
  | error e => exact ⟨e, rfl⟩
  | ok c =>
    obtain ⟨s, hs, _⟩ := classify_sound lhs rhs b p ic0 c hm
    exact absurd hs (h s)

/-- re-running the constructor on the attributes of an existing condition (what the expansion
    over a union does) reproduces the condition, on the new boundary and with the new position -/
theorem mkCond_again (c : Cond) (hc : IsCond c) (b' : Bnd) (p' : Option Nat) :
    mkCond c.lhs c.rhs b' p' c.indexComponent = .ok { c with boundary := b', position := p' } := by
  obtain ⟨p0, ic0, h⟩ := hc
  obtain ⟨s, hs, hc⟩ := classify_sound _ _ _ _ _ _ h
  have h2 := classify_complete s c.lhs c.rhs b' p' c.indexComponent hs
  rw [h2]
  have hic : c.indexComponent = s.ic ic0 := by rw [hc]; rfl
  rw [hic]
  have ho : c.order = s.order := by rw [hc]; rfl
  have hv : c.var = s.var := by rw [hc]; rfl
  have hn : c.normalComponent = s.normal := by rw [hc]; rfl
  simp only [Shape.cond, Shape.ic_idem, ho, hv, hn]

theorem perFace_spec (c : Cond) (hc : IsCond c) (p : Option Nat) (faces : List String) :
    perFace { c with position := p } faces
      = .ok (faces.map fun j => { c with boundary := .face j, position := p }) := by
  induction faces with
  | nil => rfl
  | cons j js ih =>
    unfold perFace
    have := mkCond_again c hc (.face j) p
    simp only at this ⊢
    rw [this, ih]
    rfl

/-- **expand_faces** — for every list of conditions (EssentialBC objects) on trial functions,
    the equation holds, in the order of declaration, one condition per face of each declared
    boundary (faces in the order of the union's members), every copy having the left and
    right-hand side, order, unknown, constrained components and normal flag of the declared
    condition, and the index of the unknown among the trial functions as position. -/
theorem expand_faces (trials : List Fn) (cs : List Cond) (hwf : ∀ c ∈ cs, IsCond c)
    (htrial : ∀ c ∈ cs, (indexOf c.var trials).isSome = true) :
    expandBC trials (cs.map .essential) = .ok (cs.flatMap (normalise trials)) := by
  induction cs with
  | nil => rfl
  | cons c cs ih =>
    have hc := hwf c (by simp)
    have ht := htrial c (by simp)
    have ih' := ih (fun x hx => hwf x (by simp [hx])) (fun x hx => htrial x (by simp [hx]))
    simp only [List.map_cons, expandBC, List.flatMap_cons]
    cases hi : indexOf c.var trials with
    | none => simp [hi] at ht
    | some p =>
      simp only [ih']
      cases hb : c.boundary with
      | face j =>
        simp only [normalise, hb, facesOf, hi, List.map_cons, List.map_nil]
      | union faces =>
        have hp := perFace_spec c hc (some p) faces
        simp only [hb] at hp
        simp only [normalise, hb, facesOf, hi]
        rw [hp]

/-- **position_is_index** — the position stored in every entry of `equation.bc` is the index
    of the first trial function equal to the constrained unknown: it is a valid index, the
    trial function there is the unknown, and no earlier one is. -/
theorem position_is_index (trials : List Fn) (cs : List Cond) (out : List Cond)
    (hwf : ∀ c ∈ cs, IsCond c) (h : expandBC trials (cs.map .essential) = .ok out) :
    ∀ e ∈ out, ∃ p t, e.position = some p ∧ trials[p]? = some t ∧ t.same e.var = true ∧
      ∀ q, q < p → ∀ t', trials[q]? = some t' → t'.same e.var = false := by
  -- every declared condition is on a trial function, otherwise the call fails
  have htrial : ∀ c ∈ cs, (indexOf c.var trials).isSome = true := by
    clear hwf
    induction cs generalizing out with
    | nil => simp
    | cons c cs ih =>
      simp only [List.map_cons, expandBC] at h
      cases hi : indexOf c.var trials with
      | none => simp [hi] at h
      | some p =>
        simp only [hi] at h
        intro x hx
        rcases List.mem_cons.mp hx with rfl | hx
        · simp [hi]
        · cases hr : expandBC trials (cs.map .essential) with
          | error e =>
            rw [hr] at h
            split at h <;> simp at h
          | ok more => exact ih more hr x hx
  rw [expand_faces trials cs hwf htrial] at h
  injection h with h
  subst h
  intro e he
  obtain ⟨c, hc, he⟩ := List.mem_flatMap.mp he
  obtain ⟨j, _, rfl⟩ := List.mem_map.mp he
  have ht := htrial c hc
  cases hi : indexOf c.var trials with
  | none => simp [hi] at ht
  | some p =>
    obtain ⟨t, h1, h2, h3⟩ := indexOf_spec c.var trials p hi
    exact ⟨p, t, by simp [hi], h1, h2, h3⟩

/-- **non_trial_refused** — if one of the conditions constrains a function that is not a trial
    function (no trial function is equal to it), the equation is refused. -/
theorem non_trial_refused (trials : List Fn) (items : List BcItem) (c : Cond)
    (hc : BcItem.essential c ∈ items) (hnot : ∀ t ∈ trials, t.same c.var = false) :
    ∃ e, expandBC trials items = .error e := by
  have hnone : indexOf c.var trials = none := by
    induction trials with
    | nil => rfl
    | cons t ts ih =>
      unfold indexOf
      rw [if_neg (by simp [hnot t (by simp)])]
      rw [ih (fun t' ht' => hnot t' (by simp [ht']))]
      rfl
  induction items with
  | nil => cases hc
  | cons i rest ih =>
    rcases List.mem_cons.mp hc with h | h
    · subst h
      exact ⟨.notTrial, by simp [expandBC, hnone]⟩
    · obtain ⟨e, he⟩ := ih h
      cases i with
      | essential c' =>
        simp only [expandBC]
        cases indexOf c'.var trials with
        | none => exact ⟨_, rfl⟩
        | some p =>
          simp only
          split
          · exact ⟨_, rfl⟩
          · rw [he]; exact ⟨_, rfl⟩
      | otherBC => exact ⟨_, rfl⟩
      | notBC => exact ⟨_, rfl⟩

/-- … and the refusal reaches the caller of `Equation`: with well-typed arguments, a list of
    conditions one of which is on a non-trial function never yields an equation. -/
theorem non_trial_refused_equation (lhs rhs : String) (trials tests : List Fn) (items : List BcItem)
    (c : Cond) (hc : BcItem.essential c ∈ items) (hnot : ∀ t ∈ trials, t.same c.var = false) :
    ∃ e, equation true true lhs rhs (.many (trials.map .fn)) (.many (tests.map .fn)) (.many items)
      = .error e := by
  have hf : ∀ l : List Fn, fnArg (.many (l.map .fn)) = .ok l := by
    intro l
    have : fnItems (l.map .fn) = some l := by
      induction l with
      | nil => rfl
      | cons a l ih => simp [fnItems, ih]
    simp [fnArg, this]
  obtain ⟨e, he⟩ := non_trial_refused trials items c hc hnot
  cases items with
  | nil => cases hc
  | cons i rest =>
    simp only [equation, hf, Bool.not_true, Bool.false_eq_true, if_false]
    by_cases hall : (i :: rest).all isBC = true
    · simp only [hall, if_true]; rw [he]; exact ⟨_, rfl⟩
    · simp only [hall]; exact ⟨_, rfl⟩

/-- **lhs_rhs_kept** — a successfully built equation keeps its two forms and its function
    lists, and every entry of its `bc` has the left and right-hand side of one of the declared
    conditions. -/
theorem lhs_rhs_kept (lb rl : Bool) (lhs rhs : String) (trials tests : FnArg) (bc : BcArg)
    (out : EqOut) (h : equation lb rl lhs rhs trials tests bc = .ok out) :
    out.lhs = lhs ∧ out.rhs = rhs ∧ fnArg trials = .ok out.trials ∧ fnArg tests = .ok out.tests := by
  unfold equation at h
  split at h
  · cases h
  · split at h
    · cases h
    · cases ht : fnArg tests with
      | error e => simp [ht] at h
      | ok ts =>
        cases hr : fnArg trials with
        | error e => simp [ht, hr] at h
        | ok tr =>
          simp only [ht, hr] at h
          split at h
          · cases h
          · injection h with h; subst h; exact ⟨rfl, rfl, rfl, rfl⟩
          · split at h
            · cases h
            · injection h with h; subst h; exact ⟨rfl, rfl, rfl, rfl⟩

theorem bc_sides_kept (trials : List Fn) (cs : List Cond) (out : List Cond)
    (hwf : ∀ c ∈ cs, IsCond c) (h : expandBC trials (cs.map .essential) = .ok out) :
    ∀ e ∈ out, ∃ c ∈ cs, e.lhs = c.lhs ∧ e.rhs = c.rhs ∧ e.order = c.order ∧ e.var = c.var ∧
      e.indexComponent = c.indexComponent ∧ e.normalComponent = c.normalComponent ∧
      ∃ j ∈ facesOf c.boundary, e.boundary = .face j := by
  have htrial : ∀ c ∈ cs, (indexOf c.var trials).isSome = true := by
    clear hwf
    induction cs generalizing out with
    | nil => simp
    | cons c cs ih =>
      simp only [List.map_cons, expandBC] at h
      cases hi : indexOf c.var trials with
      | none => simp [hi] at h
      | some p =>
        simp only [hi] at h
        intro x hx
        rcases List.mem_cons.mp hx with rfl | hx
        · simp [hi]
        · cases hr : expandBC trials (cs.map .essential) with
          | error e =>
            rw [hr] at h
            split at h <;> simp at h
          | ok more => exact ih more hr x hx
  rw [expand_faces trials cs hwf htrial] at h
  injection h with h
  subst h
  intro e he
  obtain ⟨c, hc, he⟩ := List.mem_flatMap.mp he
  obtain ⟨j, hj, rfl⟩ := List.mem_map.mp he
  exact ⟨c, hc, rfl, rfl, rfl, rfl, rfl, rfl, j, hj, rfl⟩

/-- the number of entries is the total number of faces -/
theorem expand_length (trials : List Fn) (cs : List Cond) :
    (cs.flatMap (normalise trials)).length = (cs.map fun c => (facesOf c.boundary).length).sum := by
  induction cs with
  | nil => rfl
  | cons c cs ih => simp [normalise, ih]

/-! ### non-vacuity -/

def F : Fn := .vector "F" 3
def u : Fn := .scalar "u"
def cF : Cond := (Shape.normalComp F "nn").cond (dot (fn F) (normal "nn")) "0"
  (.union ["G1", "G2", "G3"]) none none
def cu : Cond := (Shape.value u).cond (fn u) "g" (.face "G4") none none

example : IsCond cF := ⟨none, none, by rfl⟩
example : IsCond cu := ⟨none, none, by rfl⟩
example : (Shape.normalComp F "nn").lhsIs (dot (normal "nn") (fn F)) := ⟨rfl, Or.inr rfl⟩
example : ∀ s : Shape, ¬ s.lhsIs (other "Mul" (cons (other "Integer(2)" nil) (cons (fn u) nil))) := by
  intro s; cases s <;> simp [Shape.lhsIs]
example : (expandBC [u, F] [.essential cF, .essential cu]).toOption.map (·.map (fun c => (c.boundary, c.position)))
    = some [(.face "G1", some 1), (.face "G2", some 1), (.face "G3", some 1), (.face "G4", some 0)] := by
  decide
example : expandBC [u] [.essential cu, .essential cF] = .error .notTrial := by rfl
example : (equation true true "a" "l" (.many [.fn u, .fn F]) (.many [.fn u, .fn F])
    (.many [.essential cF])).toOption.map (fun o => (o.lhs, o.rhs)) = some ("a", "l") := by decide

/-! ### histories: several equations from shared condition objects -/

theorem run_wf (w : World) (ops : List Op) (hw : w.WF) : (run w ops).WF := by
  induction ops generalizing w with
  | nil => exact hw
  | cons op ops ih => exact ih (step w op) (step_wf w op hw)

/-- **history_independent** — whatever the caller does afterwards (new conditions, further
    equations built from the SAME condition objects with other trial lists, repositioning of its
    own objects), an equation built earlier reports the same bc entries. -/
theorem history_independent (w : World) (ops : List Op) (hw : w.WF) (k : Nat) (hk : k < w.eqs.length) :
    readEq (run w ops) k = readEq w k := by
  induction ops generalizing w with
  | nil => rfl
  | cons op ops ih =>
    show readEq (run (step w op) ops) k = _
    rw [ih (step w op) (step_wf w op hw) (Nat.lt_of_lt_of_le hk (step_eqs_prefix w op k hk).2), step_frame w op hw k hk]

/-- **build_keeps_callers** — building equations (and creating conditions) never changes an
    object that existed before: the caller's conditions keep all their attributes. -/
theorem build_keeps_callers (w : World) (ops : List Op) (hops : ∀ op ∈ ops, ∀ a p, op ≠ .reposition a p)
    (a : Nat) (ha : a < w.heap.length) : (run w ops).heap[a]? = w.heap[a]? := by
  induction ops generalizing w with
  | nil => rfl
  | cons op ops ih =>
    show (run (step w op) ops).heap[a]? = _
    have h1 := step_heap_prefix w op (hops op (by simp)) a ha
    have hlen : a < (step w op).heap.length := by
      have : (step w op).heap[a]? = some w.heap[a] := by rw [h1]; exact List.getElem?_eq_getElem ha
      exact (List.getElem?_eq_some_iff.mp this).1
    rw [ih (step w op) (fun o ho => hops o (by simp [ho])) hlen, h1]

/-- **build_entries** — a successful construction adds one equation whose entries are the result
    of `expandBC` on the CURRENT attributes of the given objects. -/
theorem build_entries (w : World) (trials : List Fn) (addrs : List Nat) (cs out : List Cond)
    (hget : getAll w.heap addrs = some cs) (hex : expandBC trials (cs.map .essential) = .ok out) :
    (step w (.build trials addrs)).eqs.length = w.eqs.length + 1 ∧
    readEq (step w (.build trials addrs)) w.eqs.length = some out := by
  simp only [step, hget, hex, readEq, List.length_append, List.length_cons, List.length_nil, true_and]
  simp [getAll_fresh]

/-- **positions_survive_history** — the entries of an equation carry, and keep carrying after any
    later operations, the index of the constrained unknown among the trial functions of THAT
    equation. -/
theorem positions_survive_history (w : World) (hw : w.WF) (trials : List Fn) (addrs : List Nat)
    (cs out : List Cond) (hget : getAll w.heap addrs = some cs) (hwf : ∀ c ∈ cs, IsCond c)
    (hex : expandBC trials (cs.map .essential) = .ok out) (ops : List Op) :
    readEq (run (step w (.build trials addrs)) ops) w.eqs.length = some out ∧
    ∀ e ∈ out, ∃ p t, e.position = some p ∧ trials[p]? = some t ∧ t.same e.var = true ∧
      ∀ q, q < p → ∀ t', trials[q]? = some t' → t'.same e.var = false := by
  have hb := build_entries w trials addrs cs out hget hex
  refine ⟨?_, position_is_index trials cs out hwf hex⟩
  rw [history_independent _ ops (step_wf w _ hw) _ (by rw [hb.1]; exact Nat.lt_succ_self _), hb.2]

/-! the seeded behaviour: the single-face fast path stores and repositions the caller's object -/

def pS : Fn := .scalar "p"
def w0 : World := { heap := [cu], eqs := [] }

/-- **aliased_breaks_history** — with the aliasing variant, building a second equation from the
    same single-face condition with the unknown at another index changes what the FIRST equation
    reports, and the caller's object; with `step` neither happens. -/
theorem aliased_breaks_history :
    let wa := stepAliased (stepAliased w0 (.build [u, pS] [0])) (.build [pS, u] [0])
    let wg := step (step w0 (.build [u, pS] [0])) (.build [pS, u] [0])
    (readEq (stepAliased w0 (.build [u, pS] [0])) 0).map (·.map (·.position)) = some [some 0] ∧
    (readEq wa 0).map (·.map (·.position)) = some [some 1] ∧
    (wa.heap[0]?).map (·.position) = some (some 1) ∧
    (readEq wg 0).map (·.map (·.position)) = some [some 0] ∧
    (readEq wg 1).map (·.map (·.position)) = some [some 1] ∧
    (wg.heap[0]?).map (·.position) = some none := by
  decide

end Sympde.BC
