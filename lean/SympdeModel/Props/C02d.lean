/-
  C02 — "every rewriting the operator constructors apply on their own yields an expression denoting
  exactly the same field as the literal expression" — for the symbolic matrix layer
  sympde/calculus/matrices.py (anchor: Transpose / SymbolicTrace / MatSymbolicMul canonicalisation
  @ matrices.py:86-274).

  Model: Model/MatSym.lean (the constructors, branch for branch).  Semantics: Lemmas/MatSym.lean,
  `den v e : Matrix (Fin n) (Fin n) K` for an arbitrary size n, an arbitrary commutative ring K and
  an arbitrary valuation v of the Jacobian symbols (matrices), Constants and Symbols (ring elements);
  numbers are embedded as scalar matrices, so "coefficient * matrix" is the matrix product.

  Every theorem quantifies over ALL expressions / argument lists (no size or depth bound) and over
  every amount of recursion fuel.  Hypotheses, where a rewriting needs them:
    * `NegPowUnits v e` — every negative power occurring in e has an invertible base
      (sympy rewrites `A * A**-1` to `A**0` inside Transpose of a product);
    * `InvUnits v e`    — every `Inverse` node occurring in e is applied to an invertible matrix
      (`Inverse(Inverse(x))` is rewritten to `x`).
-/
import SympdeModel.Lemmas.MatSym
import Mathlib.LinearAlgebra.Matrix.Notation

namespace Sympde
namespace MatSym
open ME
open scoped Matrix

variable {n : ℕ} {K : Type} [CommRing K] (v : Val n K)

/-! ### the constructors denote the literal application -/

/-- Transpose.__new__: whatever it rewrites (T(T(y)) -> y, distribution over a sum with sympy's
    collection of like terms, coefficients pulled out of a product, neighbouring equal factors
    gathered into a power), the result denotes the transpose of the argument's value. -/
theorem transpose_sound (f : Nat) (a : ME) (h : NegPowUnits v a) :
    den v (mkTranspose f a) = (den v a)ᵀ :=
  den_mkTranspose v f a h

/-- Inverse.__new__ (Inverse(Inverse(y)) -> y) denotes the inverse of the argument's value. -/
theorem inverse_sound (a : ME) (h : InvUnits v a) : den v (mkInverse a) = (den v a)⁻¹ :=
  den_mkInverse v a h

/-- `.inv()` (JacobianSymbol.inv returns the inverse-Jacobian atom, whose value is by definition the
    inverse of the Jacobian's value; other matrices go through Inverse.__new__) -/
theorem method_inv_sound (a : ME) (h : InvUnits v a) : den v (methodInv a) = (den v a)⁻¹ :=
  den_methodInv v a h

/-- MatSymbolicMul.__new__ (factors 1 dropped, distribution over the first sum — recursively —,
    nested products flattened, commutative factors moved to the front and multiplied by sympy):
    the result denotes the ORDERED product of the arguments' values. -/
theorem mul_sound (f : Nat) (xs : List ME) : den v (mkMul f xs) = (xs.map (den v)).prod := by
  rw [den_mkMul, denProd_eq]

/-- MatSymbolicAdd.__new__ (zeros dropped, nested sums flattened, arguments sorted): the sum of the
    arguments' values. -/
theorem add_sound (xs : List ME) : den v (mkAdd xs) = (xs.map (den v)).sum := by
  rw [den_mkAdd, denSum_eq]

/-- the value of a sum does not depend on the order of its arguments (the implementation sorts with
    `key=str`, the model with its own key; the differential run compares sums as multisets) -/
theorem add_order_irrelevant {xs ys : List ME} (h : xs.Perm ys) : den v (add xs) = den v (add ys) := by
  simp only [den]; exact denSum_perm v h

/-- `-a` = MatSymbolicMul(-1, a) -/
theorem neg_sound (f : Nat) (a : ME) : den v (mkNeg f a) = -den v a := by
  unfold mkNeg; rw [den_mkMul]; simp [denProd, den]

/-- `a - b` = MatSymbolicAdd(a, -b) -/
theorem sub_sound (f : Nat) (a b : ME) : den v (mkSub f a b) = den v a - den v b := by
  unfold mkSub; rw [den_mkAdd]; simp [denSum, neg_sound, sub_eq_add_neg]

/-- SymbolicTrace.__new__ (linearity over sums, numbers and Constants pulled out of a product, the
    remaining factors re-multiplied IN THEIR ORDER): the trace of the argument's value. -/
theorem trace_sound (f : Nat) (a : ME) :
    den v (mkTrace f a) = (den v a).trace • (1 : Matrix (Fin n) (Fin n) K) :=
  den_mkTrace v f a

/-- `a ** k` (MatSymbolicPow has no `__new__`), SymbolicDeterminant, MatrixElement: plain nodes -/
theorem pow_sound (a : ME) (k : Int) (r : Bool) : den v (mkPowOp a k r) = den v a ^ k := rfl
theorem det_sound (a : ME) : den v (mkDet a) = (den v a).det • (1 : Matrix (Fin n) (Fin n) K) := rfl
theorem elem_sound (a : ME) (i j : Nat) :
    den v (mkElem a i j) = entry (den v a) i j • (1 : Matrix (Fin n) (Fin n) K) := rfl

/-! ### the pieces of sympy the constructors call, as modelled -/

/-- `Add(*terms)` with collection of like terms and the MatSymbolicAdd post-processor -/
theorem sympy_add_sound (xs : List ME) : den v (sympyAdd xs) = (xs.map (den v)).sum := by
  rw [den_sympyAdd, denSum_eq]

/-- `Mul(*args)` on non-commutative factors (neighbours with equal bases become one power) -/
theorem sympy_mul_nc_sound (f : Nat) (xs : List ME) (h : ∀ x ∈ xs, NegPowUnits v x) :
    den v (sympyMulNC f xs) = (xs.map (den v)).prod := by
  rw [den_sympyMulNC v f xs h, denProd_eq]

/-- `Mul(*coeffs)` on commutative factors (reordered) -/
theorem sympy_mul_comm_sound (cs : List ME) (h : ∀ x ∈ cs, comm x = true) :
    den v (scalMul cs) = (cs.map (den v)).prod := by
  rw [den_scalMul v cs h, denProd_eq]

/-- an expression whose `is_commutative` flag is True denotes a matrix that commutes with every
    matrix and is symmetric — what the constructors rely on when they move such factors -/
theorem commutative_flag_sound (a : ME) (h : comm a = true) :
    (∀ N : Matrix (Fin n) (Fin n) K, Commute (den v a) N) ∧ (den v a)ᵀ = den v a :=
  cen_of_comm v a h

/-! ### consequences at the level of values -/

/-- transposition reverses the order of a product: whatever form Transpose returns for a product, its
    value is the product of the transposed factors in REVERSE order -/
theorem transpose_product_value (f : Nat) (xs : List ME) (h : NegPowUnits v (mul xs)) :
    den v (mkTranspose f (mul xs)) = (xs.reverse.map (fun x => (den v x)ᵀ)).prod := by
  rw [den_mkTranspose v f _ h]
  simp only [den, denProd_eq]
  rw [Matrix.transpose_list_prod, List.map_reverse, List.map_map]
  rfl

/-- transposing twice gives back the value -/
theorem transpose_transpose_value (f g : Nat) (a : ME) (h : NegPowUnits v a)
    (h' : NegPowUnits v (mkTranspose f a)) :
    den v (mkTranspose g (mkTranspose f a)) = den v a := by
  rw [den_mkTranspose v g _ h', den_mkTranspose v f a h, Matrix.transpose_transpose]

/-- transpose of an inverse = inverse of the transpose -/
theorem transpose_inverse_value (f : Nat) (a : ME) (h : NegPowUnits v a) :
    den v (mkTranspose f (inv a)) = (den v (mkTranspose f a))⁻¹ := by
  rw [den_mkTranspose v f a h, den_mkTranspose v f (inv a)
    (fun b k r hs hk => by cases hs with | inv hs' => exact h b k r hs' hk)]
  simp only [den]
  exact Matrix.transpose_nonsing_inv _

/-- tr(Aᵀ) = tr(A) -/
theorem trace_transpose_value (f g : Nat) (a : ME) (h : NegPowUnits v a) :
    den v (mkTrace f (mkTranspose g a)) = den v (mkTrace f a) := by
  rw [den_mkTrace, den_mkTrace, den_mkTranspose v g a h, Matrix.trace_transpose]

/-- tr(A*B) = tr(B*A): the trace of a product of TWO factors does not depend on their order ... -/
theorem trace_two_factors_value (f : Nat) (a b : ME) :
    den v (mkTrace f (mul [a, b])) = den v (mkTrace f (mul [b, a])) := by
  rw [den_mkTrace, den_mkTrace]
  simp only [den, denProd, mul_one]
  rw [Matrix.trace_mul_comm]

/-! ### ... but sorting THREE factors inside a trace changes the value (seeded change C02-4) -/

/-- the three matrices of the counterexample: A = [[1,2],[3,5]], B = [[2,-1],[1,1]], C = [[1,1],[4,3]] -/
def v0 : Val 2 ℤ where
  cst := fun _ => 1
  sy := fun _ => 1
  jm := fun s => if s = "A" then !![1, 2; 3, 5] else if s = "B" then !![2, -1; 1, 1] else !![1, 1; 4, 3]

/-- `tr(A*C*B)` as SymbolicTrace builds it (factors kept in order, value 20) and the trace of the
    same factors sorted by name, `tr(A*B*C)` (value 25), differ: a SymbolicTrace that "keeps the
    factors in a canonical order because tr(AB) = tr(BA)" violates C02. -/
theorem trace_sorted_factors_counterexample :
    den v0 (mkTrace 9 (mul [jac "A", jac "C", jac "B"])) ≠
      den v0 (tr (mul [jac "A", jac "B", jac "C"])) := by
  rw [den_mkTrace]
  intro h
  have h00 := congrFun (congrFun h 0) 0
  simp [den, denProd, v0, Matrix.trace, Fin.sum_univ_two] at h00

/-! ### non-vacuity: the model really rewrites -/

example : beq (mkTrace 9 (mul [num 2, jac "A", jac "C", jac "B"]))
    (mul [num 2, tr (mul [jac "A", jac "C", jac "B"])]) = true := by decide
example : beq (mkTranspose 9 (transpose (jac "A"))) (jac "A") = true := by decide
example : beq (mkTranspose 9 (mul [num 2, jac "A", jac "A", jac "B"]))
    (mul [num 2, transpose (mul [pow (jac "A") 2 false, jac "B"])]) = true := by decide
example : beq (mkTrace 9 (add [jac "A", jac "A"])) (mul [num 2, tr (jac "A")]) = true := by decide
example : beq (mkTranspose 9 (add [jac "B", mul [num 3, jac "A"]]))
    (add [transpose (jac "B"), mul [num 3, transpose (jac "A")]]) = true := by decide
example : transposeRaises 9 (mul [pow (jac "A") 2 true, pow (jac "A") 3 true]) = true := by decide
example : beq (mkInverse (inv (mul [jac "A", jac "B"]))) (mul [jac "A", jac "B"]) = true := by decide
example : beq (mkMul 9 [jac "A", mul [jac "B", jac "C"]]) (mul [jac "A", jac "B", jac "C"]) = true := by
  decide

end MatSym
end Sympde
