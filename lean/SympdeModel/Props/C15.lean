/-
  C15 — exporting a domain and reading it back yields the same topology.
  Property theorems only (helper lemmas are in Lemmas/Export.lean and Lemmas/Union.lean).

  `toDict` / `fromDict` model `Domain.todict` and `Domain.from_file` (after the YAML inside the
  HDF5 file has been loaded; the file layer is the identity on dictionaries — trusted, exercised
  by the correspondence run with real files).  `Exportable d` (Model/Export.lean, `exportableB`)
  singles out the valid single patches and the well-formed multi-patch domains.
-/
import SympdeModel.Lemmas.Export
namespace Sympde.Export
open USet

/-- what `Domain.todict` writes for a well-formed multi-patch domain -/
theorem toDict_multi (d : Dom) (h : MultiOK d) :
    toDict d = .ok ⟨d.name, d.dim, .many (d.interiors.map (·.dtype)), .many (d.interiors.map Patch.todict),
      .many (d.boundary.map Face.todict), (sortBy (fun (e : String × Iface) => e.1) d.conn).map entryD⟩ := by
  have h2 := h.two
  have hb := h.notOne
  unfold toDict
  match hi : d.interiors, h2 with
  | p1 :: p2 :: rest, _ =>
    simp only []
    match hbd : d.boundary, hb with
    | [], _ => rfl
    | b1 :: b2 :: bs, _ => rfl

/-- what `Domain.todict` writes for a single patch -/
theorem toDict_single (p : Patch) (h : ValidPatch p) :
    toDict (patchDom p) = .ok ⟨p.name, p.dim, .one p.dtype, .one p.todict,
      .many ((canon Face.str (facesOf p)).map Face.todict), []⟩ := by
  have hdim : 1 ≤ p.dim := validPatch_dim_pos p h
  have m1 : (⟨p, 0, -1⟩ : Face) ∈ canon Face.str (facesOf p) := by
    rw [mem_canon, mem_facesOf]; exact ⟨rfl, hdim, Or.inl rfl⟩
  have m2 : (⟨p, 0, 1⟩ : Face) ∈ canon Face.str (facesOf p) := by
    rw [mem_canon, mem_facesOf]; exact ⟨rfl, hdim, Or.inr rfl⟩
  unfold toDict patchDom
  simp only []
  match hc : canon Face.str (facesOf p) with
  | [] => rw [hc] at m1; cases m1
  | [b] =>
    rw [hc] at m1 m2
    simp at m1 m2
    rw [← m1] at m2
    simp at m2
  | b1 :: b2 :: bs => rfl

/-- **round trip**: for every exportable domain, writing it and reading it back succeeds and
    yields the same domain — same name, dimension, patches (type, bounds, mapping name), external
    boundary faces and interfaces (minus face, plus face, orientation) — up to the insertion order
    of the connectivity dictionary, which the file sorts by interface name. -/
theorem roundtrip (d : Dom) (h : Exportable d) : (toDict d >>= fromDict) = .ok d.normalize := by
  rcases exportable_cases d h with ⟨p, hv, rfl⟩ | hm
  · -- a single patch
    rw [toDict_single p hv]
    have hvs : ∀ q ∈ [p], ValidPatch q := by intro q hq; simp at hq; rw [hq]; exact hv
    have hss : StrictSorted Patch.name [p] := by unfold StrictSorted; simp
    have hc := constructAll_valid [p] hvs
    have hb := readBoundary_ok [p] hvs hss (canon Face.str (facesOf p)) (by
      intro b hb
      rw [mem_canon, mem_facesOf] at hb
      exact ⟨by simp [hb.1], by rw [hb.1]; exact hb.2.1, hb.2.2⟩)
    have hr := remap_eq p hv
    simp only [List.map_cons, List.map_nil] at hc hb
    simp only [bind, Except.bind, fromDict, List.zip_cons_cons, List.zip_nil_right, hc,
      List.map_cons, List.map_nil, hr]
    have hk : [(p.todict.name, p.todict.mapping)] = [keyOf p] := rfl
    rw [hk, hb]
    simp only [readConn]
    simp [Dom.normalize, patchDom, sortBy]
  · -- a multi-patch domain
    rw [toDict_multi d hm]
    have hps : ∃ p1 p2 rest, d.interiors = p1 :: p2 :: rest := by
      have := hm.two
      match hi : d.interiors, this with
      | p1 :: p2 :: rest, _ => exact ⟨p1, p2, rest, rfl⟩
    obtain ⟨p1, p2, rest, hps⟩ := hps
    have hv := hm.valid
    have hs := hm.sorted
    -- patches are re-constructed and re-mapped
    have hc : constructAll ((d.interiors.map Patch.todict).zip (d.interiors.map (·.dtype))) =
        .ok (d.interiors.map Patch.strip) := by
      rw [zip_map_map]; exact constructAll_valid d.interiors hv
    have hdoms : ((d.interiors.map Patch.strip).zip (d.interiors.map Patch.todict)).map
        (fun (x : Patch × IntD) => patchDom (if x.2.mapping != "None" then { x.1 with mapping := some x.2.mapping } else x.1))
        = d.interiors.map patchDom := by
      rw [zip_map_map, List.map_map]
      apply List.map_congr_left
      intro p hp
      simp only [Function.comp]
      rw [remap_eq p (hv p hp)]
    have hkeys : (d.interiors.map Patch.todict).map (fun i => (i.name, i.mapping)) = d.interiors.map keyOf := by
      rw [List.map_map]; rfl
    -- the boundary faces are found again
    have hbnd : ∀ b ∈ d.boundary, b.patch ∈ d.interiors ∧ b.axis < b.patch.dim ∧ (b.ext = -1 ∨ b.ext = 1) := by
      intro b hb
      rw [hm.boundary, mem_canon, List.mem_filter] at hb
      obtain ⟨p, hp, hbp⟩ := List.mem_flatMap.mp hb.1
      rw [mem_canon, mem_facesOf] at hbp
      exact ⟨by rw [hbp.1]; exact hp, by rw [hbp.1]; exact hbp.2.1, hbp.2.2⟩
    have hrb := readBoundary_ok d.interiors hv hs d.boundary hbnd
    -- the connections are read
    have hsL : ∀ e ∈ sortBy (fun (e : String × Iface) => e.1) d.conn, IfaceOK d e := fun e he =>
      hm.ifaces e ((mem_sortBy _ e d.conn).mp he)
    have hrc := readConn_ok d.interiors hv hs (sortBy (fun (e : String × Iface) => e.1) d.conn)
      (fun e he => ⟨(hsL e he).minus.mem, (hsL e he).plus.mem⟩)
    -- join re-creates the interfaces
    have hk : ((([] : List (String × Iface)) ++ sortBy (fun (e : String × Iface) => e.1) d.conn).map (·.1)).Nodup := by
      rw [List.nil_append]
      exact ((sortBy_perm _ d.conn).map _).nodup_iff.mpr hm.keys
    have hloop := joinLoop_ok d (sortBy (fun (e : String × Iface) => e.1) d.conn) [] [] hsL hk
    simp only [List.nil_append] at hloop
    have hfilter : (allFaces d.interiors).filter (fun b => b ∉ d.conn.flatMap ifaceFaces) =
        (allFaces d.interiors).filter (fun b => b ∉ (sortBy (fun (e : String × Iface) => e.1) d.conn).flatMap ifaceFaces) := by
      apply List.filter_congr
      intro b _
      have : b ∈ d.conn.flatMap ifaceFaces ↔ b ∈ (sortBy (fun (e : String × Iface) => e.1) d.conn).flatMap ifaceFaces := by
        simp only [List.mem_flatMap, mem_sortBy]
      simp [this]
    have hj := join_core p1 p2 rest d.name d.dim
      ((sortBy (fun (e : String × Iface) => e.1) d.conn).map (connOf (p1 :: p2 :: rest))) (sortBy (fun (e : String × Iface) => e.1) d.conn) d.boundary
      (by rw [← hps]; exact hm.dims) (by rw [← hps]; exact hs)
      (by
        have : (patchDom p1).dim = d.dim := hm.dims p1 (by rw [hps]; simp)
        rw [this, ← hps]; exact hloop)
      (by rw [← hps, ← hfilter]; exact hm.boundary)
    rw [← hps] at hj
    simp only [bind, Except.bind, fromDict, hc, hdoms, hkeys, hrb, hrc]
    have hshape : d.interiors.map patchDom = patchDom p1 :: patchDom p2 :: rest.map patchDom := by
      rw [hps]; rfl
    rw [hshape] at hj ⊢
    simp only []
    rw [hj]
    rfl

/-- **idempotence of the file content**: the re-read domain writes the same dictionary
    (for every `Dom`, exportable or not: sorting the connectivity twice is sorting it once) -/
theorem todict_normalize (d : Dom) : toDict d.normalize = toDict d := by
  have hs : sortBy (fun (e : String × Iface) => e.1) (sortBy (fun (e : String × Iface) => e.1) d.conn) = sortBy (fun (e : String × Iface) => e.1) d.conn :=
    sortBy_of_sorted _ _ (sortBy_sorted _ _)
  unfold toDict Dom.normalize connTodict
  simp only [hs]

/-- **writing the re-read domain again produces the same file content** -/
theorem todict_idempotent (d : Dom) (h : Exportable d) :
    (toDict d >>= fromDict >>= toDict) = toDict d := by
  rw [roundtrip d h]
  exact todict_normalize d

/-- **the re-read domain, field by field** -/
theorem roundtrip_fields (d d' : Dom) (h : Exportable d) (hr : (toDict d >>= fromDict) = .ok d') :
    d'.name = d.name ∧ d'.dim = d.dim ∧ d'.interiors = d.interiors ∧ d'.boundary = d.boundary ∧
      d'.conn.Perm d.conn ∧ (∀ k i, (k, i) ∈ d'.conn ↔ (k, i) ∈ d.conn) := by
  rw [roundtrip d h] at hr
  cases hr
  refine ⟨rfl, rfl, rfl, rfl, sortBy_perm _ _, fun k i => mem_sortBy _ _ _⟩

/-- in particular every interface is read back with its minus face, plus face and orientation,
    and no interface is invented -/
theorem roundtrip_interfaces (d d' : Dom) (h : Exportable d)
    (hr : (toDict d >>= fromDict) = .ok d') (i : Iface) :
    (∃ k, (k, i) ∈ d'.conn) ↔ (∃ k, (k, i) ∈ d.conn) := by
  have := (roundtrip_fields d d' h hr).2.2.2.2.2
  constructor
  · rintro ⟨k, hk⟩; exact ⟨k, (this k i).mp hk⟩
  · rintro ⟨k, hk⟩; exact ⟨k, (this k i).mpr hk⟩

/-- **the re-read domain is again exportable** (so export / re-import can be iterated) -/
theorem exportable_normalize (d : Dom) (h : Exportable d) : Exportable d.normalize := by
  rcases exportable_cases d h with ⟨p, hv, rfl⟩ | hm
  · have : (patchDom p).normalize = patchDom p := by simp [Dom.normalize, patchDom, sortBy]
    rw [this]; exact exportable_of_single p hv
  · apply exportable_of_multi
    have hmem : ∀ e, e ∈ sortBy (fun (e : String × Iface) => e.1) d.conn ↔ e ∈ d.conn := fun e => mem_sortBy _ e _
    refine ⟨hm.valid, hm.two, hm.sorted, hm.dims, ?_, ?_, ?_, hm.notOne⟩
    · exact ((sortBy_perm _ d.conn).map _).nodup_iff.mpr hm.keys
    · intro e he
      have := hm.ifaces e ((hmem e).mp he)
      exact ⟨this.key, this.name, ⟨this.minus.mem, this.minus.axis, this.minus.ext⟩,
        ⟨this.plus.mem, this.plus.axis, this.plus.ext⟩, this.axis, this.ornt⟩
    · show d.boundary = _
      rw [hm.boundary]
      congr 1
      apply List.filter_congr
      intro b _
      have : b ∈ d.conn.flatMap ifaceFaces ↔ b ∈ (sortBy (fun (e : String × Iface) => e.1) d.conn).flatMap ifaceFaces := by
        simp only [List.mem_flatMap, hmem]
      show decide (b ∉ d.conn.flatMap ifaceFaces) = decide (b ∉ (sortBy (fun (e : String × Iface) => e.1) d.conn).flatMap ifaceFaces)
      exact decide_eq_decide.mpr (not_congr this)

/-! ### non-vacuity: concrete exportable domains, and what the theorems say about them -/

open Sample in
example : construct "A" sqA.dtype = .ok sqA := by decide
open Sample in
example : join [patchDom sqA, patchDom sqB] [⟨0, 0, 1, 1, 0, -1, some (.int (-1))⟩] "Omega" = .ok dom2 := by decide
open Sample in
example : Exportable dom2 := by unfold Exportable; decide
open Sample in
example : Exportable (patchDom sqB) := by unfold Exportable; decide
open Sample in
example : Exportable ring := by unfold Exportable; decide
open Sample in
example : (toDict dom2 >>= fromDict) = .ok dom2 := by decide
-- the orientation -1 is part of what is compared:
open Sample in
example : (toDict dom2 >>= fromDict) ≠ .ok { dom2 with conn := [("A|F(B)", ⟨"A|F(B)", ⟨sqA, 0, 1⟩, ⟨sqB, 0, -1⟩, .int 1⟩)] } := by decide
-- the ring comes back with its connectivity sorted by name, and nothing else changed:
open Sample in
example : (toDict ring >>= fromDict) = .ok { ring with conn := ring.conn.reverse } := by decide
-- a non-exportable value: the external boundary lists a face that is part of the interface
open Sample in
example : ¬ Exportable { dom2 with boundary := ⟨sqA, 0, 1⟩ :: dom2.boundary } := by unfold Exportable; decide

end Sympde.Export
