/-
  C10 — applying a form substitutes its arguments simultaneously and nothing else.
  Property theorems only.  Model: Model/Apply.lean (`callB` / `callL` = BilinearForm / LinearForm
  `__call__`, `isSymmetric` = `is_symmetric`), Model/Subst.lean (`subst` = `_xreplace`),
  Model/RingEq.lean (`ringEq` = the comparison of `Integral.__eq__`).  Helpers:
  Lemmas/Subst.lean, Lemmas/Apply.lean, Lemmas/RingEq.lean.
-/
import SympdeModel.Lemmas.Apply
import SympdeModel.Lemmas.RingEq
namespace Sympde.Apply
open E
open Sympde.Sub

/-- **call_self** — calling a bilinear (linear) form with its own arguments returns its
    integrals unchanged, whatever the arguments and integrands are. -/
theorem call_self (f : Form) :
    callB f (.many f.trials) (.many f.tests) [] = .ok f.integrals ∧
    callL f (.one (.many f.tests)) [] = .ok f.integrals ∧ callL f (.several f.tests) [] = .ok f.integrals := by
  have hid : ∀ l : List E, ∀ p ∈ callRule l l [], p.1 = p.2 := by
    intro l p hp
    simp only [callRule, List.reverse_nil, List.append_nil, List.mem_reverse] at hp
    exact mem_zip_self l p hp
  refine ⟨?_, ?_, ?_⟩
  · simp only [callB, kwRule, Arg.values]
    rw [applyRule_id _ (hid _)]
  · simp only [callL, kwRule, LArgs.values, Arg.values]
    rw [applyRule_id _ (hid _)]
  · simp only [callL, kwRule, LArgs.values]
    rw [applyRule_id _ (hid _)]

/-- **call_swap** — for pairwise distinct argument functions, `a(tests, trials)` is `a` in which
    every occurrence of a trial function is replaced by the test function of the same position
    *and* vice versa, leaf by leaf on the original integrands (`swapLeaf`); nothing else changes. -/
theorem call_swap (f : Form) (hleaf : ∀ x ∈ f.trials ++ f.tests, isLeafKey x = true)
    (hnd : (f.trials ++ f.tests).Nodup) (hlen : f.trials.length = f.tests.length) :
    callB f (.many f.tests) (.many f.trials) []
      = .ok (f.integrals.map fun p => (p.1, mapLeaves (swapLeaf f.trials f.tests) p.2)) := by
  simp only [callB, kwRule, Arg.values, applyRule, callRule, List.reverse_nil, List.append_nil]
  congr 1
  apply List.map_congr_left
  intro p _
  have hz : (f.trials ++ f.tests).zip (f.tests ++ f.trials) = f.trials.zip f.tests ++ f.tests.zip f.trials :=
    List.zip_append hlen
  have hkeys : ((f.trials ++ f.tests).zip (f.tests ++ f.trials)).map (·.1) = f.trials ++ f.tests :=
    zip_map_fst _ _ (by simp [hlen, Nat.add_comm])
  have hk : ∀ q ∈ ((f.trials ++ f.tests).zip (f.tests ++ f.trials)).reverse, isLeafKey q.1 = true := by
    intro q hq
    have : q.1 ∈ f.trials ++ f.tests := by
      rw [← hkeys]; exact List.mem_map.mpr ⟨q, List.mem_reverse.mp hq, rfl⟩
    exact hleaf _ this
  rw [subst_eq_mapLeaves _ hk]
  congr 1
  apply mapLeaves_congr
  intro t _
  unfold ruleFn swapLeaf
  rw [lookup_reverse _ (by rw [hkeys]; exact hnd), hz, lookup_append]

/-- exchanging twice gives the original back: the replacement really is an exchange -/
theorem swap_twice (us vs : List E) (hleaf : ∀ x ∈ us ++ vs, isLeafKey x = true) (hnd : (us ++ vs).Nodup)
    (hlen : us.length = vs.length) (e : E) :
    mapLeaves (swapLeaf us vs) (mapLeaves (swapLeaf us vs) e) = e := by
  have hndu : us.Nodup := (List.nodup_append.mp hnd).1
  have hndv : vs.Nodup := (List.nodup_append.mp hnd).2.1
  have hdisj : ∀ a, a ∈ us → a ∈ vs → False := fun a h1 h2 => (List.nodup_append.mp hnd).2.2 a h1 a h2 rfl
  have ku : (us.zip vs).map (·.1) = us := zip_map_fst us vs hlen
  have kv : (vs.zip us).map (·.1) = vs := zip_map_fst vs us hlen.symm
  have invol : ∀ t, swapLeaf us vs (swapLeaf us vs t) = t := by
    intro t
    unfold swapLeaf
    cases h1 : lookup (us.zip vs) t with
    | some b =>
      have hm := lookup_some h1
      have hb : b ∈ vs := (List.of_mem_zip hm).2
      have hnb : lookup (us.zip vs) b = none :=
        lookup_none_of_not_mem _ _ (by rw [ku]; exact fun hbu => hdisj b hbu hb)
      have hbt : lookup (vs.zip us) b = some t :=
        lookup_of_mem _ (by rw [kv]; exact hndv) _ _ (mem_zip_swap us vs t b hm)
      simp [hnb, hbt]
    | none =>
      cases h2 : lookup (vs.zip us) t with
      | some a =>
        have hm := lookup_some h2
        have hat : lookup (us.zip vs) a = some t :=
          lookup_of_mem _ (by rw [ku]; exact hndu) _ _ (mem_zip_swap vs us t a hm)
        simp [hat]
      | none => simp [h1, h2]
  have hl : ∀ t, isLeafKey t = true → isLeafKey (swapLeaf us vs t) = true := by
    intro t ht
    unfold swapLeaf
    cases h1 : lookup (us.zip vs) t with
    | some b => simpa using hleaf b (List.mem_append_right _ (List.of_mem_zip (lookup_some h1)).2)
    | none =>
      cases h2 : lookup (vs.zip us) t with
      | some a => simpa using hleaf a (List.mem_append_left _ (List.of_mem_zip (lookup_some h2)).2)
      | none => simpa using ht
  rw [mapLeaves_mapLeaves _ _ hl]
  exact mapLeaves_id _ (fun t _ => invol t) e

/-- a *sequential* replacement would differ: on `u*v` with `u ↦ v`, `v ↦ u` it yields `u*u` -/
theorem sequential_differs :
    let u := sf "u" .h1
    let v := sf "v" .h1
    subst [(u, v), (v, u)] (mul [u, v]) = mul [v, u] ∧ substSeq [(u, v), (v, u)] (mul [u, v]) = mul [u, u] :=
  ⟨rfl, rfl⟩

/-- **call_untouched** — a call keeps the integration domains, and is one substitution whose keys
    are declared arguments or named free variables only; every sub-tree in which none of them
    occurs (other fields, constants, coordinates, normal vectors, numbers) is left as it is. -/
theorem call_untouched (f : Form) (tr te : Arg) (kws : List (String × E)) (r : List (String × E))
    (h : callB f tr te kws = .ok r) :
    r.map (·.1) = f.integrals.map (·.1) ∧
    ∃ σ : Rule, r = applyRule σ f.integrals ∧ (∀ p ∈ σ, p.1 ∈ f.trials ++ f.tests ∨ p.1 ∈ freeVars f) ∧
      ∀ t, occurs (σ.map (·.1)) t = false → subst σ t = t := by
  unfold callB at h
  cases hk : kwRule f kws with
  | error e => simp [hk] at h
  | ok kw =>
    simp only [hk] at h
    injection h with h
    subst h
    refine ⟨by simp [applyRule], _, rfl, ?_, fun t ht => subst_of_not_occurs _ t ht⟩
    intro p hp
    simp only [callRule, List.mem_append, List.mem_reverse] at hp
    rcases hp with hp | hp
    · exact Or.inl (List.of_mem_zip hp).1
    · exact Or.inr (kwRule_keys f kws kw hk p hp)

/-- **kw_unknown_refused** — a keyword that is not the name of a free field or constant of the form
    is refused (`ValueError`), wherever it stands among the keywords. -/
theorem kw_unknown_refused (f : Form) (tr te : Arg) (la : LArgs) (kws : List (String × E))
    (h : ∃ p ∈ kws, freeVar f p.1 = none) :
    callB f tr te kws = .error .valueError ∧ callL f la kws = .error .valueError := by
  simp [callB, callL, kwRule_unknown f kws h]

variable {K : Type} [CommRing K] [Algebra ℚ K]

theorem sameIntegrals_sound (S : DRing K) (d : Nat) (lg : Bool) (a1 a2 : List (String × E))
    (h : sameIntegrals d a1 a2 = true) :
    a1.length = a2.length ∧ ∀ i (h1 : i < a1.length) (h2 : i < a2.length),
      a1[i].1 = a2[i].1 ∧ denG S d lg a1[i].2 0 0 = denG S d lg a2[i].2 0 0 := by
  induction a1 generalizing a2 with
  | nil =>
    cases a2 with
    | nil => exact ⟨rfl, fun i h1 => by simp at h1⟩
    | cons q r => simp [sameIntegrals] at h
  | cons p r ih =>
    cases a2 with
    | nil => simp [sameIntegrals] at h
    | cons q r2 =>
      obtain ⟨d1, e1⟩ := p
      obtain ⟨d2, e2⟩ := q
      simp only [sameIntegrals, Bool.and_eq_true, beq_iff_eq] at h
      obtain ⟨⟨hd, he⟩, hr⟩ := h
      obtain ⟨hl, hi⟩ := ih r2 hr
      refine ⟨by simp [hl], ?_⟩
      intro i h1 h2
      cases i with
      | zero => exact ⟨hd, RingEq.ringEq_sound S d lg e1 e2 he⟩
      | succ i => simpa using hi i (by simpa using h1) (by simpa using h2)

/-- **isSymmetric_sound** — the symmetry flag is never true for a form whose meaning changes
    when trial and test arguments are exchanged: if it is true, then `a(tests, trials)` has the
    same domains as `a` and, integral by integral, an integrand with the same classical meaning
    (`denG`) in every differential ring, i.e. for all functions at all points. -/
theorem isSymmetric_sound (f : Form) (h : isSymmetric f = true) (S : DRing K) (lg : Bool) :
    ∃ a2, callB f (.many f.tests) (.many f.trials) [] = .ok a2 ∧ f.integrals.length = a2.length ∧
      ∀ i (h1 : i < f.integrals.length) (h2 : i < a2.length),
        f.integrals[i].1 = a2[i].1 ∧
        denG S f.dim lg f.integrals[i].2 0 0 = denG S f.dim lg a2[i].2 0 0 := by
  unfold isSymmetric at h
  rw [(call_self f).1] at h
  cases h2 : callB f (.many f.tests) (.many f.trials) [] with
  | error e => simp [h2] at h
  | ok a2 =>
    simp only [h2] at h
    exact ⟨a2, rfl, sameIntegrals_sound S f.dim lg f.integrals a2 h⟩

/-! ### non-vacuity -/

def exU : E := sf "u" .h1
def exV : E := sf "v" .h1
def exF : E := sf "f" .h1
/-- `∫_Ω f ∇u·∇v + u v  +  ∫_Γ u v` -/
def exForm : Form :=
  { dim := 2, trials := [exU], tests := [exV],
    integrals := [("Omega", add [mul [exF, op2 .dot (op1 .grad exU) (op1 .grad exV)], mul [exU, exV]]),
                  ("Gamma", mul [exU, exV])] }
/-- `∫_Ω u ∂x v` (not symmetric) -/
def exConv : Form := { dim := 2, trials := [exU], tests := [exV], integrals := [("Omega", mul [exU, pd .x exV])] }

example : (∀ x ∈ exForm.trials ++ exForm.tests, isLeafKey x = true) ∧ (exForm.trials ++ exForm.tests).Nodup ∧
    exForm.trials.length = exForm.tests.length := by
  refine ⟨?_, ?_, rfl⟩
  · intro x hx
    simp [exForm] at hx
    rcases hx with rfl | rfl <;> rfl
  · simp [exForm, exU, exV]
example : isSymmetric exForm = true := by decide
example : isSymmetric exConv = false := by decide
example : callB exForm (.single exV) (.single exU) [] = .ok
    [("Omega", add [mul [exF, op2 .dot (op1 .grad exV) (op1 .grad exU)], mul [exV, exU]]), ("Gamma", mul [exV, exU])] := by
  rfl
example : callB exForm (.single (add [exU, exV])) (.single exV) [("f", exU)] = .ok
    [("Omega", add [mul [exU, op2 .dot (op1 .grad (add [exU, exV])) (op1 .grad exV)], mul [add [exU, exV], exV]]),
     ("Gamma", mul [add [exU, exV], exV])] := by rfl
example : freeVar exForm "zz" = none ∧ freeVar exForm "f" = some exF := ⟨rfl, rfl⟩
example : callB exForm (.single exU) (.single exV) [("zz", num 1 1)] = .error .valueError := by rfl

end Sympde.Apply
