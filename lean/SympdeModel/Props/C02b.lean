/-
  C02 (continued) — soundness of the remaining operator constructors of
  sympde/calculus/core.py with respect to the classical meaning `denG` (Sem/DenG.lean), each for
  ALL expressions (structural induction).  Helpers: Lemmas/Calc2.lean.
-/
import SympdeModel.Lemmas.Calc2
namespace Sympde
open E Calc

variable {K : Type} [CommRing K] [Algebra ℚ K]

/-- **Rot / Hessian (purely linear `eval`)**: whatever `Rot(e)` / `Hessian(e)` returns — sum rule,
    numeric factors pulled out, zero on numbers — denotes the rot / Hessian of `e`.
    Generic form: any operator `o` whose meaning is a linear functional `L` of the component
    function of its argument. -/
theorem linEval_sound_gen (S : DRing K) (d : Nat) (lg : Bool) (o : Op1)
    (L : (Nat → Nat → K) → Nat → Nat → K) (hL : LinFun S lg L) (hop : ∀ a, OpIs S d lg o L a)
    (e : E) (hnd : NonDegG S d lg e) (r : E) (h : linEval o e = .ok r) :
    ∀ i j, denG S d lg r i j = denG S d lg (op1 o e) i j := by
  induction e using E.rec
    (motive_2 := fun as => ∀ a ∈ as, NonDegG S d lg a → ∀ r,
      linEval o a = .ok r → ∀ i j, denG S d lg r i j = denG S d lg (op1 o a) i j)
    generalizing r with
  | add as ih =>
    rw [linEval_add] at h
    have hnd' : ∀ a ∈ as, NonDegG S d lg a :=
      fun a ha => NonDegGList_mem S d lg as (by simpa [NonDegG] using hnd) a ha
    exact addBranch_sound S d lg o L hL (linEval o) as (fun a _ => hop a) (hop _) (hop _) hnd
      (fun a ha r hr => ih a ha (hnd' a ha) r hr) r h
  | mul as _ =>
    rw [linEval_mul] at h
    exact mulLin_sound S d lg o L hL as (hop _) (hop _) hnd r h
  | nil => cases ‹_ ∈ []›
  | cons a as iha ihas =>
    rename_i x hx h1 r' hr i j
    rcases List.mem_cons.mp hx with rfl | hx
    · exact iha h1 r' hr i j
    · exact ihas x hx h1 r' hr i j
  | _ =>
    refine leafBranch_sound S d lg o L hL _ (hop _) hnd r ?_
    simpa only [linEval, leafBranch] using h

theorem rotEval_sound (S : DRing K) (d : Nat) (lg : Bool) (e : E) (hnd : NonDegG S d lg e)
    (r : E) (h : linEval .rot e = .ok r) :
    ∀ i j, denG S d lg r i j = denG S d lg (op1 .rot e) i j :=
  linEval_sound_gen S d lg .rot _ (rot_lin S lg) (rot_is S d lg) e hnd r h

theorem hessianEval_sound (S : DRing K) (d : Nat) (lg : Bool) (e : E) (hnd : NonDegG S d lg e)
    (r : E) (h : linEval .hessian e = .ok r) :
    ∀ i j, denG S d lg r i j = denG S d lg (op1 .hessian e) i j :=
  linEval_sound_gen S d lg .hessian _ (hess_lin S lg) (hess_is S d lg) e hnd r h

/-- **Curl**: whatever `Curl(e)` returns — sum rule, numeric factors pulled out, zero on numbers,
    curl(grad u) = 0 — denotes the curl of `e` (3D vector curl, scalar curl otherwise). -/
theorem curlEval_sound (S : DRing K) (d : Nat) (lg : Bool) (e : E) (hnd : NonDegG S d lg e)
    (r : E) (h : curlEval d e = .ok r) :
    ∀ i j, denG S d lg r i j = denG S d lg (op1 .curl e) i j :=
  curlEval_sound' S d lg e hnd r h

/-- **Dot / Cross / Inner / Outer / Convect constructors**: distribution over the terms of sums
    in both arguments, extraction of scalar factors (of constants only from the differentiated
    argument of Convect), `cross(a, a) = 0` and the zero short-cuts preserve the meaning.
    Hypotheses: `BilOK` (in every term the factors flagged commutative are genuine scalars; the
    terms of a sum are all matrices or none), not needed for the second argument of Convect;
    `NonDegG` of the second argument for Convect only (its `is_number` short-cut). -/
theorem mkBilin_sound (S : DRing K) (d : Nat) (lg : Bool) (k : BK) (a1 a2 : E)
    (h1 : BilOK d a1 = true) (h2 : k = .convect ∨ BilOK d a2 = true)
    (hnd : k = .convect → NonDegG S d lg a2)
    (r : E) (h : mkBilin d k a1 a2 = .ok r) :
    ∀ i j, denG S d lg r i j = denG S d lg (op2 k.op a1 a2) i j :=
  mkBilin_sound' S d lg k a1 a2 h1 h2 (fun _ => beqSound) hnd r h

/-- non-vacuity: `dot(2*f*F + G, g*H + x*F)` in 2D satisfies the hypotheses and is expanded -/
example : BilOK 2 (add [mul [num 2 1, sf "f" .h1, vf "F" .h1], vf "G" .h1]) = true
    ∧ BilOK 2 (add [mul [sf "g" .h1, vf "H" .h1], mul [sym "x", vf "F" .h1]]) = true
    ∧ ∃ r, mkBilin 2 .dot (add [mul [num 2 1, sf "f" .h1, vf "F" .h1], vf "G" .h1])
        (add [mul [sf "g" .h1, vf "H" .h1], mul [sym "x", vf "F" .h1]]) = .ok r := by
  refine ⟨by decide, by decide, _, rfl⟩

/-- **Poisson bracket**: whatever `Bracket(a1, a2)` returns — bilinearity, coefficients pulled
    out, the Leibniz rule in both arguments, `[a, a] = 0`, zero on numbers — denotes
    `∂₀a1 ∂₁a2 − ∂₁a1 ∂₀a2`. -/
theorem bracketEval_sound (S : DRing K) (d : Nat) (lg : Bool) (a1 a2 : E)
    (hs1 : Scal d a1 = true) (hs2 : Scal d a2 = true)
    (hnd1 : NonDegG S d lg a1) (hnd2 : NonDegG S d lg a2) :
    ∀ i j, denG S d lg (bracketEval a1 a2) i j = denG S d lg (op2 .bracket a1 a2) i j := by
  intro i j
  rw [bracket_is]
  unfold bracketEval
  split
  · rename_i hn
    simp only [Bool.or_eq_true] at hn
    rw [denG_zero]
    rcases hn with hn | hn
    · rw [brk_const_left S lg _ _ (number_const S d lg a1 hn hnd1)]
    · rw [brk_const_right S lg _ _ (number_const S d lg a2 hn hnd2)]
  split
  · rename_i he
    have := E.eq_of_beq he
    subst this
    rw [denG_zero, brk_self]
  · exact brLeft_sound S d lg beqSound a2 hs2 hnd2 a1 hs1 hnd1 i j

/-- non-vacuity: `[2*f*g + h, x*f]` is a pair of scalar expressions without powers -/
example : Scal 2 (add [mul [num 2 1, sf "f" .h1, sf "g" .h1], sf "h" .h1]) = true
    ∧ Scal 2 (mul [sym "x", sf "f" .h1]) = true := by decide

/-- **Laplace**: whatever `Laplace(e)` returns — sum rule, numeric factors pulled out, zero on
    numbers, and `laplace(f g) = f laplace g + g laplace f + 2 grad f . grad g` — denotes the
    (entry-wise) Laplacian of `e`.  `LapOK`: wherever the product rule fires (exactly two
    non-numeric factors, both flagged commutative) the two factors are genuine scalars `Scal`
    (the flag alone does not guarantee it: open finding C02-vector-commutative-factor). -/
theorem laplaceEval_sound (S : DRing K) (d : Nat) (lg : Bool) (e : E)
    (hok : LapOK d e = true) (hnd : NonDegG S d lg e) (r : E) (h : laplaceEval d e = .ok r) :
    ∀ i j, denG S d lg r i j = denG S d lg (op1 .laplace e) i j := by
  have key : ∀ e r, NonDegG S d lg e → leafBranch .laplace e = .ok r →
      ∀ i j, denG S d lg r i j = denG S d lg (op1 .laplace e) i j :=
    fun e r hnd h => leafBranch_sound S d lg .laplace _ (lap_lin S d lg) e (lap_is S d lg e) hnd r h
  induction e using E.rec
    (motive_2 := fun as => ∀ a ∈ as, LapOK d a = true → NonDegG S d lg a → ∀ r,
      laplaceEval d a = .ok r → ∀ i j, denG S d lg r i j = denG S d lg (op1 .laplace a) i j)
    generalizing r with
  | add as ih =>
    rw [laplaceEval_add] at h
    have hok' : ∀ a ∈ as, LapOK d a = true := by
      simpa [LapOK, LapOKList_iff] using hok
    have hnd' := NonDegG_add_mem S d lg as hnd
    exact addBranch_sound S d lg .laplace _ (lap_lin S d lg) (laplaceEval d) as
      (fun a _ => lap_is S d lg a) (lap_is S d lg _) (lap_is S d lg _) hnd
      (fun a ha r hr => ih a ha (hok' a ha) (hnd' a ha) r hr) r h
  | mul as ih =>
    have hnd' : ∀ a ∈ as, NonDegG S d lg a :=
      fun a ha => NonDegGList_mem S d lg as (by simpa [NonDegG] using hnd) a ha
    have hfall := pullNum_sound S d lg .laplace _ (lap_lin S d lg) as (lap_is S d lg _) (lap_is S d lg _) hnd
    simp only [laplaceEval, laplaceEvalListE_eq] at h
    split at h
    · split at h
      · rename_i hnum
        injection h with h; subst h
        intro i j
        rw [denG_zero, lap_is S d lg (mul as) i j,
          (lap_lin S d lg).number d (mul as) (by simpa [PD.isNumber] using hnum) hnd]
      · injection h with h; subst h; intro i j; rfl
    · split at h
      · rename_i f lf g lg' hps
        have hfst := congrArg (List.map (·.1)) hps
        rw [filter_zip_fst' (fun x => !Calc.isNumber x) (laplaceEval d) as] at hfst
        simp only [List.map] at hfst
        have hnn : nonNum as = [f, g] := hfst
        have hmf : (f, lf) ∈ as.zip (as.map (laplaceEval d)) :=
          (List.mem_filter.mp (by rw [hps]; simp)).1
        have hmg : (g, lg') ∈ as.zip (as.map (laplaceEval d)) :=
          (List.mem_filter.mp (by rw [hps]; simp)).1
        have hf := mem_zip_map (laplaceEval d) as _ hmf
        have hg := mem_zip_map (laplaceEval d) as _ hmg
        simp only at hf hg
        split at h
        · injection h with h; subst h; exact hfall
        · rename_i hcomm
          have hcomm' : (isComm d f && isComm d g) = true := by simpa using hcomm
          have hS : Scal d f = true ∧ Scal d g = true := by
            simp only [LapOK, hnn, hcomm', Bool.not_true, Bool.false_or, Bool.and_eq_true] at hok
            exact hok
          simp only [bind, Except.bind] at h
          cases hlf : lf with
          | error x => rw [hlf] at h; cases h
          | ok lf1 =>
          rw [hlf] at h; simp only at h
          cases hlg : lg' with
          | error x => rw [hlg] at h; cases h
          | ok lg1 =>
          rw [hlg] at h; simp only at h
          cases hgf : gradEval d f with
          | error x => rw [hgf] at h; cases h
          | ok gf =>
          rw [hgf] at h; simp only at h
          cases hgg : gradEval d g with
          | error x => rw [hgg] at h; cases h
          | ok gg =>
          rw [hgg] at h; simp only at h
          cases hdt : mkBilin d .dot gf gg with
          | error x => rw [hdt] at h; cases h
          | ok dt =>
          rw [hdt] at h
          injection h with h; subst h
          have hf2 := hf.2; rw [hlf] at hf2
          have hg2 := hg.2; rw [hlg] at hg2
          exact lapProd_sound S d lg as f g hnn hS.1 hS.2 hnd lf1 lg1 gf gg dt
            (ih f hf.1 (Scal_LapOK d f hS.1) (hnd' f hf.1) lf1 hf2.symm)
            (ih g hg.1 (Scal_LapOK d g hS.2) (hnd' g hg.1) lg1 hg2.symm) hgf hgg hdt
      · injection h with h; subst h; exact hfall
  | nil => cases ‹_ ∈ []›
  | cons a as iha ihas =>
    rename_i x hx h1 h2 r' hr i j
    rcases List.mem_cons.mp hx with rfl | hx
    · exact iha h1 h2 r' hr i j
    · exact ihas x hx h1 h2 r' hr i j
  | _ => exact key _ r hnd (by simpa only [laplaceEval, leafBranch] using h)


/-- the Laplacian of a scalar expression: `Scal` implies `LapOK` -/
theorem laplaceEval_sound_scal (S : DRing K) (d : Nat) (lg : Bool) (e : E)
    (hs : Scal d e = true) (hnd : NonDegG S d lg e) (r : E) (h : laplaceEval d e = .ok r) :
    ∀ i j, denG S d lg r i j = denG S d lg (op1 .laplace e) i j :=
  laplaceEval_sound S d lg e (Scal_LapOK d e hs) hnd r h

/-- non-vacuity: `laplace(3*f*g + 2*F)` in 2D satisfies `LapOK`, and the product rule fires -/
example : LapOK 2 (add [mul [num 3 1, sf "f" .undef, sf "g" .undef], mul [num 2 1, vf "F" .undef]]) = true
    ∧ ∃ r, laplaceEval 2 (add [mul [num 3 1, sf "f" .undef, sf "g" .undef],
        mul [num 2 1, vf "F" .undef]]) = .ok r := by
  refine ⟨by decide, _, rfl⟩

/-- **Div**: whatever `Div(e)` returns — sum rule, numeric factors pulled out, zero on numbers,
    `div(f F) = f div F + F . grad f` (either order of the factors, numeric coefficient kept),
    `div(a × b) = b . curl a − a . curl b`, `div(curl a) = 0` — denotes the divergence of `e`.
    `DivOK` (decidable): terms of a sum have the same tensor rank; the factor next to the
    vector in the product rule is a genuine scalar; the Cross / Curl rules fire in 3D only, on
    admissible (`BilOK`) arguments of rank ≤ 1.  `NonDegD`: `NonDegG` of the expression, of
    the terms of its sums and of the arguments of a rewritten Cross. -/
theorem divEval_sound (S : DRing K) (d : Nat) (lg : Bool) (e : E)
    (hok : DivOK d e = true) (hnd : NonDegD S d lg e) (r : E) (h : divEval d e = .ok r) :
    ∀ i j, denG S d lg r i j = denG S d lg (op1 .div e) i j := by
  have key : ∀ e r, NonDegG S d lg e → leafBranch .div e = .ok r →
      ∀ i j, denG S d lg r i j = denG S d lg (op1 .div e) i j :=
    fun e r hnd h => leafBranch_sound S d lg .div _ (div_lin S d lg (rank d e)) e (div_is S d lg e) hnd r h
  induction e using E.rec
    (motive_2 := fun as => ∀ a ∈ as, DivOK d a = true → NonDegD S d lg a → ∀ r,
      divEval d a = .ok r → ∀ i j, denG S d lg r i j = denG S d lg (op1 .div a) i j)
    generalizing r with
  | add as ih =>
    rw [divEval_add] at h
    simp only [DivOK, DivOKList_iff, Bool.and_eq_true, List.all_eq_true, beq_iff_eq] at hok
    simp only [NonDegD] at hnd
    have hndD := NonDegDList_mem S d lg as hnd.2
    have hrest : OpIs S d lg .div (divSem S d lg (rank d (add as))) (addOf (as.filter (fun x => !hasF x))) := by
      match hm : as.filter (fun x => !hasF x) with
      | [] =>
        intro i j
        simp only [addOf]
        rw [div_is S d lg E.zero i j, (div_lin S d lg _).const _ (by intro k a b; rw [denG_zero]; exact Di_zero S lg k),
          (div_lin S d lg _).const _ (by intro k a b; rw [denG_zero]; exact Di_zero S lg k)]
      | [x] =>
        have hx : x ∈ as := (List.mem_filter.mp (by rw [hm]; simp : x ∈ as.filter _)).1
        exact div_is_rank S d lg _ _ (hok.2 x hx)
      | x :: y :: rest =>
        have hx : x ∈ as := (List.mem_filter.mp (by rw [hm]; simp : x ∈ as.filter _)).1
        exact div_is_rank S d lg _ _ (by simp only [addOf, rank, rankHead]; exact hok.2 x hx)
    exact addBranch_sound S d lg .div _ (div_lin S d lg (rank d (add as))) (divEval d) as
      (fun a ha => div_is_rank S d lg _ _ (hok.2 a ha)) (div_is S d lg _) hrest hnd.1
      (fun a ha r hr => ih a ha (hok.1 a ha) (hndD a ha) r hr) r h
  | mul as _ =>
    have hndG : NonDegG S d lg (mul as) := hnd
    have hfall := div_pullNum S d lg as hndG
    simp only [divEval] at h
    split at h
    · split at h
      · rename_i hnum
        injection h with h; subst h
        intro i j
        rw [denG_zero, div_is S d lg (mul as) i j,
          (div_lin S d lg _).number d (mul as) (by simpa [PD.isNumber] using hnum) hndG]
      · injection h with h; subst h; intro i j; rfl
    · split at h
      · rename_i a b hnn
        have hnn' : nonNum as = [a, b] := hnn
        have hmm : Calc.mulOf (nonNum as) = mul [a, b] := by rw [hnn']; rfl
        rw [hmm] at hfall
        simp only [DivOK, hnn'] at hok
        split at h
        · rename_i hva
          simp only [hva, if_true] at hok
          split at h
          · rename_i gb hgb
            split at h
            · rename_i dt hdt
              injection h with h; subst h
              exact divProd_sound S d lg as a b (Or.inl hnn') hva hok hndG gb dt hgb hdt
            · injection h with h; subst h
              exact hfall
          · injection h with h; subst h
            exact hfall
        · rename_i hva
          simp only [hva, Bool.false_eq_true, if_false] at hok
          split at h
          · rename_i hvb
            simp only [hvb, if_true] at hok
            split at h
            · rename_i ga hga
              split at h
              · rename_i dt hdt
                injection h with h; subst h
                exact divProd_sound S d lg as b a (Or.inr hnn') hvb hok hndG ga dt hga hdt
              · injection h with h; subst h
                exact hfall
            · injection h with h; subst h
              exact hfall
          · injection h with h; subst h
            exact hfall
      · injection h with h; subst h
        exact hfall
  | nil => cases ‹_ ∈ []›
  | cons a as iha ihas =>
    rename_i x hx h1 h2 r' hr i j
    rcases List.mem_cons.mp hx with rfl | hx
    · exact iha h1 h2 r' hr i j
    · exact ihas x hx h1 h2 r' hr i j
  | op2 o a b _ _ =>
    cases o with
    | cross =>
      simp only [NonDegD] at hnd
      simp only [divEval] at h
      split at h
      · injection h with h; subst h; intro i j; rfl
      · rename_i hF
        simp only [DivOK, hF, Bool.false_or, Bool.and_eq_true, beq_iff_eq, decide_eq_true_eq] at hok
        obtain ⟨⟨⟨⟨hd, hBa⟩, hBb⟩, hra⟩, hrb⟩ := hok
        subst hd
        simp only [bind, Except.bind] at h
        cases hca : curlEval 3 a with
        | error x => rw [hca] at h; cases h
        | ok ca =>
        rw [hca] at h; simp only at h
        cases hcb : curlEval 3 b with
        | error x => rw [hcb] at h; cases h
        | ok cb =>
        rw [hcb] at h; simp only at h
        cases ht1 : mkBilin 3 .dot b ca with
        | error x => rw [ht1] at h; cases h
        | ok t1 =>
        rw [ht1] at h; simp only at h
        cases ht2 : mkBilin 3 .dot a cb with
        | error x => rw [ht2] at h; cases h
        | ok t2 =>
        rw [ht2] at h
        injection h with h; subst h
        exact divCross_sound S lg a b hBa hBb hra hrb hnd.1 hnd.2 ca cb t1 t2 hca hcb ht1 ht2
    | _ => exact key _ r (NonDegD_G S d lg _ hnd) (by simpa only [divEval, leafBranch] using h)
  | op1 o a _ =>
    cases o with
    | curl =>
      simp only [divEval] at h
      split at h
      · injection h with h; subst h; intro i j; rfl
      · rename_i hF
        simp only [DivOK, hF, Bool.false_or, beq_iff_eq] at hok
        subst hok
        injection h with h; subst h
        intro i j
        rw [denG_zero, div_curl_zero]
    | _ => exact key _ r (NonDegD_G S d lg _ hnd) (by simpa only [divEval, leafBranch] using h)
  | _ => exact key _ r (NonDegD_G S d lg _ hnd) (by simpa only [divEval, leafBranch] using h)


/-- non-vacuity: `div(2*f*F + cross(F, G) + curl(G) + 3*G)` in 3D: all rules fire -/
example : DivOK 3 (add [mul [num 2 1, sf "f" .h1, vf "F" .h1], op2 .cross (vf "F" .h1) (vf "G" .h1),
      op1 .curl (vf "G" .h1), mul [num 3 1, vf "G" .h1]]) = true
    ∧ ∃ r, divEval 3 (add [mul [num 2 1, sf "f" .h1, vf "F" .h1], op2 .cross (vf "F" .h1) (vf "G" .h1),
      op1 .curl (vf "G" .h1), mul [num 3 1, vf "G" .h1]]) = .ok r := by
  refine ⟨by decide, _, rfl⟩

/-- non-vacuity of the `a == b` short-cuts (decidable now that `E.beq` is structural):
    `cross(F, F) = 0` and `[f*g, f*g] = 0` -/
example : mkBilin 3 .cross (vf "F" .h1) (vf "F" .h1) = .ok E.zero
    ∧ bracketEval (mul [sf "f" .h1, sf "g" .h1]) (mul [sf "f" .h1, sf "g" .h1]) = E.zero :=
  ⟨rfl, rfl⟩

/-- non-vacuity of the non-degeneracy side conditions (trivial without negative / symbolic powers;
    with `f**(-1)` they ask `f` to be invertible): `curl(2*F + grad f)`, `rot(3*f + x)`,
    and the `NonDegD` of the Div example above -/
example (S : DRing K) :
    NonDegG S 3 false (add [mul [num 2 1, vf "F" .h1], op1 .grad (sf "f" .h1)])
    ∧ (∃ r, curlEval 3 (add [mul [num 2 1, vf "F" .h1], op1 .grad (sf "f" .h1)]) = .ok r)
    ∧ NonDegG S 2 false (add [mul [num 3 1, sf "f" .h1], sym "x"])
    ∧ (∃ r, linEval .rot (add [mul [num 3 1, sf "f" .h1], sym "x"]) = .ok r)
    ∧ NonDegD S 3 false (add [mul [num 2 1, sf "f" .h1, vf "F" .h1],
        op2 .cross (vf "F" .h1) (vf "G" .h1), op1 .curl (vf "G" .h1), mul [num 3 1, vf "G" .h1]]) := by
  refine ⟨by simp [NonDegG, NonDegGList], ⟨_, rfl⟩, by simp [NonDegG, NonDegGList], ⟨_, rfl⟩, ?_⟩
  simp [NonDegD, NonDegDList, NonDegG, NonDegGList]

end Sympde
