/-
  C02 — automatic simplification at construction never changes an expression's meaning.
  Property theorems (helpers and the rule identities are in Lemmas/Calc.lean).

  Meaning = `denG` (Sem/DenG.lean): the classical component definitions in an arbitrary
  differential ring, i.e. for every choice of smooth functions at every point.
-/
import SympdeModel.Lemmas.Calc
namespace Sympde
open E Calc

variable {K : Type} [CommRing K] [Algebra ℚ K]

theorem gradEvalListE_eq (d : Nat) (as : List E) : gradEvalListE d as = as.map (gradEval d) := by
  induction as with
  | nil => simp [gradEvalListE]
  | cons a as ih => simp [gradEvalListE, ih]

/-- the gradient of a product of scalar factors, from the gradients of the factors -/
theorem gradProd_sound (S : DRing K) (d : Nat) (lg : Bool) (i : Nat)
    (l : List (E × Except Err E))
    (hl : ∀ p ∈ l, Scal d p.1 = true ∧
      ∀ r, p.2 = .ok r → ∀ j, denG S d lg r i j = Di S lg i (denG S d lg p.1 0 0))
    (v : E) (h : gradProd l = .ok v) (j : Nat) :
    denG S d lg v i j = Di S lg i (denGProd S d lg (l.map (·.1)) 0 0) := by
  induction l generalizing v j with
  | nil =>
    simp only [gradProd] at h
    injection h with h; subst h
    simp [denG, E.zero, denGProd, Di, S.D_one]
  | cons p rest ih =>
    obtain ⟨f, g⟩ := p
    have hp := hl (f, g) (by simp)
    cases rest with
    | nil =>
      simp only [gradProd] at h
      simp only [List.map, denGProd, mul_one]
      exact hp.2 v h j
    | cons q rest' =>
      have hrest : ∀ p ∈ q :: rest', Scal d p.1 = true ∧
          ∀ r, p.2 = .ok r → ∀ j, denG S d lg r i j = Di S lg i (denG S d lg p.1 0 0) :=
        fun p hp' => hl p (by simp [hp'])
      simp only [gradProd, bind, Except.bind] at h
      cases hg : g with
      | error e => rw [hg] at h; cases h
      | ok g1 =>
        rw [hg] at h
        simp only at h
        cases hg2 : gradProd (q :: rest') with
        | error e => rw [hg2] at h; cases h
        | ok g2 =>
          rw [hg2] at h
          injection h with h; subst h
          have h1 := hp.2 g1 hg j
          have h2 := ih hrest g2 hg2 j
          have hf := (Scal_spec S d lg f hp.1).2
          have hfree : ∀ a b, denGProd S d lg ((q :: rest').map (·.1)) a b
              = denGProd S d lg ((q :: rest').map (·.1)) 0 0 := by
            intro a b
            apply denGProd_congr
            intro x hx
            obtain ⟨p', hp', rfl⟩ := List.mem_map.mp hx
            exact (Scal_spec S d lg p'.1 (hrest p' hp').1).2 a b
          have e1 : denG S d lg (add [mul [f, g2], mul [g1, Calc.mulOf ((q :: rest').map (·.1))]]) i j
              = denG S d lg f 0 0 * denG S d lg g2 i j
                + denG S d lg g1 i j * denGProd S d lg ((q :: rest').map (·.1)) 0 0 := by
            simp only [denG, denGSum, denGProd, denG_mulOf, mul_one, add_zero]
            rw [hf i j, hfree i j]
          rw [e1, h1, h2]
          change _ = Di S lg i (denG S d lg f 0 0 * denGProd S d lg ((q :: rest').map (·.1)) 0 0)
          rw [Di_mul]

theorem seqE_sound (S : DRing K) (d : Nat) (lg : Bool) (i j : Nat) (X : E → K)
    (l : List (E × Except Err E))
    (hl : ∀ p ∈ l, ∀ r, p.2 = .ok r → denG S d lg r i j = X p.1)
    (rs : List E) (h : seqE (l.map (·.2)) = .ok rs) :
    denGSum S d lg rs i j = (l.map (fun p => X p.1)).sum := by
  induction l generalizing rs with
  | nil =>
    simp only [List.map, seqE] at h
    injection h with h; subst h
    simp [denGSum]
  | cons p rest ih =>
    simp only [List.map, seqE, bind, Except.bind] at h
    cases hp : p.2 with
    | error e => rw [hp] at h; cases h
    | ok r =>
      rw [hp] at h
      simp only at h
      cases hrest : seqE (rest.map (·.2)) with
      | error e => rw [hrest] at h; cases h
      | ok rs' =>
        rw [hrest] at h
        injection h with h; subst h
        simp only [denGSum, List.map, List.sum_cons]
        rw [hl p (by simp) r hp, ih (fun q hq => hl q (by simp [hq])) rs' hrest]

theorem denGSum_append (S : DRing K) (d : Nat) (lg : Bool) (xs ys : List E) (i j : Nat) :
    denGSum S d lg (xs ++ ys) i j = denGSum S d lg xs i j + denGSum S d lg ys i j := by
  induction xs with
  | nil => simp [denGSum]
  | cons x xs ih => simp only [List.cons_append, denGSum, ih]; ring

theorem denGSum_filter (S : DRing K) (d : Nat) (lg : Bool) (p : E → Bool) (as : List E) (i j : Nat) :
    denGSum S d lg as i j
      = denGSum S d lg (as.filter p) i j + denGSum S d lg (as.filter (fun a => !p a)) i j := by
  induction as with
  | nil => simp [denGSum]
  | cons a as ih =>
    simp only [denGSum, List.filter]
    cases hp : p a <;> simp [denGSum, ih] <;> ring

theorem denG_addOf (S : DRing K) (d : Nat) (lg : Bool) (as : List E) (i j : Nat) :
    denG S d lg (addOf as) i j = denGSum S d lg as i j := by
  match as with
  | [] => simp [addOf, denGSum, E.zero, denG]
  | [a] => simp [addOf, denGSum]
  | a :: b :: rest => simp [addOf, denG]

theorem Di_denGSum (S : DRing K) (d : Nat) (lg : Bool) (k : Nat) (as : List E) (i j : Nat) :
    Di S lg k (denGSum S d lg as i j) = (as.map (fun a => Di S lg k (denG S d lg a i j))).sum := by
  induction as with
  | nil => simp [denGSum, Di_zero]
  | cons a as ih => simp only [denGSum, Di_add, List.map, List.sum_cons, ih]

theorem sum_filter_zip_map {α : Type} (p : E → Bool) (f : E → α) (X : E → K) (as : List E) :
    (((as.zip (as.map f)).filter (fun q => p q.1)).map (fun q => X q.1)).sum
      = ((as.filter p).map X).sum := by
  induction as with
  | nil => simp
  | cons a as ih =>
    simp only [List.map, List.zip_cons_cons, List.filter]
    cases hp : p a <;> simp [ih]


theorem filter_and3 (p q r : E → Bool) (as : List E) :
    as.filter (fun x => p x && q x && r x) = ((as.filter p).filter q).filter r := by
  rw [List.filter_filter, List.filter_filter]
  apply List.filter_congr
  intro x _
  cases p x <;> cases q x <;> cases r x <;> rfl

theorem filter_and2 (p q : E → Bool) (as : List E) :
    as.filter (fun x => p x && q x) = (as.filter p).filter q := by
  rw [List.filter_filter]
  apply List.filter_congr
  intro x _
  cases p x <;> cases q x <;> rfl

theorem filter_zip_fst (p : E → Bool) (f : E → Except Err E) (as : List E) :
    ((as.zip (as.map f)).filter (fun q => p q.1)).map (·.1) = as.filter p := by
  induction as with
  | nil => simp
  | cons a as ih =>
    simp only [List.map, List.zip_cons_cons, List.filter]
    cases hp : p a <;> simp [ih]

/-- the four-way split of the factors of a product used by `Grad.eval` -/
theorem prod_split (S : DRing K) (d : Nat) (lg : Bool) (as : List E) (i j : Nat) :
    denGProd S d lg as i j
      = denGProd S d lg ((as.filter (isComm d)).filter Calc.isNumber) i j
        * (denGProd S d lg ((as.filter (isComm d)).filter (fun x => !Calc.isNumber x && !hasF x)) i j
        * (denGProd S d lg (as.filter (fun x => isComm d x && !Calc.isNumber x && hasF x)) i j
        * denGProd S d lg (as.filter (fun x => !isComm d x)) i j)) := by
  rw [denGProd_filter S d lg (isComm d) as i j,
    denGProd_filter S d lg Calc.isNumber (as.filter (isComm d)) i j,
    denGProd_filter S d lg hasF ((as.filter (isComm d)).filter (fun a => !Calc.isNumber a)) i j]
  have e1 : ((as.filter (isComm d)).filter (fun a => !Calc.isNumber a)).filter hasF
      = as.filter (fun x => isComm d x && !Calc.isNumber x && hasF x) := by
    rw [filter_and3]
  have e2 : ((as.filter (isComm d)).filter (fun a => !Calc.isNumber a)).filter (fun a => !hasF a)
      = (as.filter (isComm d)).filter (fun x => !Calc.isNumber x && !hasF x) := by
    rw [filter_and2]
  rw [e1, e2]
  ring

theorem denG_mul2 (S : DRing K) (d : Nat) (lg : Bool) (x y : E) (i j : Nat) :
    denG S d lg (mul [x, y]) i j = denG S d lg x i j * denG S d lg y i j := by
  simp only [denG, denGProd, mul_one]

theorem denG_mul3 (S : DRing K) (d : Nat) (lg : Bool) (x y z : E) (i j : Nat) :
    denG S d lg (mul [x, y, z]) i j = denG S d lg x i j * (denG S d lg y i j * denG S d lg z i j) := by
  simp only [denG, denGProd, mul_one]

theorem denG_add2 (S : DRing K) (d : Nat) (lg : Bool) (x y : E) (i j : Nat) :
    denG S d lg (add [x, y]) i j = denG S d lg x i j + denG S d lg y i j := by
  simp only [denG, denGSum, add_zero]

theorem intLit_some {e : E} {n : Int} (h : PD.intLit e = some n) : e = num n 1 := by
  cases e with
  | num p q =>
    match q, h with
    | 0, h => simp [PD.intLit] at h
    | 1, h => simp [PD.intLit] at h; subst h; rfl
    | (q + 2), h => simp [PD.intLit] at h
  | _ => simp [PD.intLit] at h

theorem hasFList_iff (as : List E) : hasFList as = as.any hasF := by
  induction as with
  | nil => simp [hasFList]
  | cons a as ih => simp [hasFList, ih]

/-- **Grad of a scalar expression** — sum, constant-factor, product and power rules (integer,
    constant and variable exponents): whatever `grad(e)` returns denotes the gradient of `e`. -/
theorem gradEval_sound (S : DRing K) (d : Nat) (lg : Bool) (e : E)
    (hs : Scal d e = true) (hnd : NonDegG S d lg e) (r : E) (h : gradEval d e = .ok r) :
    ∀ i j, denG S d lg r i j = Di S lg i (denG S d lg e 0 0) := by
  -- the unevaluated node around a scalar expression
  have node : ∀ (x : E), Scal d x = true → ∀ i j,
      denG S d lg (op1 .grad x) i j = Di S lg i (denG S d lg x 0 0) := by
    intro x hx i j
    simp [denG, (Scal_spec S d lg x hx).1]
  induction e using E.rec
    (motive_2 := fun as => ∀ a ∈ as, Scal d a = true → NonDegG S d lg a → ∀ r,
      gradEval d a = .ok r → ∀ i j, denG S d lg r i j = Di S lg i (denG S d lg a 0 0))
    generalizing r with
  | num p q =>
    intro i j
    simp only [gradEval, hasF, Calc.isNumber, PD.isNumber] at h
    simp at h; subst h
    simp [denG, E.zero, Di, S.D_rat]
  | cst s =>
    intro i j
    simp only [gradEval, hasF, Calc.isNumber, PD.isNumber] at h
    simp at h; subst h
    simp [denG, E.zero, Di, S.D_cst]
  | sym s =>
    intro i j
    simp only [gradEval, hasF, Calc.isNumber, PD.isNumber] at h
    simp at h; subst h
    exact node _ hs i j
  | sf s k =>
    intro i j
    simp only [gradEval, hasF, atomNode] at h
    simp at h
    split at h
    · injection h with h; subst h; exact node _ hs i j
    · cases h
  | idx b k _ =>
    intro i j
    cases b with
    | vf s kk =>
      simp only [gradEval, hasF, atomNode] at h
      simp at h; subst h
      exact node _ hs i j
    | _ => simp [Scal] at hs
  | add as ih =>
    intro i j
    have hs' : ∀ a ∈ as, Scal d a = true := by
      simpa [Scal, ScalList_iff] using hs
    have hnd' : ∀ a ∈ as, NonDegG S d lg a := fun a ha => NonDegGList_mem S d lg as (by simpa [NonDegG] using hnd) a ha
    have hfree : ∀ a ∈ as, ∀ p q, denG S d lg a p q = denG S d lg a 0 0 :=
      fun a ha => (Scal_spec S d lg a (hs' a ha)).2
    simp only [gradEval] at h
    split at h
    · split at h
      · rename_i hnum
        injection h with h; subst h
        have := DG_isNumber S d lg (Coord.ofIdx lg i) (add as) (by simpa [PD.isNumber] using hnum) hnd 0 0
        simp only [denG, E.zero] at this ⊢
        simp [Di, this]
      · injection h with h; subst h
        exact node _ hs i j
    · simp only [bind, Except.bind, gradEvalListE_eq] at h
      split at h
      · cases h
      · rename_i ra hra
        injection h with h; subst h
        have hsum := seqE_sound S d lg i j (fun a => Di S lg i (denG S d lg a 0 0))
          ((as.zip (as.map (gradEval d))).filter (fun p => hasF p.1)) (by
            intro p hp r hr
            have hp' := (List.mem_filter.mp hp).1
            have := mem_zip_map (gradEval d) as p hp'
            rw [this.2] at hr
            exact ih p.1 this.1 (hs' _ this.1) (hnd' _ this.1) r hr i j) ra hra
        rw [sum_filter_zip_map hasF (gradEval d) (fun a => Di S lg i (denG S d lg a 0 0)) as] at hsum
        simp only [denG]
        rw [denGSum_append, hsum, denGSum_filter S d lg hasF as 0 0, Di_add, Di_denGSum]
        congr 1
        -- the function-free remainder: a number (derivative 0) or left under an unevaluated Grad
        have hrestS : Scal d (addOf (as.filter (fun x => !hasF x))) = true := by
          have hall : ∀ a ∈ as.filter (fun x => !hasF x), Scal d a = true :=
            fun a ha => hs' a (List.mem_filter.mp ha).1
          match hm : as.filter (fun x => !hasF x), hall with
          | [], _ => simp [addOf, Scal, E.zero]
          | [a], hall => simpa [addOf] using hall a (by simp)
          | a :: b :: rest, hall =>
            simp only [addOf, Scal, ScalList_iff, List.all_eq_true]
            exact hall
        simp only [denGSum, add_zero]
        split
        · rename_i hnum
          have hndr : NonDegG S d lg (addOf (as.filter (fun x => !hasF x))) := by
            have hall : ∀ a ∈ as.filter (fun x => !hasF x), NonDegG S d lg a :=
              fun a ha => hnd' a (List.mem_filter.mp ha).1
            match hm : as.filter (fun x => !hasF x), hall with
            | [], _ => simp [addOf, NonDegG, E.zero]
            | [a], hall => simpa [addOf] using hall a (by simp)
            | a :: b :: rest, hall =>
              simp only [addOf, NonDegG]
              exact NonDegGList_of_mem S d lg _ hall
          have := DG_isNumber S d lg (Coord.ofIdx lg i) _ hnum hndr 0 0
          rw [denG_addOf] at this
          simp [denG, E.zero, Di, this]
        · rw [node _ hrestS i j, denG_addOf]
  | mul as ih =>
    intro i j
    have hs' : ∀ a ∈ as, Scal d a = true := by
      simpa [Scal, ScalList_iff] using hs
    have hnd' : ∀ a ∈ as, NonDegG S d lg a := fun a ha => NonDegGList_mem S d lg as (by simpa [NonDegG] using hnd) a ha
    have hfreeL : ∀ (l : List E), (∀ a ∈ l, a ∈ as) → ∀ p q,
        denGProd S d lg l p q = denGProd S d lg l 0 0 := by
      intro l hl p q
      exact denGProd_congr S d lg l p q 0 0 (fun a ha => (Scal_spec S d lg a (hs' a (hl a ha))).2 p q)
    have hsub : ∀ (p : E → Bool), ∀ a ∈ as.filter p, a ∈ as := fun p a ha => (List.mem_filter.mp ha).1
    simp only [gradEval] at h
    split at h
    · split at h
      · rename_i hnum
        injection h with h; subst h
        have := DG_isNumber S d lg (Coord.ofIdx lg i) (mul as) (by simpa [PD.isNumber] using hnum) hnd 0 0
        simp only [denG, E.zero] at this ⊢
        simp [Di, this]
      · injection h with h; subst h
        exact node _ hs i j
    · simp only [gradEvalListE_eq] at h
      -- notation for the four groups of factors
      have hsplit := prod_split S d lg as 0 0
      have hDc : Di S lg i (denGProd S d lg ((as.filter (isComm d)).filter Calc.isNumber) 0 0) = 0 := by
        apply DG_prod_numbers
        · intro a ha; exact (List.mem_filter.mp ha).2
        · intro a ha; exact hnd' a (hsub _ a (List.mem_filter.mp ha).1)
      have hcf : ∀ v, gradProd ((as.zip (as.map (gradEval d))).filter
            (fun p => isComm d p.1 && !Calc.isNumber p.1 && hasF p.1)) = .ok v →
          ∀ j, denG S d lg v i j = Di S lg i
            (denGProd S d lg (as.filter (fun x => isComm d x && !Calc.isNumber x && hasF x)) 0 0) := by
        intro v hv j
        have := gradProd_sound S d lg i _ (by
          intro p hp
          have hp' := (List.mem_filter.mp hp).1
          have hm := mem_zip_map (gradEval d) as p hp'
          refine ⟨hs' _ hm.1, ?_⟩
          intro r hr j
          rw [hm.2] at hr
          exact ih p.1 hm.1 (hs' _ hm.1) (hnd' _ hm.1) r hr i j) v hv j
        rw [filter_zip_fst (fun x => isComm d x && !Calc.isNumber x && hasF x) (gradEval d) as] at this
        exact this
      have hN := hfreeL ((as.filter (isComm d)).filter Calc.isNumber)
        (fun a ha => hsub _ a (List.mem_filter.mp ha).1) i j
      have hF := hfreeL ((as.filter (isComm d)).filter (fun x => !Calc.isNumber x && !hasF x))
        (fun a ha => hsub _ a (List.mem_filter.mp ha).1) i j
      have hC := hfreeL (as.filter (fun x => isComm d x && !Calc.isNumber x && hasF x)) (hsub _) i j
      simp only [denG]
      rw [hsplit]
      split at h
      · -- a non-commutative factor: everything but the numbers stays under an unevaluated Grad
        injection h with h; subst h
        have hS : Scal d (mul [Calc.mulOf ((as.filter (isComm d)).filter (fun x => !Calc.isNumber x && !hasF x)),
            Calc.mulOf (((as.zip (as.map (gradEval d))).filter
              (fun p => isComm d p.1 && !Calc.isNumber p.1 && hasF p.1)).map (·.1)),
            Calc.mulOf (as.filter (fun x => !isComm d x))]) = true := by
          rw [filter_zip_fst (fun x => isComm d x && !Calc.isNumber x && hasF x) (gradEval d) as]
          have hm : ∀ (l : List E), (∀ a ∈ l, a ∈ as) → Scal d (Calc.mulOf l) = true := by
            intro l hl
            match l, hl with
            | [], _ => simp [Calc.mulOf, PD.mulOf, Scal, E.one]
            | [a], hl => simpa [Calc.mulOf, PD.mulOf] using hs' a (hl a (by simp))
            | a :: b :: rest, hl =>
              simp only [Calc.mulOf, PD.mulOf, Scal, ScalList_iff, List.all_eq_true]
              exact fun x hx => hs' x (hl x hx)
          simp only [Scal, ScalList, Bool.and_true, Bool.and_eq_true]
          exact ⟨hm _ (fun a ha => hsub _ a (List.mem_filter.mp ha).1), hm _ (hsub _), hm _ (hsub _)⟩
        rw [denG_mul2, node _ hS i j, denG_mul3]
        simp only [denG_mulOf]
        rw [filter_zip_fst (fun x => isComm d x && !Calc.isNumber x && hasF x) (gradEval d) as]
        simp only [hN]
        generalize denGProd S d lg ((as.filter (isComm d)).filter Calc.isNumber) 0 0 = A at hDc ⊢
        rw [Di_mul S lg i A, hDc]
        ring
      · rename_i hnc
        have hnc' : as.filter (fun x => !isComm d x) = [] := by simpa using hnc
        rw [hnc']
        simp only [denGProd, mul_one]
        split at h
        · -- coordinate-like factors b1 and function-bearing scalar factors b2
          simp only [bind, Except.bind] at h
          split at h
          · cases h
          · rename_i db2 hdb2
            injection h with h; subst h
            have hg := hcf db2 hdb2
            have hSb1 : Scal d (Calc.mulOf ((as.filter (isComm d)).filter (fun x => !Calc.isNumber x && !hasF x))) = true := by
              have hl : ∀ a ∈ (as.filter (isComm d)).filter (fun x => !Calc.isNumber x && !hasF x), a ∈ as :=
                fun a ha => hsub _ a (List.mem_filter.mp ha).1
              match hm : (as.filter (isComm d)).filter (fun x => !Calc.isNumber x && !hasF x), hl with
              | [], _ => simp [Calc.mulOf, PD.mulOf, Scal, E.one]
              | [a], hl => simpa [Calc.mulOf, PD.mulOf] using hs' a (hl a (by simp))
              | a :: b :: rest, hl =>
                simp only [Calc.mulOf, PD.mulOf, Scal, ScalList_iff, List.all_eq_true]
                exact fun x hx => hs' x (hl x hx)
            rw [denG_add2, denG_mul3, denG_mul3, node _ hSb1 i j, hg j]
            simp only [denG_mulOf]
            rw [filter_zip_fst (fun x => isComm d x && !Calc.isNumber x && hasF x) (gradEval d) as]
            simp only [hN, hF, hC]
            generalize denGProd S d lg ((as.filter (isComm d)).filter Calc.isNumber) 0 0 = A at hDc ⊢
            generalize denGProd S d lg ((as.filter (isComm d)).filter (fun x => !Calc.isNumber x && !hasF x)) 0 0 = B
            generalize denGProd S d lg (as.filter (fun x => isComm d x && !Calc.isNumber x && hasF x)) 0 0 = C
            rw [Di_mul S lg i A, hDc, Di_mul S lg i B]
            ring
        · rename_i hfe
          have hfe' : (as.filter (isComm d)).filter (fun x => !Calc.isNumber x && !hasF x) = [] := by simpa using hfe
          rw [hfe']
          simp only [denGProd, one_mul]
          split at h
          · simp only [bind, Except.bind] at h
            split at h
            · cases h
            · rename_i db2 hdb2
              injection h with h; subst h
              have hg := hcf db2 hdb2
              rw [denG_mul2, denG_mulOf, hg j]
              simp only [hN]
              generalize denGProd S d lg ((as.filter (isComm d)).filter Calc.isNumber) 0 0 = A at hDc ⊢
              rw [Di_mul S lg i A, hDc]
              ring
          · rename_i hce
            injection h with h; subst h
            have hce' : (as.zip (as.map (gradEval d))).filter
                (fun p => isComm d p.1 && !Calc.isNumber p.1 && hasF p.1) = [] := by simpa using hce
            have : as.filter (fun x => isComm d x && !Calc.isNumber x && hasF x) = [] := by
              rw [← filter_zip_fst (fun x => isComm d x && !Calc.isNumber x && hasF x) (gradEval d) as, hce']
              rfl
            rw [this]
            simp only [denGProd, mul_one]
            rw [hDc]
            simp [denG, E.zero]
  | nil => cases ‹_ ∈ []›
  | cons a as iha ihas =>
    rename_i x hx h1 h2 r' hr i j
    rcases List.mem_cons.mp hx with rfl | hx
    · exact iha h1 h2 r' hr i j
    · exact ihas x hx h1 h2 r' hr i j
  | pow b e ihb ihe =>
    intro i j
    have hsb : Scal d b = true := by simp only [Scal, Bool.and_eq_true] at hs; exact hs.1
    have hse : Scal d e = true := by simp only [Scal, Bool.and_eq_true] at hs; exact hs.2
    have hndb : NonDegG S d lg b := by simp only [NonDegG] at hnd; exact hnd.2.1
    have hnde : NonDegG S d lg e := by simp only [NonDegG] at hnd; exact hnd.2.2
    have hfb := (Scal_spec S d lg b hsb).2
    have hfe := (Scal_spec S d lg e hse).2
    simp only [gradEval] at h
    split at h
    · split at h
      · rename_i hnum
        injection h with h; subst h
        have := DG_isNumber S d lg (Coord.ofIdx lg i) (pow b e) (by simpa [PD.isNumber, Calc.isNumber] using hnum) hnd 0 0
        have hz : denG S d lg E.zero i j = 0 := by simp [denG, E.zero]
        rw [hz]; exact this.symm
      · injection h with h; subst h
        exact node _ hs i j
    · simp only [bind, Except.bind] at h
      cases hgb : gradEval d b with
      | error x => rw [hgb] at h; cases h
      | ok gb =>
        rw [hgb] at h
        simp only at h
        have hb := ihb hsb hndb gb hgb i j
        simp only [denG]
        cases hl : PD.intLit e with
        | some n =>
          -- integer literal exponent: n * b^(n-1) * grad b
          have hnum : Calc.isNumber e = true := by
            rw [intLit_some hl]; rfl
          rw [hnum] at h
          simp only [if_true] at h
          injection h with h; subst h
          rw [denG_mul3, hb, hfe i j]
          have hp : predExp e = num (n - 1) 1 := by simp [predExp, hl]
          rw [hp]
          simp only [denG]
          rw [hfb i j]
          have hunit : ∀ m, n = Int.negSucc m → denG S d lg b 0 0 * S.inv (denG S d lg b 0 0) = 1 := by
            intro m hm
            have := hnd.1
            rw [hl, hm] at this
            exact this 0 0
          have hD := D_powSem_int S (Coord.ofIdx lg i) (denG S d lg b 0 0) e (denG S d lg e 0 0) n hl hunit
          simp only [Di] at hD ⊢
          rw [hD]
          have he : denG S d lg e 0 0 = (n : K) := by
            rw [intLit_some hl]; simp [denG]
          rw [he, powSem_int S _ _ _ 0 (n - 1) (intLit_num _)]
          ring
        | none =>
          have hunit : denG S d lg b 0 0 * S.inv (denG S d lg b 0 0) = 1 := by
            have := hnd.1
            rw [hl] at this
            exact this 0 0
          have hp : predExp e = add [e, num (-1) 1] := by simp [predExp, hl]
          have hlp : PD.intLit (add [e, num (-1) 1]) = none := rfl
          have hpe : ∀ x y, powSem S x e y = S.rpow x y := by
            intro x y; unfold powSem; rw [hl]
          have hpp : ∀ x y, powSem S x (add [e, num (-1) 1]) y = S.rpow x y := by
            intro x y; unfold powSem; rw [hlp]
          have hm1 : algebraMap ℚ K (((-1 : ℤ) : ℚ) / ((1 : ℕ) : ℚ)) = -1 := by simp
          split at h
          · rename_i hnum
            injection h with h; subst h
            rw [denG_mul3, hb, hp]
            simp only [denG, denGSum, add_zero]
            rw [hfe i j, hfb i j, hpe, hpp, hm1, S.rpow_pred _ _ hunit]
            have hDe := DG_isNumber S d lg (Coord.ofIdx lg i) e hnum hnde 0 0
            simp only [Di]
            rw [S.D_rpow, hDe]
            ring
          · cases hge : gradEval d e with
            | error x => rw [hge] at h; cases h
            | ok ge =>
              rw [hge] at h
              injection h with h; subst h
              have he' := ihe hse hnde ge hge i j
              rw [denG_add2, denG_mul3, denG_mul3, hb, he', hp]
              simp only [denG, denGSum, add_zero]
              rw [hfe i j, hfb i j, hpe, hpp, hm1, S.rpow_pred _ _ hunit]
              simp only [Di]
              rw [S.D_rpow]
              ring
  | fn f a _ =>
    intro i j
    simp only [gradEval] at h
    split at h
    · split at h
      · rename_i hnum
        injection h with h; subst h
        have := DG_isNumber S d lg (Coord.ofIdx lg i) (fn f a) hnum hnd 0 0
        have hz : denG S d lg E.zero i j = 0 := by simp [denG, E.zero]
        rw [hz]; exact this.symm
      · injection h with h; subst h
        exact node _ hs i j
    · simp only [atomNode] at h
      injection h with h; subst h
      exact node _ hs i j
  | pd c a _ =>
    intro i j
    simp only [gradEval] at h
    split at h
    · split at h
      · rename_i hnum
        simp [Calc.isNumber, PD.isNumber] at hnum
      · injection h with h; subst h
        exact node _ hs i j
    · simp only [atomNode] at h
      injection h with h; subst h
      exact node _ hs i j
  | op1 o a _ =>
    intro i j
    have hno : o ≠ .minus ∧ o ≠ .plus := by
      cases o <;> simp_all [Scal]
    simp only [gradEval] at h
    split at h
    · split at h
      · rename_i hnum
        simp [Calc.isNumber, PD.isNumber] at hnum
      · injection h with h; subst h
        exact node _ hs i j
    · cases o <;> simp_all [atomNode] <;> (subst h; exact node _ hs i j)
  | op2 o a b _ _ =>
    intro i j
    simp only [gradEval] at h
    split at h
    · split at h
      · rename_i hnum
        simp [Calc.isNumber, PD.isNumber] at hnum
      · injection h with h; subst h
        exact node _ hs i j
    · simp only [atomNode] at h
      injection h with h; subst h
      exact node _ hs i j
  | _ => simp [Scal] at hs

end Sympde
