/-
  C13 — joining patches partitions their faces and mirrors the logical domain.
  Property theorems only (model: Model/Topology.lean, helper lemmas: Lemmas/Topology.lean).

  Common hypotheses (all decidable on a concrete layout):
    NamesOk ps      the patch names are pairwise different (sympde identifies objects by name)
    ConnsOk ps cs   no face is used by two connections, no ordered patch pair is declared twice,
                    the declared patches are among `ps`
-/
import SympdeModel.Lemmas.Topology
import SympdeModel.Lemmas.TopologySub
import SympdeModel.Lemmas.TopologyCorners
namespace Sympde.Topo

/-- **Partition.**  For every list of at least two n-cube patches (any dimension, plain or mapped) and
    every list of connections on which `Domain.join` returns a domain `d`:
    the interiors of `d` are exactly the patches, and the external boundary of `d` together with
    the two sides of all interfaces of `d` is a permutation of the list of all faces of all
    patches — a list without repetition.  Hence every face is either exactly one side of exactly
    one interface or in the external boundary, never both (`join_partition_face`). -/
theorem join_partition {ps : List Patch} {cs : List Conn} {name : String} {d : Dom}
    (hj : join ps cs name = .ok d) (hlen : 2 ≤ ps.length) (hn : NamesOk ps) (hok : ConnsOk ps cs) :
    d.interiors.Perm ps ∧
    (d.boundary ++ ifaceSides d.ifaces).Perm (allFaces ps) ∧ (allFaces ps).Nodup := by
  obtain ⟨hr, _, _, hi, hb, hf⟩ := join_fields hj hlen
  refine ⟨by rw [hi]; exact unionPatches_perm hn, ?_, allFaces_nodup hn.nodup⟩
  rw [hb, hf, buildIfaces_eq _ hok.2.1, ifaceSides_map_toIface]
  have hin := joined_in hr hok
  have hps : ∀ g ∈ (resolved ps cs).flatMap RConn.sides, g.patch ∈ ps :=
    fun g hg => ((mem_allFaces ps g).mp (hin g hg)).1
  exact (List.Perm.append_right _ (externalFaces_perm hn _ hps)).trans
    (complement_append_perm (allFaces_nodup hn.nodup) hok.1 hin)

/-- the per-face reading of `join_partition` -/
theorem join_partition_face {ps : List Patch} {cs : List Conn} {name : String} {d : Dom}
    (hj : join ps cs name = .ok d) (hlen : 2 ≤ ps.length) (hn : NamesOk ps) (hok : ConnsOk ps cs)
    (p : Patch) (hp : p ∈ ps) (f : Face) (hf : f ∈ p.faces) :
    (f ∈ d.boundary ∧ (ifaceSides d.ifaces).count f = 0) ∨
    (f ∉ d.boundary ∧ (ifaceSides d.ifaces).count f = 1) := by
  obtain ⟨_, hperm, hnd⟩ := join_partition hj hlen hn hok
  have hfa : f ∈ allFaces ps := List.mem_flatMap.mpr ⟨p, hp, hf⟩
  have hnd' : (d.boundary ++ ifaceSides d.ifaces).Nodup := hperm.nodup_iff.mpr hnd
  have hmem : f ∈ d.boundary ++ ifaceSides d.ifaces := hperm.mem_iff.mpr hfa
  rw [List.nodup_append] at hnd'
  rcases List.mem_append.mp hmem with h | h
  · left
    refine ⟨h, List.count_eq_zero.mpr ?_⟩
    intro h2; exact hnd'.2.2 f h f h2 rfl
  · right
    refine ⟨fun h1 => hnd'.2.2 f h1 f h rfl, ?_⟩
    rw [List.Nodup.count hnd'.2.1]; simp [h]

/-- nothing else appears: every boundary face and every interface side is a face of a patch -/
theorem join_partition_sub {ps : List Patch} {cs : List Conn} {name : String} {d : Dom}
    (hj : join ps cs name = .ok d) (hlen : 2 ≤ ps.length) (hn : NamesOk ps) (hok : ConnsOk ps cs)
    (f : Face) (hf : f ∈ d.boundary ∨ f ∈ ifaceSides d.ifaces) : f ∈ allFaces ps := by
  obtain ⟨_, hperm, _⟩ := join_partition hj hlen hn hok
  exact hperm.subset (List.mem_append.mpr hf)

/-- **Declared connections.**  The connectivity of the joined domain is, entry by entry and in the
    order of declaration, the list of declared connections: the k-th interface joins the faces
    named by the k-th connection (minus to minus, plus to plus), is called `minus|plus`, and
    carries the declared orientation (or the default).  In particular each declared connection
    appears exactly once. -/
theorem join_declared {ps : List Patch} {cs : List Conn} {name : String} {d : Dom}
    (hj : join ps cs name = .ok d) (hlen : 2 ≤ ps.length) (hok : ConnsOk ps cs) :
    List.Forall₂ (Declares ps (headDim ps) (byIndices cs)) cs d.ifaces ∧ (d.ifaces.map Iface.name).Nodup := by
  obtain ⟨hr, _, _, _, _, hf⟩ := join_fields hj hlen
  obtain ⟨h1, h2⟩ := resolved_spec hr
  rw [hf, buildIfaces_eq _ hok.2.1]
  constructor
  · rw [h1, List.map_map, List.forall₂_map_right_iff]
    apply List.forall₂_same.mpr
    intro c hc
    exact resolve_declares (h2 c hc)
  · rw [List.map_map]
    exact hok.2.1

/-- **Logical mirror.**  When every patch is mapped (and the logical names are as hygienic as the
    physical ones), the joined domain has a logical domain whose structure is the image of the
    physical structure under "strip the mapping": interiors, external boundary face by face,
    connectivity interface by interface in the same order with the same orientation and the
    names `logical minus|logical plus`; every physical face / interface points to its twin; the
    logical domain is itself a partition of the faces of the logical patches; and the
    multi-patch mapping sends each logical patch to the mapping of its physical patch. -/
theorem logical_mirror {ps : List Patch} {cs : List Conn} {name : String} {d : Dom}
    (hj : join ps cs name = .ok d) (hlen : 2 ≤ ps.length) (hn : NamesOk ps) (hok : ConnsOk ps cs)
    (hm : ∀ p ∈ ps, p.mapping.isSome) (hln : LNamesOk ps) (hlc : LConnsOk ps cs) :
    ∃ L : DomCore, d.logical = some L ∧ L.name = d.name ∧
      L.interiors.Perm (d.interiors.map Patch.strip) ∧
      L.boundary.Perm (d.boundary.map Face.strip) ∧
      L.ifaces = d.ifaces.map Iface.strip ∧
      (∀ i ∈ d.ifaces, i.logical = some i.strip) ∧
      (∀ f ∈ d.boundary, f.logical = some f.strip) ∧
      (L.boundary ++ ifaceSides L.ifaces).Perm (allFaces (ps.map Patch.strip)) ∧
      (allFaces (ps.map Patch.strip)).Nodup ∧
      d.mappings = d.interiors.map (fun p => (p.lname, p.mapping.getD "")) := by
  obtain ⟨hr, _, hfin⟩ := join_finish hj hlen
  obtain ⟨_, _, hname, hi, hb, hf⟩ := join_fields hj hlen
  obtain ⟨hpi, hperm, _⟩ := join_partition hj hlen hn hok
  have hall : (unionPatches ps).all (fun e => e.mapping.isSome) = true := by
    rw [List.all_eq_true]; intro p hp
    exact hm p ((unionPatches_perm hn).subset hp)
  obtain ⟨lifs, hl, hlog, hmap⟩ := finishJoin_mapped hfin hall
  -- faces of the joined domain lie on mapped patches of `ps`
  have hbps : ∀ f ∈ d.boundary, f.patch ∈ ps := fun f hf' =>
    ((mem_allFaces ps f).mp (hperm.subset (List.mem_append_left _ hf'))).1
  have hblog : ∀ f ∈ d.boundary, f.logical = some f.strip := fun f hf' =>
    face_logical_of_mapped (hm _ (hbps f hf'))
  have hilog : ∀ i ∈ d.ifaces, i.logical = some i.strip := by
    intro i hi'
    rw [hf, buildIfaces_eq _ hok.2.1] at hi'
    obtain ⟨c, hc, rfl⟩ := List.mem_map.mp hi'
    have := hok.2.2 c hc
    exact iface_logical_of_mapped (hm _ this.1) (hm _ this.2)
  have hlifs : lifs = d.ifaces.map Iface.strip := by
    have := logicalIfaces_eq d.ifaces [] hilog (by
      rw [hf, buildIfaces_eq _ hok.2.1]
      simp only [List.map_nil, List.nil_append, List.map_map]
      have : ((fun i => i.strip.name) ∘ RConn.toIface) = RConn.lname := by
        funext c; exact toIface_strip_name c
      rw [this]; exact hlc)
    rw [hf] at this
    rw [hl] at this
    simp only [Except.ok.injEq, List.nil_append] at this
    rw [this, hf]
  have hlnI : LNamesOk d.interiors := hln.perm hpi
  have hbnd : (unionFaces (d.boundary.filterMap Face.logical)).Perm (d.boundary.map Face.strip) := by
    rw [filterMap_eq_map_of _ _ _ hblog]
    apply unionBy_perm
    apply pairwise_not_same_of_nodup (ps := ps.map Patch.strip) hln
    · intro f hf'
      obtain ⟨g, hg, rfl⟩ := List.mem_map.mp hf'
      exact strip_patch_mem (hbps g hg)
    · have hnd : d.boundary.Nodup := by
        have := hperm.nodup_iff.mpr (allFaces_nodup hn.nodup)
        exact (List.nodup_append.mp this).1
      exact List.Nodup.map_on (fun x hx y hy e => hln.face_inj (hbps x hx) (hbps y hy) e) hnd
  refine ⟨_, hlog, hname.symm, ?_, ?_, hlifs, hilog, hblog, ?_, ?_, ?_⟩
  · rw [hi]; exact unionPatches_perm (hln.perm (unionPatches_perm hn))
  · rw [← hb]; exact hbnd
  · simp only
    rw [hlifs, ifaceSides_map_strip, allFaces_strip]
    rw [← hb]
    refine (List.Perm.append_right _ hbnd).trans ?_
    rw [← List.map_append]
    exact hperm.map _
  · exact allFaces_nodup hln.nodup
  · rw [hmap, hi]
    exact mappingDict_eq _ (hln.perm (unionPatches_perm hn)).lnames

/-- **Order invariance.**  Declaring the same connections in any other order gives the same
    domain: `join` succeeds again, with the same name, interiors, external boundary (as lists)
    and mapping, a connectivity that is a permutation of the first one, and a logical domain
    with the same interiors and boundary (its connectivity is covered by `logical_mirror`,
    which applies to both results).  The hypotheses carry over to the permuted list. -/
theorem join_order_invariant {ps : List Patch} {cs cs' : List Conn} {name : String} {d : Dom}
    (hj : join ps cs name = .ok d) (hlen : 2 ≤ ps.length) (hok : ConnsOk ps cs) (hp : cs'.Perm cs) :
    ∃ d', join ps cs' name = .ok d' ∧ ConnsOk ps cs' ∧
      d'.name = d.name ∧ d'.interiors = d.interiors ∧ d'.boundary = d.boundary ∧
      d'.ifaces.Perm d.ifaces ∧ d'.mappings = d.mappings ∧
      d'.logical.isSome = d.logical.isSome ∧
      ∀ L L', d.logical = some L → d'.logical = some L' →
        L'.name = L.name ∧ L'.interiors = L.interiors ∧ L'.boundary = L.boundary := by
  obtain ⟨hr, hdim, hfin⟩ := join_finish hj hlen
  obtain ⟨_, _, _, _, _, hf⟩ := join_fields hj hlen
  obtain ⟨hr', hperm⟩ := resolved_perm hr hp
  have hok' := hok.perm hperm
  have hifs : (buildIfaces (resolved ps cs')).Perm (buildIfaces (resolved ps cs)) := by
    rw [buildIfaces_eq _ hok.2.1, buildIfaces_eq _ hok'.2.1]
    exact hperm.map _
  rw [← externalFaces_perm_joined _ (hperm.flatMap_right RConn.sides)] at hfin
  obtain ⟨d', hd', h1, h2, h3, h4, h5, h6, h7⟩ := finishJoin_perm hfin hifs
  refine ⟨d', join_of_finish hlen hdim hr' hd', hok', h1, h2, h3, ?_, h5, h6, h7⟩
  rw [h4, hf]; exact hifs

/-- **One mapping applied to a joined plain domain** (`F(Omega)`, MappedDomain).  The mapped domain
    has `Omega` as its logical domain and is `Omega` with every patch mapped by `F`: the same
    interiors, the same external boundary face by face, the same interfaces (same names, same
    sides) with the same orientation; stripping the mapping gives back exactly the patches and
    faces of `Omega`. -/
theorem mapped_domain_mirror {ps : List Patch} {cs : List Conn} {name : String} {d : Dom}
    (hj : join ps cs name = .ok d) (hlen : 2 ≤ ps.length) (hn : NamesOk ps) (hok : ConnsOk ps cs)
    (hplain : ∀ p ∈ ps, p.mapping = none) (m : String) :
    ∃ X, applyMapping m d = .ok X ∧ X.logical = some d.toDomCore ∧ X.name = mappedName m d.name ∧
      X.interiors.Perm (d.interiors.map (Patch.mapBy m)) ∧
      X.boundary.Perm (d.boundary.map (Face.mapBy m)) ∧
      X.ifaces.Perm (d.ifaces.map (fun e => ⟨e.name, e.minus.mapBy m, e.plus.mapBy m, e.ornt⟩)) ∧
      (∀ p ∈ d.interiors, (p.mapBy m).strip = p) ∧ (∀ f ∈ d.boundary, (f.mapBy m).strip = f) ∧
      (∀ i ∈ d.ifaces, (i.minus.mapBy m).strip = i.minus ∧ (i.plus.mapBy m).strip = i.plus) := by
  obtain ⟨hpi, hperm, hnd⟩ := join_partition hj hlen hn hok
  obtain ⟨_, _, _, _, _, hf⟩ := join_fields hj hlen
  have hplainI : ∀ p ∈ d.interiors, p.mapping = none := fun p hp => hplain p (hpi.subset hp)
  have hany : d.interiors.any (fun p => p.mapping.isSome) = false := by
    rw [List.any_eq_false]; intro p hp; simp [hplainI p hp]
  have hfplain : ∀ f ∈ allFaces ps, f.patch.mapping = none := fun f hf' =>
    hplain _ ((mem_allFaces ps f).mp hf').1
  have hbps : ∀ f ∈ d.boundary, f ∈ allFaces ps := fun f hf' => hperm.subset (List.mem_append_left _ hf')
  have hsps : ∀ f ∈ ifaceSides d.ifaces, f ∈ allFaces ps := fun f hf' => hperm.subset (List.mem_append_right _ hf')
  have hnm := namesOk_mapBy hn hplain m
  have hX : applyMapping m d = .ok
      { name := mappedName m d.name
        interiors := unionPatches (d.interiors.map (Patch.mapBy m))
        boundary := unionFaces (d.boundary.map (Face.mapBy m))
        ifaces := (sortBy Iface.name d.ifaces).foldl
          (fun acc e => connSet acc ⟨e.name, e.minus.mapBy m, e.plus.mapBy m, e.ornt⟩) []
        logical := some d.toDomCore
        mappings := d.interiors.map (fun p => (p.lname, m)) } := by
    simp only [applyMapping, hany, Bool.false_eq_true, if_false]
  refine ⟨_, hX, rfl, rfl, ?_, ?_, ?_, ?_, ?_, ?_⟩
  · exact unionPatches_perm (((hpi.map _).map _).nodup_iff.mpr hnm)
  · apply unionBy_perm
    apply pairwise_not_same_of_nodup (ps := ps.map (Patch.mapBy m)) hnm
    · intro f hf'
      obtain ⟨g, hg, rfl⟩ := List.mem_map.mp hf'
      exact List.mem_map_of_mem ((mem_allFaces ps g).mp (hbps g hg)).1
    · have hbnd : d.boundary.Nodup := (List.nodup_append.mp (hperm.nodup_iff.mpr hnd)).1
      apply List.Nodup.map_on _ hbnd
      intro x hx y hy e
      have := congrArg Face.strip e
      rwa [face_mapBy_strip (hfplain x (hbps x hx)), face_mapBy_strip (hfplain y (hbps y hy))] at this
  · show (List.foldl _ [] (sortBy Iface.name d.ifaces)).Perm _
    have hnames : (d.ifaces.map Iface.name).Nodup := (join_declared hj hlen hok).2
    rw [← List.foldl_map (f := fun e : Iface => (⟨e.name, e.minus.mapBy m, e.plus.mapBy m, e.ornt⟩ : Iface))
      (g := connSet)]
    rw [foldl_connSet_fresh _ [] (by
      simp only [List.map_nil, List.nil_append, List.map_map]
      exact ((sortBy_perm _ _).map _).nodup_iff.mpr hnames)]
    simpa using (sortBy_perm Iface.name d.ifaces).map _
  · intro p hp; exact mapBy_strip (hplainI p hp) m
  · intro f hf'; exact face_mapBy_strip (hfplain f (hbps f hf')) m
  · intro i hi
    exact ⟨face_mapBy_strip (hfplain _ (hsps _ ((mem_ifaceSides _ _).mpr ⟨i, hi, Or.inl rfl⟩))) m,
      face_mapBy_strip (hfplain _ (hsps _ ((mem_ifaceSides _ _).mpr ⟨i, hi, Or.inr rfl⟩))) m⟩

/-- **Face lookup on a patch.**  `patch.get_boundary(axis, ext)` returns exactly the face
    `(patch, axis, ext)` when `axis < dim` and `ext = ±1`, and raises ValueError otherwise … -/
theorem getBoundary_spec (p : Patch) (a : Nat) (e : Int) :
    p.getBoundary (some a) e =
      if a < p.dim ∧ (e = -1 ∨ e = 1) then .ok ⟨p, a, e⟩ else .error .valueError := by
  simp only [Patch.getBoundary, normAxis, bind, Except.bind]
  exact findFace_boundary p a e

/-- … `axis=None` is accepted for lines only and means axis 0 … -/
theorem getBoundary_none (p : Patch) (e : Int) :
    p.getBoundary none e = if p.dim = 1 then p.getBoundary (some 0) e else .error .assertionError := by
  by_cases h : p.dim = 1
  · simp [Patch.getBoundary, normAxis, h, bind, Except.bind]
  · simp [Patch.getBoundary, normAxis, h, bind, Except.bind]

/-- … and the face found is called Γ_{2·axis + (ext+3)/2}: the numbering of `NCubeInterior`. -/
theorem getBoundary_gamma (p : Patch) (a : Nat) (e : Int) (he : e = -1 ∨ e = 1) :
    (⟨p, a, e⟩ : Face).gamma = "\\Gamma_" ++ toString (2 * a + ((e + 3) / 2).toNat) := by
  rcases he with rfl | rfl <;> simp [Face.gamma, gammaIndex]

/-- **Face lookup on a domain.**  `domain.get_boundary(axis, ext)` returns the first member of the
    external boundary with this axis and side (nothing before it matches), and raises ValueError
    exactly when the external boundary has no such face. -/
theorem domain_getBoundary_spec (d : DomCore) (a : Nat) (e : Int) :
    (∀ f, d.getBoundary (some a) e = .ok f →
        ∃ pre post, d.boundary = pre ++ f :: post ∧ f.axis = a ∧ f.ext = e ∧
          ∀ g ∈ pre, ¬(g.axis = a ∧ g.ext = e)) ∧
    (d.getBoundary (some a) e = .error .valueError ↔ ∀ f ∈ d.boundary, ¬(f.axis = a ∧ f.ext = e)) := by
  simp only [DomCore.getBoundary, normAxis, bind, Except.bind, findFace]
  constructor
  · intro f hf
    split at hf
    · rename_i g hg
      simp only [Except.ok.injEq] at hf; subst hf
      obtain ⟨hp, pre, post, hsplit, hpre⟩ := List.find?_eq_some_iff_append.mp hg
      simp only [Bool.and_eq_true, beq_iff_eq] at hp
      refine ⟨pre, post, hsplit, hp.2, hp.1, ?_⟩
      intro g hg' hc
      have := hpre g hg'
      simp [hc.1, hc.2] at this
    · cases hf
  · constructor
    · intro h
      split at h
      · cases h
      · rename_i hnone
        rw [List.find?_eq_none] at hnone
        intro f hf hc
        exact hnone f hf (by simp [hc.1, hc.2])
    · intro h
      have : d.boundary.find? (fun f => f.ext == e && f.axis == a) = none := by
        rw [List.find?_eq_none]
        intro f hf hc
        simp only [Bool.and_eq_true, beq_iff_eq] at hc
        exact h f hf ⟨hc.2, hc.1⟩
      rw [this]

/-- on a joined domain the face found is a face of a patch that belongs to no interface -/
theorem join_getBoundary_external {ps : List Patch} {cs : List Conn} {name : String} {d : Dom}
    (hj : join ps cs name = .ok d) (hlen : 2 ≤ ps.length) (hn : NamesOk ps) (hok : ConnsOk ps cs)
    (a : Nat) (e : Int) (f : Face) (h : d.toDomCore.getBoundary (some a) e = .ok f) :
    f ∈ allFaces ps ∧ f.axis = a ∧ f.ext = e ∧ f ∉ ifaceSides d.ifaces := by
  obtain ⟨pre, post, hs, h1, h2, _⟩ := (domain_getBoundary_spec d.toDomCore a e).1 f h
  have hmem : f ∈ d.boundary := by rw [hs]; simp
  obtain ⟨_, hperm, hnd⟩ := join_partition hj hlen hn hok
  refine ⟨hperm.subset (List.mem_append_left _ hmem), h1, h2, ?_⟩
  intro hside
  have := hperm.nodup_iff.mpr hnd
  exact (List.nodup_append.mp this).2.2 f hmem f hside rfl

/-- **The layouts of the property satisfy the hypotheses.**  For every grid (or chain) of n-cubes
    in dimension 1..3 — any number of patches along each axis, any axes closed periodically
    (with at least two patches along a closed axis), plain or mapped patches with pairwise
    different `|`-free names, any orientation declared (or omitted) per connection that is valid
    for the dimension — every duplicate-free selection of the geometric connections (the `+a`
    face of a patch with the `-a` face of its neighbour), in any order, satisfies `ConnsOk`, and
    `Domain.join` succeeds on it. -/
theorem grid_connections_ok (g : Grid) (hg : GridOk g) (hlen : 2 ≤ g.patches.length)
    (cs : List Conn) (hsel : GridSel g cs) (name : String) :
    NamesOk g.patches ∧ ConnsOk g.patches cs ∧ ∃ d, join g.patches cs name = .ok d := by
  have hne : g.patches ≠ [] := by intro h; rw [h] at hlen; simp at hlen
  exact ⟨hg.names, connsOk_grid hg hsel hne, grid_join_ok hg hlen hsel name⟩

/-- … and, when the logical names are hygienic too, the hypotheses of `logical_mirror`. -/
theorem grid_connections_ok_logical (g : Grid) (hg : GridOk g) (hl : GridOkL g) (hlen : 2 ≤ g.patches.length)
    (cs : List Conn) (hsel : GridSel g cs) : LNamesOk g.patches ∧ LConnsOk g.patches cs := by
  have hne : g.patches ≠ [] := by intro h; rw [h] at hlen; simp at hlen
  exact ⟨hl.lnames, connsOkL_grid hg hl hsel hne⟩

/-- the partition theorem without side conditions, for every grid and every selection of its
    geometric connections -/
theorem grid_partition (g : Grid) (hg : GridOk g) (hlen : 2 ≤ g.patches.length)
    (cs : List Conn) (hsel : GridSel g cs) (name : String) :
    ∃ d, join g.patches cs name = .ok d ∧ d.interiors.Perm g.patches ∧
      (d.boundary ++ ifaceSides d.ifaces).Perm (allFaces g.patches) ∧ (allFaces g.patches).Nodup ∧
      d.ifaces.length = cs.length := by
  obtain ⟨hn, hok, d, hd⟩ := grid_connections_ok g hg hlen cs hsel name
  obtain ⟨h1, h2, h3⟩ := join_partition hd hlen hn hok
  refine ⟨d, hd, h1, h2, h3, ?_⟩
  exact (join_declared hd hlen hok).1.length_eq.symm

/-- summary of the structure theorems in the form used by `subdomain_spec` -/
theorem join_wellformed {ps : List Patch} {cs : List Conn} {name : String} {d : Dom}
    (hj : join ps cs name = .ok d) (hlen : 2 ≤ ps.length) (hn : NamesOk ps) (hok : ConnsOk ps cs)
    (hself : NoSelf ps cs) : WF ps d := by
  obtain ⟨_, hdims, _, _, _, hf⟩ := join_fields hj hlen
  obtain ⟨h1, h2, _⟩ := join_partition hj hlen hn hok
  have hifs : d.ifaces = (resolved ps cs).map RConn.toIface := by rw [hf, buildIfaces_eq _ hok.2.1]
  refine ⟨hn, hlen, h1, h2, ?_, ?_, ?_, hdims⟩
  · rw [hifs, List.map_map]; exact hok.2.1
  · intro i hi; rw [hifs] at hi
    obtain ⟨c, _, rfl⟩ := List.mem_map.mp hi; rfl
  · intro i hi; rw [hifs] at hi
    obtain ⟨c, hc, rfl⟩ := List.mem_map.mp hi
    exact hself c hc

/-- **Sub-domain extraction.**  Let `d` be a joined domain (hypotheses of `join_partition`, no patch
    joined to itself) and `S` a non-empty duplicate-free tuple of patch names.
    * `S` = all patches, or the domain's own name is in `S`: the domain itself is returned.
    * otherwise `get_subdomain(S)` returns a domain called `S₀|S₁|…` whose interiors are exactly
      the selected patches, whose connectivity is exactly the set of interfaces of `d` with both
      sides in the selection, and whose boundary is — without repetition — exactly the set of
      faces of the selected patches that are not a side of one of these interfaces: i.e. it is
      the layout made of the selected patches with the connections among them, every other
      face (external in `d`, or joined to a patch outside the selection) being boundary. -/
theorem subdomain_spec {ps : List Patch} {cs : List Conn} {name : String} {d : Dom}
    (hj : join ps cs name = .ok d) (hlen : 2 ≤ ps.length) (hn : NamesOk ps) (hok : ConnsOk ps cs)
    (hself : NoSelf ps cs) (S : List String) (hS : S.Nodup) (hne : S ≠ [])
    (hsub : ∀ s ∈ S, s ∈ ps.map Patch.name) :
    (S.length = ps.length ∨ name ∈ S → d.getSubdomain (.tup S) = .ok .self) ∧
    (S.length ≠ ps.length → name ∉ S →
      ∃ sd, d.getSubdomain (.tup S) = .ok (.dom sd) ∧ sd.name = nameOf S ∧
        sd.interiors.Perm (ps.filter (fun p => S.contains p.name)) ∧
        sd.ifaces.Perm (d.ifaces.filter (fun i => S.contains i.mname && S.contains i.pname)) ∧
        sd.boundary.Nodup ∧
        ∀ f, f ∈ sd.boundary ↔
          f ∈ allFaces (ps.filter (fun p => S.contains p.name)) ∧ f ∉ ifaceSides sd.ifaces) := by
  have w := join_wellformed hj hlen hn hok hself
  obtain ⟨_, _, hname, _, _, _⟩ := join_fields hj hlen
  have hlenI : d.interiors.length = ps.length := w.ints.length_eq
  have hSN : ∀ s ∈ S, s ∈ d.interiors.map Patch.name := fun s hs =>
    (w.ints.map Patch.name).mem_iff.mpr (hsub s hs)
  have hnotsingle : ∀ p, d.interiors ≠ [p] := by
    intro p hp; rw [hp] at hlenI; simp at hlenI; omega
  have hunfold := getSubdomain_tup d S hS hne hSN hnotsingle
  constructor
  · intro h
    rw [hunfold, hname]
    have : (S.length == (d.interiors.map Patch.name).length || S.contains name) = true := by
      rcases h with h | h
      · simp [h, hlenI]
      · simp [h]
    rw [if_pos this]
  · intro h1 h2
    rw [hunfold, hname]
    have : (S.length == (d.interiors.map Patch.name).length || S.contains name) = false := by
      simp [h1, h2, hlenI]
    rw [if_neg (by rw [this]; simp)]
    -- run the outer loop
    have hinv0 : Inv ps d S [] ⟨idict0 d, [], []⟩ none := by
      refine ⟨?_, ?_, rfl⟩
      · simp
      · intro i; simp
    obtain ⟨prev', st', hrun, hfin⟩ := subOuter_spec w S hS hSN S [] _ none (by simp) hinv0
    simp only [hrun, Except.bind]
    cases prev' with
    | none => exact absurd hfin.prev hne
    | some pd =>
      obtain ⟨_, p2, p3, p4, p5, p6, p7⟩ := hfin.prev
      simp only
      have hifs : ∀ i, i ∈ st'.ifs ↔ i ∈ d.ifaces ∧ i.mname ∈ S ∧ i.pname ∈ S := by
        intro i; rw [hfin.ifs i]
        constructor
        · rintro ⟨a, b, c, _⟩; exact ⟨a, b, c⟩
        · rintro ⟨a, b, c⟩; exact ⟨a, b, c, Or.inl b⟩
      obtain ⟨f1, f2⟩ := foldl_connSet_spec st'.ifs pd.ifaces (by
        rw [p2]; simp only [List.nil_append]
        intro a ha b hb h
        exact w.iface_inj ((hifs a).mp ha).1 ((hifs b).mp hb).1 h) (by rw [p2]; simp)
      have hmemI : ∀ i, i ∈ List.foldl connSet pd.ifaces st'.ifs ↔ i ∈ d.ifaces ∧ i.mname ∈ S ∧ i.pname ∈ S := by
        intro i; rw [f2 i, p2, hifs i]; simp
      refine ⟨_, rfl, p5, ?_, ?_, p7, ?_⟩
      · -- interiors
        show pd.interiors.Perm _
        rw [List.perm_ext_iff_of_nodup p6 (List.Nodup.filter _ hn.nodup)]
        intro p; rw [p3 p, List.mem_filter]; simp
      · show (List.foldl connSet pd.ifaces st'.ifs).Perm _
        rw [List.perm_ext_iff_of_nodup (List.Nodup.of_map _ f1)
          (List.Nodup.filter _ (List.Nodup.of_map _ w.inames))]
        intro i; rw [hmemI i, List.mem_filter]; simp
      · intro f
        show f ∈ pd.boundary ↔ _ ∧ f ∉ ifaceSides (List.foldl connSet pd.ifaces st'.ifs)
        rw [p4 f, mem_allFaces, mem_ifaceSides]
        simp only [List.mem_filter, List.contains_eq_mem, decide_eq_true_eq]
        constructor
        · rintro ⟨hfa, hfn, hcase⟩
          have hfa' := (mem_allFaces ps f).mp hfa
          refine ⟨⟨⟨hfa'.1, hfn⟩, hfa'.2⟩, ?_⟩
          rintro ⟨j, hj', hfj⟩
          obtain ⟨hjd, hjm, hjp⟩ := (hmemI j).mp hj'
          rcases hcase with hb | ⟨i, hi, ⟨rfl, hp⟩ | ⟨rfl, hm⟩⟩
          · exact w.bnd_not_side hb ((mem_ifaceSides _ _).mpr ⟨j, hjd, hfj⟩)
          · rcases hfj with e | e
            · have := (w.side_unique hi hjd).1 e; subst this; exact hp hjp
            · exact (w.side_unique hi hjd).2.2 e
          · rcases hfj with e | e
            · exact (w.side_unique hjd hi).2.2 e.symm
            · have := (w.side_unique hi hjd).2.1 e; subst this; exact hm hjm
        · rintro ⟨⟨⟨hfp, hfn⟩, hfr⟩, hnot⟩
          have hfa : f ∈ allFaces ps := (mem_allFaces ps f).mpr ⟨hfp, hfr⟩
          refine ⟨hfa, hfn, ?_⟩
          rcases List.mem_append.mp (w.part.mem_iff.mpr hfa) with hb | hs
          · exact Or.inl hb
          · right
            obtain ⟨i, hi, hfi⟩ := (mem_ifaceSides _ _).mp hs
            refine ⟨i, hi, ?_⟩
            rcases hfi with rfl | rfl
            · left; refine ⟨rfl, fun hp => hnot ⟨i, (hmemI i).mpr ⟨hi, hfn, hp⟩, Or.inl rfl⟩⟩
            · right; refine ⟨rfl, fun hm => hnot ⟨i, (hmemI i).mpr ⟨hi, hm, hfn⟩, Or.inr rfl⟩⟩

/-- a single patch is returned "as it was before being joined": all its faces are boundary again -/
theorem subdomain_single {ps : List Patch} {cs : List Conn} {name : String} {d : Dom}
    (hj : join ps cs name = .ok d) (hlen : 2 ≤ ps.length) (hn : NamesOk ps) (hok : ConnsOk ps cs)
    (hself : NoSelf ps cs) (p : Patch) (hp : p ∈ ps) (hne : name ≠ p.name) :
    ∃ sd, d.getSubdomain (.str p.name) = .ok (.dom sd) ∧ d.getSubdomain (.tup [p.name]) = .ok (.dom sd) ∧
      sd.name = p.name ∧ sd.interiors = [p] ∧ sd.ifaces = [] ∧ sd.boundary.Perm p.faces := by
  have w := join_wellformed hj hlen hn hok hself
  have hmem : p.name ∈ d.interiors.map Patch.name := List.mem_map_of_mem (w.ints.mem_iff.mpr hp)
  have hstr : d.getSubdomain (.str p.name) = d.getSubdomain (.tup [p.name]) := by
    have hc : (d.interiors.map Patch.name).contains p.name = true := by simpa using hmem
    have hpI : p ∈ d.interiors := w.ints.mem_iff.mpr hp
    have hex : ∃ a, a ∈ d.interiors ∧ a.name = p.name := ⟨p, hpI, rfl⟩
    simp only [Dom.getSubdomain, dedupBy, hc, if_true]
    simp only [List.filter_nil, List.length_cons, List.length_nil, bne_self_eq_false, Bool.false_eq_true, if_false,
      List.all_cons, List.all_nil, Bool.and_true]
    have hcond : (!((List.map Patch.name d.interiors).contains p.name || p.name == d.name)) = false := by
      rw [hc]; rfl
    simp only [hcond, Bool.false_eq_true, if_false]
  obtain ⟨_, h2⟩ := subdomain_spec hj hlen hn hok hself [p.name] (by simp) (by simp)
    (by intro s hs; simp only [List.mem_singleton] at hs; subst hs; exact List.mem_map_of_mem hp)
  obtain ⟨sd, e1, e2, e3, e4, e5, e6⟩ := h2 (by simp; omega) (by simpa using hne)
  have hfil : ps.filter (fun q => [p.name].contains q.name) = [p] := by
    have hnd : (ps.filter (fun q => [p.name].contains q.name)).Nodup := List.Nodup.filter _ hn.nodup
    have hperm : (ps.filter (fun q => [p.name].contains q.name)).Perm [p] := by
      rw [List.perm_ext_iff_of_nodup hnd (by simp)]
      intro q
      simp only [List.mem_filter, List.contains_eq_mem, List.mem_singleton, decide_eq_true_eq]
      constructor
      · rintro ⟨hq, e⟩; exact hn.inj hq hp e
      · rintro rfl; exact ⟨hp, rfl⟩
    exact List.perm_singleton.mp hperm
  have hifs : sd.ifaces = [] := by
    have : d.ifaces.filter (fun i => [p.name].contains i.mname && [p.name].contains i.pname) = [] := by
      rw [List.filter_eq_nil_iff]
      intro i hi
      simp only [List.contains_eq_mem, List.mem_singleton, Bool.and_eq_true, decide_eq_true_eq, not_and]
      intro a b; exact w.noself i hi (a.trans b.symm)
    rw [this] at e4
    exact List.perm_nil.mp e4
  refine ⟨sd, hstr.trans e1, e1, by simpa [nameOf] using e2, ?_, hifs, ?_⟩
  · rw [hfil] at e3; exact List.perm_singleton.mp e3
  · rw [List.perm_ext_iff_of_nodup e5 (faces_nodup p)]
    intro f
    rw [e6 f, hfil, hifs]
    simp [allFaces, ifaceSides]

/-- the 2D form of `join_wellformed` -/
theorem join_wellformed2 {ps : List Patch} {cs : List Conn} {name : String} {d : Dom}
    (hj : join ps cs name = .ok d) (hlen : 2 ≤ ps.length) (hn : NamesOk ps) (hok : ConnsOk ps cs)
    (hself : NoSelf ps cs) (h2 : ∀ p ∈ ps, p.dim = 2) (ho : OrntPM ps cs) : WF2 ps d := by
  have w := join_wellformed hj hlen hn hok hself
  obtain ⟨hr, _, _, _, _, hf⟩ := join_fields hj hlen
  obtain ⟨hspec, hres⟩ := resolved_spec hr
  have hifs : d.ifaces = (resolved ps cs).map RConn.toIface := by rw [hf, buildIfaces_eq _ hok.2.1]
  refine ⟨w, h2, ?_, ?_⟩
  · intro i hi; rw [hifs] at hi
    obtain ⟨c, hc, rfl⟩ := List.mem_map.mp hi
    rw [hspec] at hc
    obtain ⟨c0, hc0, rfl⟩ := List.mem_map.mp hc
    exact (resolve_faces (hres c0 hc0)).2.2.1
  · intro i hi; rw [hifs] at hi
    obtain ⟨c, hc, rfl⟩ := List.mem_map.mp hi
    exact ho c hc

/-- **Corner groups, layouts without doubly joined corners.**  In a 2D layout in which no patch
    corner has both of its faces joined (chains, rings, several chains side by side, …), with
    orientations ±1, `get_shared_corners` returns exactly one group per interface `i` and end
    `e = ±1` of it, and that group consists of exactly two patch corners: the corner of the minus
    patch between `i.minus` and its face `(other axis, e)`, and the corner of the plus patch
    between `i.plus` and its face `(other axis, e·ornt)` — for `ornt = 1` the two patch corners
    that sit on the same lattice point. -/
theorem corners_simple {ps : List Patch} {cs : List Conn} {name : String} {d : Dom}
    (hj : join ps cs name = .ok d) (hlen : 2 ≤ ps.length) (hn : NamesOk ps) (hok : ConnsOk ps cs)
    (hself : NoSelf ps cs) (h2 : ∀ p ∈ ps, p.dim = 2) (ho : OrntPM ps cs) (hndc : NoDoubleCorner d)
    (hne : d.ifaces ≠ []) :
    ∃ gs, d.toDomCore.corners = .ok gs ∧
      (∀ g ∈ gs, ∃ i ∈ d.ifaces, ∃ e, (e = 1 ∨ e = -1) ∧ IsPair g (cornerM i e) (cornerP i e)) ∧
      (∀ i ∈ d.ifaces, ∀ e, (e = 1 ∨ e = -1) → ∃ g ∈ gs, IsPair g (cornerM i e) (cornerP i e)) :=
  (join_wellformed2 hj hlen hn hok hself h2 ho).corners_simple_core hndc hne

/-- **Corner groups of chains.**  For every chain or ring of squares along axis 0 (any length ≥ 2,
    any hygienic names, plain or mapped, orientations ±1 or omitted) and every non-empty
    duplicate-free selection of its connections in any order: `join` succeeds, and
    `get_shared_corners` returns exactly one group per selected connection `x — y = next x` and end
    `e = ±1`: the corner (+1, e) of patch `x` together with the corner (−1, e·ornt) of patch `y`;
    for `ornt = 1` these are the two patch corners on the lattice point shared by `x` and `y`. -/
theorem corners_chain (g : Grid) (hc : ChainOk g) (hlen : 2 ≤ g.patches.length)
    (cs : List Conn) (hsel : GridSel g cs) (hne : cs ≠ []) (name : String) :
    ∃ d gs, join g.patches cs name = .ok d ∧ d.toDomCore.corners = .ok gs ∧
      (∀ grp ∈ gs, ∃ x ∈ g.idxs, ∃ y e, g.mkConn x 0 y ∈ cs ∧ g.next x 0 = some y ∧ (e = 1 ∨ e = -1) ∧
        IsPair grp (gcorner (g.patch x) 1 e) (gcorner (g.patch y) (-1) (e * orntInt (g.orntOf x 0)))) ∧
      (∀ x ∈ g.idxs, ∀ y e, g.mkConn x 0 y ∈ cs → g.next x 0 = some y → (e = 1 ∨ e = -1) →
        ∃ grp ∈ gs, IsPair grp (gcorner (g.patch x) 1 e) (gcorner (g.patch y) (-1) (e * orntInt (g.orntOf x 0)))) := by
  have hg := hc.toGridOk
  have hne' : g.patches ≠ [] := by intro h; rw [h] at hlen; simp at hlen
  obtain ⟨hn, hok, d, hd⟩ := grid_connections_ok g hg hlen cs hsel name
  obtain ⟨_, hspec, hcm⟩ := resolved_grid hg hsel.2 hne'
  obtain ⟨_, _, _, _, _, hf⟩ := join_fields hd hlen
  have hifs : d.ifaces = (resolved g.patches cs).map RConn.toIface := by rw [hf, buildIfaces_eq _ hok.2.1]
  -- every resolved connection is `mkR x 0 y`
  have hres : ∀ r ∈ resolved g.patches cs, ∃ x ∈ g.idxs, ∃ y, g.next x 0 = some y ∧ y ∈ g.idxs ∧
      g.mkConn x 0 y ∈ cs ∧ r = g.mkR x 0 y := by
    intro r hr
    rw [hspec] at hr
    obtain ⟨c, hcs, rfl⟩ := List.mem_map.mp hr
    obtain ⟨x, hx, a, ha, y, hy, hym, rfl, e⟩ := hcm c hcs
    have := hc.next_axis ha hx hy
    subst this
    exact ⟨x, hx, y, hy, hym, hcs, e⟩
  have hself : NoSelf g.patches cs := by
    intro r hr
    obtain ⟨x, hx, y, hy, hym, _, rfl⟩ := hres r hr
    intro e
    have := hg.patch_inj hx hym (hg.names.inj (List.mem_map_of_mem hx) (List.mem_map_of_mem hym) e)
    exact next_ne g (by have := hg.dle; omega) hx hy this
  have h2 : ∀ p ∈ g.patches, p.dim = 2 := by
    intro p hp
    obtain ⟨x, hx, rfl⟩ := List.mem_map.mp hp
    rw [hg.dim x hx, hc.d2]
  have ho : OrntPM g.patches cs := by
    intro r hr
    obtain ⟨x, _, y, _, _, _, rfl⟩ := hres r hr
    exact hc.orntOf_pm x 0
  have hndc : NoDoubleCorner d := by
    have hax : ∀ f ∈ ifaceSides d.ifaces, f.axis = 0 := by
      intro f hf
      obtain ⟨i, hi, hfi⟩ := (mem_ifaceSides _ _).mp hf
      rw [hifs] at hi
      obtain ⟨r, hr, rfl⟩ := List.mem_map.mp hi
      obtain ⟨x, _, y, _, _, _, rfl⟩ := hres r hr
      rcases hfi with rfl | rfl <;> rfl
    intro f hf g' hg' _
    rw [hax f hf, hax g' hg']
  have hifne : d.ifaces ≠ [] := by
    rw [hifs, hspec]
    cases cs with
    | nil => exact absurd rfl hne
    | cons c cs' => simp
  obtain ⟨gs, hcorn, hsound, hcomplete⟩ := corners_simple hd hlen hn hok hself h2 ho hndc hifne
  refine ⟨d, gs, hd, hcorn, ?_, ?_⟩
  · intro grp hgrp
    obtain ⟨i, hi, e, he, hp⟩ := hsound grp hgrp
    rw [hifs] at hi
    obtain ⟨r, hr, rfl⟩ := List.mem_map.mp hi
    obtain ⟨x, hx, y, hy, _, hcs, rfl⟩ := hres r hr
    exact ⟨x, hx, y, e, hcs, hy, he, hp⟩
  · intro x hx y e hcs hy he
    have hym := (next_spec g x y 0 (by omega) hx hy).1
    obtain ⟨x', hx', a', ha', y', hy', hym', hceq, hrd⟩ := hcm _ hcs
    -- the connection determines (x, 0, y)
    have hmem : (g.mkR x' a' y').toIface ∈ d.ifaces := by
      rw [hifs, hspec, ← hrd]
      exact List.mem_map_of_mem (List.mem_map_of_mem hcs)
    have hsame : g.mkR x' a' y' = g.mkR x 0 y := by
      simp only [Grid.mkConn, Conn.mk.injEq, Side.mk.injEq, Ref.obj.injEq, Option.some.injEq] at hceq
      obtain ⟨⟨e1, e2, _⟩, ⟨e3, _, _⟩, _⟩ := hceq
      have ex := hg.patch_inj hx hx' e1
      have ey := hg.patch_inj hym hym' e3
      subst ex; subst ey; subst e2; rfl
    rw [hsame] at hmem
    exact hcomplete _ hmem e he

/-
  GOAL `corners_grid` (not proved; full statement):

    for every 2D grid `g` (GridOk g, g.d = 2, orientations ±1) and every selection `cs` of its
    connections (GridSel g cs, cs ≠ []): `join` succeeds, `corners` returns `gs`, and `gs` is
    exactly the set of classes of the equivalence on patch corners generated by
        x —(axis a)— y selected  ⇒  corner (a:+1, b:e) of x  ~  corner (a:−1, b:e·ornt) of y     (b = 1 − a)
    restricted to the corners that touch a joined face; for the full grid with orientation +1
    each class is the set of patch corners that sit on one lattice point.

  Proved: `corners_simple` (all layouts in which every class has two members, any orientations)
  and its instance `corners_chain` (all chains and rings).  The classes with three or more members
  (interior vertices: the closed walk `walkC`; T-shaped vertices: forward + backward walk) are
  covered by the correspondence run and by the geometric oracle only; the `example` on the
  2 x 2 grid below is a test, not a theorem.
-/

/-! ### non-vacuity: concrete layouts meet the hypotheses -/

section Examples


example : NamesOk [exA, exB, exC] ∧ ConnsOk [exA, exB, exC] exConns ∧ LNamesOk [exA, exB, exC] ∧
    LConnsOk [exA, exB, exC] exConns := by decide
example : ∃ d, join [exA, exB, exC] exConns "Omega" = .ok d ∧ d.ifaces.length = 2 ∧ d.boundary.length = 8 ∧
    d.logical.isSome = true := by
  refine ⟨_, rfl, ?_⟩; decide
example : exA.getBoundary (some 1) (-1) = .ok ⟨exA, 1, -1⟩ ∧ (⟨exA, 1, -1⟩ : Face).gamma = "\\Gamma_3" := by decide


example : GridOk exGrid ∧ GridOkL exGrid ∧ 2 ≤ exGrid.patches.length ∧ exGrid.conns.length = 6 ∧
    GridSel exGrid exGrid.conns.reverse :=
  ⟨⟨by decide, by decide, by decide, by decide, by decide, fun x a => by
      simp only [exGrid]; split <;> [exact ⟨_, rfl⟩; (split <;> exact ⟨_, rfl⟩)]⟩,
   ⟨by decide, by decide⟩, by decide, by decide, by decide, by decide⟩

example : NoSelf [exA, exB, exC] exConns ∧ OrntPM [exA, exB, exC] exConns := by decide
example : NamesOk exChain.patches ∧ ConnsOk exChain.patches exChain.conns ∧ NoSelf exChain.patches exChain.conns ∧
    OrntPM exChain.patches exChain.conns := by decide
example : ∃ d gs, join exChain.patches exChain.conns "Ring" = .ok d ∧ NoDoubleCorner d ∧ d.ifaces ≠ [] ∧
    d.toDomCore.corners = .ok gs ∧ gs.length = 6 := by
  refine ⟨_, _, rfl, ?_, ?_, rfl, ?_⟩ <;> decide
example : ChainOk exChain ∧ 2 ≤ exChain.patches.length ∧ GridSel exChain exChain.conns ∧ exChain.conns ≠ [] :=
  ⟨⟨⟨by decide, by decide, by decide, by decide, by decide, fun x a => by
      simp only [exChain]; split <;> exact ⟨_, rfl⟩⟩, rfl, rfl, fun x a => by
      simp only [exChain]; split <;> simp⟩, by decide, ⟨by decide, by decide⟩, by decide⟩
example : ∃ d X, join [exA.strip, exB.strip] [⟨⟨.idx 0, some 0, 1⟩, ⟨.idx 1, some 0, -1⟩, some [-1]⟩] "AB" = .ok d ∧
    applyMapping "F" d = .ok X ∧ X.ifaces.map Iface.ornt = [.o2 (-1)] := ⟨_, _, rfl, rfl, rfl⟩
example : ∃ sd, (do let d ← join [exA, exB, exC] exConns "Omega"; d.getSubdomain (.tup ["G(B)", "F(A)"])) = .ok (.dom sd) ∧
    sd.name = "G(B)|F(A)" ∧ sd.ifaces.length = 1 ∧ sd.boundary.length = 6 := by
  refine ⟨_, rfl, ?_⟩; decide

/-- test (not a theorem): the 2 x 2 grid has one group of four corners (the centre) and four groups of two -/
example : ∃ d gs, join exGrid22.patches exGrid22.conns "G" = .ok d ∧ d.toDomCore.corners = .ok gs ∧
    gs.length = 5 ∧ (gs.map List.length).sum = 12 ∧ (gs.map List.length).contains 4 = true := by
  refine ⟨_, _, rfl, rfl, ?_, ?_, ?_⟩ <;> decide

end Examples

end Sympde.Topo
