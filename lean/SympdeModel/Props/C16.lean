/-
  C16 — analytical mappings are coherent, symbolically and numerically.

  The symbolic half is GENERATED: `Gen/Map/<Mapping>_<dim>.lean` (one module per catalogue mapping x
  admissible dimension, regenerated from the current source on every run) contains, for the stored
  quantities found in `Gen/Mappings.lean`,

      jac_is_derivative_<M>   (J)ᵢⱼ = D_{xⱼ} (Xᵢ)              hypotheses: `FnTable S` (sin′ = cos, cos′ = −sin, …)
      inv_is_inverse_<M>      Σₖ Jᵢₖ (J⁻¹)ₖⱼ = δᵢⱼ             hypotheses: `NonDeg S M_Jinv` (every denominator of
                                                                the stored inverse is invertible)
      metric_is_gram_<M>      Gᵢⱼ = Σₖ Jₖᵢ Jₖⱼ                  no hypothesis
      metric_det_is_det_<M>   detG = det G                      no hypothesis

  in EVERY differential ring `S` (commutative ℚ-algebra with commuting derivations): parameters,
  coordinates and sin/cos/… of coordinates are arbitrary ring elements, so the statements hold for all
  parameter values and all points; no trigonometric identity is used.  CzarnyMapping (square roots)
  additionally assumes `NonDeg` of X, J, G and the square-root facts `Czarny_2_Rad`; its determinant and
  inverse are stated in comments only (see `Gen.Map.notProved`).

  This file: the general facts the generated proofs rest on, and the broadcasting model of
  `lambdify_sympde` (Model/Broadcast.lean).
-/
import SympdeModel.Gen.MappingsThms
import SympdeModel.Lemmas.Broadcast
namespace Sympde
open E PD Frac

variable {K : Type} [CommRing K] [Algebra ℚ K]

/-- **Fractions.**  Every expression `e` is the fraction `n / d` computed by `Frac.asFrac`, with `d` invertible
    (inverse `di`), as soon as the bases of the negative integer powers of `e` are invertible (`NonDeg`):
    the generated obligations are polynomial identities between such numerators. -/
theorem asFraction_sound (S : DRing K) (e : E) (h : NonDeg S e) (i j : Nat) :
    den S e i j * den S (asFrac e).d i j = den S (asFrac e).n i j ∧
    den S (asFrac e).d i j * den S (asFrac e).di i j = 1 := asFrac_sound S e h i j

/-- an expression without negative or fractional powers needs no side condition -/
theorem polynomial_nonDeg (S : DRing K) (e : E) (h : polyLike e = true) : NonDeg S e := polyLike_nonDeg S e h

/-- two expressions denote the same element when the numerator of their difference denotes zero -/
theorem equal_of_numerator_zero (S : DRing K) (a b : E) (h : NonDeg S (.add [a, .mul [.num (-1) 1, b]])) (i j : Nat)
    (hn : den S (asFrac (.add [a, .mul [.num (-1) 1, b]])).n i j = 0) : den S a i j = den S b i j :=
  eq_of_frac_zero S a b h i j hn

/-- everything the current catalogue contains was translated (no constructor failure, no expression outside
    the fragment): 15 mapping x dimension blocks -/
theorem catalogue_covered : Gen.Map.notTranslated = [] ∧ Gen.Map.catalogue.length = 15 := by decide

namespace Bcast

/-- **Output shape.**  Whenever the shapes of the arguments are broadcastable to `b`, a lambdified scalar
    expression returns shape `b` and a lambdified array expression of component shape `comp` returns
    `comp ++ b` — whatever subset of the variables each component really depends on (constants included). -/
theorem broadcast_shape (comp : Shape) (inputs : List Shape) (used : List (List Nat)) (b : Shape)
    (h : broadcastAll inputs = some b) : lambdifyShape comp inputs used = .ok (comp ++ b) := by
  unfold lambdifyShape
  rw [h]
  simp only
  split
  · rename_i hc
    have hc' : comp = [] := by simpa using hc
    subst hc'
    obtain ⟨t, ht, hf⟩ := used_fits inputs b h (used.headD [])
    rw [ht]
    simp only [List.nil_append]
    split
    · rename_i hb
      have hb0 : b = [] := by simpa using hb
      subst hb0
      have : t = [] := by
        have := fitsR_nil_right t.reverse (by simpa [fits] using hf)
        simpa using this
      rw [this]
    · split
      · rename_i e
        have : b = t := by simpa using e
        rw [this]
      · simp
  · have : (used.all fun u =>
        match broadcastAll (pick inputs u) with
        | some t => fits t b
        | none => false) = true := by
      rw [List.all_eq_true]
      intro u _
      obtain ⟨t, ht, hf⟩ := used_fits inputs b h u
      rw [ht]; exact hf
    split
    · rfl
    · rename_i hn; exact absurd this hn

/-- **Refusal.**  Arguments whose shapes are not broadcastable are refused (numpy's ValueError). -/
theorem broadcast_refused (comp : Shape) (inputs : List Shape) (used : List (List Nat))
    (h : broadcastAll inputs = none) : lambdifyShape comp inputs used = .error .valueError := by
  unfold lambdifyShape; rw [h]

/-- two lengths are incompatible exactly when they differ and neither is 1 -/
theorem dim2_none_iff (x y : Nat) : dim2 x y = none ↔ x ≠ y ∧ x ≠ 1 ∧ y ≠ 1 := by
  unfold dim2; split_ifs <;> simp_all

/-- broadcasting is commutative, idempotent, associative, and the scalar shape is neutral -/
theorem broadcast_comm (a b : Shape) : broadcast2 a b = broadcast2 b a := by
  unfold broadcast2; rw [bcR_comm]

theorem broadcast_idem (a : Shape) : broadcast2 a a = some a := by
  unfold broadcast2; rw [bcR_self]; simp

theorem broadcast_scalar (a : Shape) : broadcast2 [] a = some a ∧ broadcast2 a [] = some a := by
  unfold broadcast2; simp [bcR, bcR_nil_right]

theorem broadcast_assoc (a b c : Shape) :
    (broadcast2 a b).bind (fun d => broadcast2 d c) = (broadcast2 b c).bind (fun d => broadcast2 a d) := by
  have h := bcR_assoc a.reverse b.reverse c.reverse
  unfold broadcast2
  cases h1 : bcR a.reverse b.reverse <;> cases h2 : bcR b.reverse c.reverse <;>
    simp only [h1, h2, Option.map_none, Option.map_some, Option.bind_none, Option.bind_some, List.reverse_reverse] at h ⊢
  · rw [← h]; simp
  · rw [h]; simp
  · rw [h]

/-- every argument — and the result of any subset of the arguments — fits into the broadcast shape (so the
    assignment `result[...] = temp` of `lambdify_sympde` never fails and never changes the shape) -/
theorem broadcast_fits (inputs : List Shape) (b : Shape) (h : broadcastAll inputs = some b) :
    (∀ s ∈ inputs, fits s b = true) ∧
    ∀ used : List Nat, ∃ t, broadcastAll (pick inputs used) = some t ∧ fits t b = true :=
  ⟨broadcastAll_fits inputs b h, used_fits inputs b h⟩

/-- the order of the arguments does not matter for two arguments … -/
theorem broadcastAll_pair (a b : Shape) : broadcastAll [a, b] = broadcast2 a b := by
  simp only [broadcastAll, Option.bind_some]
  rw [(broadcast_scalar b).2]; rfl

end Bcast

/-! ### non-vacuity / tests -/

section Examples
open Bcast Gen.Map

example : broadcastAll [[3, 1], [1, 4], []] = some [3, 4] := by decide
example : lambdifyShape [2, 2] [[3, 1], [1, 4]] [[0], [0, 1], [], [1]] = .ok [2, 2, 3, 4] := by decide
example : lambdifyShape [] [[3], [4]] [[0, 1]] = .error .valueError := by decide
example : lambdifyShape [] [[], []] [[]] = .ok [] := by decide
example : polyLike Polar_2_J = true ∧ polyLike Polar_2_G = true ∧ polyLike Torus_3_detG = true := by decide
example : polyLike Polar_2_Jinv = false ∧ polyLike Czarny_2_X = false := by decide
example : Elem Polar_2_X00 = true ∧ Elem TwistedTarget_3_X20 = true := by decide
example : notProved.length = 2 := by decide

end Examples
end Sympde
