/-
  C05 — coordinate partial-derivative operators are exact derivations.
  Property theorems only (helpers in Lemmas/PDeriv.lean).

  Semantics: an arbitrary `DRing K` — a commutative ℚ-algebra with commuting derivations
  `D c` (one per operator dx dy dz dx1 dx2 dx3), arbitrary interpretations of the function
  symbols, constants with zero derivative, coordinate symbols with `D c x_c' = δ`, elementary
  functions with the chain rule and real powers with the classical derivative.  Smooth
  functions with their partial derivatives are such a structure, so each theorem holds for
  every choice of smooth functions at every point.
-/
import SympdeModel.Lemmas.PDeriv
namespace Sympde
open E PD

variable {K : Type} [CommRing K] [Algebra ℚ K]

theorem dEvalListE_eq (d : Nat) (c : Coord) (as : List E) :
    dEvalListE d c as = as.map (dEval d c) := by
  induction as with
  | nil => simp [dEvalListE]
  | cons a as ih => simp [dEvalListE, ih]

/-- all-or-nothing list evaluation: results are point-wise derivatives -/
theorem dEvalList_sound (S : DRing K) (d : Nat) (c : Coord) (as : List E)
    (ih : ∀ a ∈ as, ∀ r, dEval d c a = .ok r → ∀ i j, den S r i j = S.D c (den S a i j))
    (rs : List E) (h : dEvalList d c as = .ok rs) (i j : Nat) :
    denSum S rs i j = S.D c (denSum S as i j) ∧ rs.length = as.length ∧
    ∀ n, denNth S rs n = S.D c (denNth S as n) := by
  induction as generalizing rs with
  | nil =>
    simp only [dEvalList] at h
    injection h with h; subst h
    refine ⟨by simp [denSum, S.D_zero], rfl, ?_⟩
    intro n; simp [denNth, S.D_zero]
  | cons a as iha =>
    simp only [dEvalList, bind, Except.bind] at h
    cases h1 : dEval d c a with
    | error e => rw [h1] at h; cases h
    | ok r =>
      rw [h1] at h
      cases h2 : dEvalList d c as with
      | error e => rw [h2] at h; cases h
      | ok rs' =>
        rw [h2] at h
        injection h with h; subst h
        have ha := ih a (by simp) r h1
        have := iha (fun x hx => ih x (by simp [hx])) rs' h2
        refine ⟨?_, by simp [this.2.1], ?_⟩
        · simp only [denSum, S.D_add, ha i j, this.1]
        · intro n
          cases n with
          | zero => simp [denNth, ha 0 0]
          | succ n => simp [denNth, this.2.2 n]

/-- the `Mul` branch on the non-coefficient factors -/
theorem dProd_sound (S : DRing K) (T : FnTable S) (c : Coord) (i j : Nat)
    (l : List (E × Except Err E))
    (hl : ∀ p ∈ l, SuppS p.1 = true ∧ NonDeg S p.1 ∧
      ∀ r, p.2 = .ok r → den S r i j = S.D c (den S p.1 i j))
    (v : E) (h : dProd c l = .ok v) :
    den S v i j = S.D c (denProd S (l.map (·.1)) i j) := by
  induction l generalizing v with
  | nil =>
    simp only [dProd] at h
    injection h with h; subst h
    simp [den_zero, denProd, S.D_one]
  | cons p rest ih =>
    obtain ⟨a, da⟩ := p
    have hp := hl (a, da) (by simp)
    cases rest with
    | nil =>
      simp only [dProd] at h
      simp only [List.map, denProd, mul_one]
      exact hp.2.2 v h
    | cons q rest' =>
      have hrest : ∀ p ∈ q :: rest', SuppS p.1 = true ∧ NonDeg S p.1 ∧
          ∀ r, p.2 = .ok r → den S r i j = S.D c (den S p.1 i j) :=
        fun p hp' => hl p (by simp [hp'])
      -- the derivative `fb` of the product of the remaining factors
      have hfb : ∀ fb, (match (q :: rest') with
            | [(_, dv)] => dv
            | _ => if !hasTList ((q :: rest').map (·.1)) then
                      Except.ok (if allNumber ((q :: rest').map (·.1)) then zero
                                 else PD.sdiff c (mulOf ((q :: rest').map (·.1))))
                    else dProd c (q :: rest')) = Except.ok fb →
          den S fb i j = S.D c (denProd S ((q :: rest').map (·.1)) i j) := by
        intro fb hfb
        cases rest' with
        | nil =>
          simp only at hfb
          simp only [List.map, denProd, mul_one]
          exact (hrest q (by simp)).2.2 fb hfb
        | cons q2 rest'' =>
          simp only at hfb
          split at hfb
          · rename_i hnf
            injection hfb with hfb
            have hnf' : hasTList ((q :: q2 :: rest'').map (·.1)) = false := by simpa using hnf
            -- function-free tail: a number, or differentiated by sympy
            have hS : SuppS (mul ((q :: q2 :: rest'').map (·.1))) = true := by
              simp only [SuppS, SuppSList_iff, List.all_eq_true, List.mem_map]
              rintro x ⟨p, hp', rfl⟩
              exact (hrest p hp').1
            have hN : NonDeg S (mul ((q :: q2 :: rest'').map (·.1))) := by
              simp only [NonDeg]
              have : ∀ (l : List (E × Except Err E)), (∀ p ∈ l, NonDeg S p.1) →
                  NonDegList S (l.map (·.1)) := by
                intro l
                induction l with
                | nil => intro _; trivial
                | cons x l ihl =>
                  intro hx
                  exact ⟨hx x (by simp), ihl (fun y hy => hx y (by simp [hy]))⟩
              exact this _ (fun p hp' => (hrest p hp').2.1)
            have hmul : mulOf ((q :: q2 :: rest'').map (·.1)) = mul ((q :: q2 :: rest'').map (·.1)) := rfl
            split at hfb
            · rename_i hnum
              subst hfb
              rw [den_zero]
              have := D_isNumber S c (mul ((q :: q2 :: rest'').map (·.1))) (by simpa [isNumber] using hnum) hN i j
              simpa [den] using this.symm
            · subst hfb
              rw [hmul]
              have hE := Elem_of_SuppS _ hS (by simpa [hasT] using hnf')
              have := sdiff_sound S T c _ hE hN i j
              simpa [den] using this
          · exact ih hrest fb hfb
      simp only [dProd, bind, Except.bind] at h
      cases hda : da with
      | error e => rw [hda] at h; cases h
      | ok fa =>
        rw [hda] at h
        simp only at h
        split at h
        · cases h
        · rename_i fb hfbeq
          injection h with h; subst h
          have h1 := hp.2.2 fa hda
          have h2 := hfb fb hfbeq
          have e1 : den S (add [mul [a, fb], mul [fa, mulOf ((q :: rest').map (·.1))]]) i j
              = den S a i j * den S fb i j + den S fa i j * denProd S ((q :: rest').map (·.1)) i j := by
            simp only [den, denSum, denProd, den_mulOf]; ring
          rw [e1, h1, h2]
          change _ = S.D c (den S a i j * denProd S ((q :: rest').map (·.1)) i j)
          rw [S.D_mul]

theorem filter_zip_map_fst {α β : Type} (p : α → Bool) (f : α → β) (as : List α) :
    ((as.zip (as.map f)).filter (fun q => p q.1)).map (·.1) = as.filter p := by
  induction as with
  | nil => simp
  | cons a as ih =>
    simp only [List.map, List.zip_cons_cons, List.filter]
    cases hp : p a <;> simp [ih]

theorem NonDegList_of_mem (S : DRing K) (as : List E) (h : ∀ a ∈ as, NonDeg S a) :
    NonDegList S as := by
  induction as with
  | nil => trivial
  | cons a as ih => exact ⟨h a (by simp), ih (fun x hx => h x (by simp [hx]))⟩

/-- **Exactness.**  Whenever a coordinate operator returns a value for a supported scalar
    expression, that value denotes the derivative of what the argument denotes — in every
    differential ring, i.e. for every choice of smooth functions at every point.  Covers
    constants (→ 0), coordinates, functions and vector components, derivative chains
    (canonical re-ordering of logical ones), sums (linearity), products of any number of
    factors with constant coefficients (Leibniz), integer powers and quotients, variable and
    real exponents, elementary functions of coordinate expressions (chain rule). -/
theorem dEval_sound (S : DRing K) (T : FnTable S) (d : Nat) (c : Coord) (e : E)
    (hs : SuppS e = true) (hnd : NonDeg S e) (r : E) (h : dEval d c e = .ok r) :
    ∀ i j, den S r i j = S.D c (den S e i j) := by
  induction e using E.rec
    (motive_2 := fun as => ∀ a ∈ as, SuppS a = true → NonDeg S a → ∀ r, dEval d c a = .ok r →
      ∀ i j, den S r i j = S.D c (den S a i j)) generalizing r with
  | num p q =>
    intro i j
    simp only [dEval, hasT, isNumber] at h
    simp at h; subst h
    simp [den_zero, den, S.D_rat]
  | cst s =>
    intro i j
    simp only [dEval, hasT, isNumber] at h
    simp at h; subst h
    simp [den_zero, den, S.D_cst]
  | sym s =>
    intro i j
    simp only [dEval, hasT, isNumber] at h
    simp at h; subst h
    exact sdiff_sound S T c (sym s) rfl trivial i j
  | sf s k =>
    intro i j
    simp only [dEval] at h
    injection h with h; subst h
    simp [den]
  | idx b k _ =>
    intro i j
    simp only [dEval] at h
    injection h with h; subst h
    simp [den]
  | pd c' a _ =>
    intro i j
    simp only [dEval] at h
    split at h
    · exact reorderL_sound S c (pd c' a) r h i j
    · injection h with h; subst h
      simp [den]
  | add as ih =>
    intro i j
    simp only [SuppS, SuppSList_iff, List.all_eq_true] at hs
    have hnd' : ∀ a ∈ as, NonDeg S a := fun a ha => NonDegList_mem S as (by simpa [NonDeg] using hnd) a ha
    simp only [dEval] at h
    split at h
    · rename_i hnf
      injection h with h
      have hnf' : hasT (add as) = false := by simpa [hasT] using hnf
      split at h
      · rename_i hnum
        subst h
        rw [den_zero]
        exact (D_isNumber S c (add as) (by simpa [isNumber] using hnum) hnd i j).symm
      · subst h
        exact sdiff_sound S T c (add as)
          (Elem_of_SuppS _ (by simpa [SuppS, SuppSList_iff] using hs) hnf') hnd i j
    · simp only [bind, Except.bind] at h
      cases hrs : dEvalList d c as with
      | error e => rw [hrs] at h; cases h
      | ok rs =>
        rw [hrs] at h
        injection h with h; subst h
        have := dEvalList_sound S d c as
          (fun a ha r hr => ih a ha (hs a ha) (hnd' a ha) r hr) rs hrs i j
        simp only [den]
        exact this.1
  | mul as ih =>
    intro i j
    simp only [SuppS, SuppSList_iff, List.all_eq_true] at hs
    have hnd' : ∀ a ∈ as, NonDeg S a := fun a ha => NonDegList_mem S as (by simpa [NonDeg] using hnd) a ha
    simp only [dEval] at h
    split at h
    · rename_i hnf
      injection h with h
      have hnf' : hasT (mul as) = false := by simpa [hasT] using hnf
      split at h
      · rename_i hnum
        subst h
        rw [den_zero]
        exact (D_isNumber S c (mul as) (by simpa [isNumber] using hnum) hnd i j).symm
      · subst h
        exact sdiff_sound S T c (mul as)
          (Elem_of_SuppS _ (by simpa [SuppS, SuppSList_iff] using hs) hnf') hnd i j
    · simp only [bind, Except.bind, dEvalListE_eq] at h
      split at h
      · cases h
      · rename_i v hv
        injection h with h; subst h
        have hv' := dProd_sound S T c i j _ (by
          intro p hp
          have hp' := (List.mem_filter.mp hp).1
          have := mem_zip_map (dEval d c) as p hp'
          refine ⟨hs _ this.1, hnd' _ this.1, ?_⟩
          intro r hr
          rw [this.2] at hr
          exact ih p.1 this.1 (hs _ this.1) (hnd' _ this.1) r hr i j) v hv
        rw [filter_zip_map_fst (fun a => !isCoef a) (dEval d c) as] at hv'
        simp only [den, denProd, den_mulOf, mul_one]
        rw [hv', denProd_filter S isCoef as i j, S.D_mul,
          D_denProd_coefs S c _ (fun a ha => (List.mem_filter.mp ha).2) i j]
        ring
  | pow b e ihb ihe =>
    intro i j
    simp only [SuppS, Bool.and_eq_true] at hs
    have hndb : NonDeg S b := by simp only [NonDeg] at hnd; exact hnd.2.1
    have hnde : NonDeg S e := by simp only [NonDeg] at hnd; exact hnd.2.2
    simp only [dEval] at h
    split at h
    · rename_i hnf
      injection h with h
      have hnf' : hasT (pow b e) = false := by simpa [hasT] using hnf
      split at h
      · rename_i hnum
        subst h
        rw [den_zero]
        exact (D_isNumber S c (pow b e) (by simpa [isNumber] using hnum) hnd i j).symm
      · subst h
        exact sdiff_sound S T c (pow b e)
          (Elem_of_SuppS _ (by simp [SuppS, hs.1, hs.2]) hnf') hnd i j
    · simp only [bind, Except.bind] at h
      cases hdb : dEval d c b with
      | error e' => rw [hdb] at h; cases h
      | ok db =>
        rw [hdb] at h
        cases hde : dEval d c e with
        | error e' => rw [hde] at h; cases h
        | ok de =>
          rw [hde] at h
          injection h with h; subst h
          apply powRule_sound S c b e db de i j (ihb hs.1 hndb db hdb i j) (ihe hs.2 hnde de hde i j)
          have := (by simpa [NonDeg] using hnd : _ ∧ _ ∧ _).1
          split
          · rename_i m hm
            rw [hm] at this
            exact this i j
          · trivial
  | fn f a iha =>
    intro i j
    simp only [SuppS, Bool.and_eq_true] at hs
    simp only [dEval] at h
    split at h
    · rename_i hnf
      have hnf' : hasT (fn f a) = false := by simpa using hnf
      split at h
      · rename_i hnum
        injection h with h; subst h
        rw [den_zero]
        exact (D_isNumber S c (fn f a) hnum hnd i j).symm
      · injection h with h; subst h
        exact sdiff_sound S T c (fn f a)
          (Elem_of_SuppS _ (by simp [SuppS, hs.1, hs.2]) hnf') hnd i j
    · cases h
  | nil => cases ‹_ ∈ []›
  | cons a as iha ihas =>
    rename_i x hx h1 h2 r' hr i j
    rcases List.mem_cons.mp hx with rfl | hx
    · exact iha h1 h2 r' hr i j
    · exact ihas x hx h1 h2 r' hr i j
  | _ => simp [SuppS] at hs

/-- **Linearity over constants, Leibniz rule, vanishing on constants** are instances of
    `dEval_sound`; they are spelled out for the record. -/
theorem dEval_const (d : Nat) (c : Coord) (p : Int) (q : Nat) :
    dEval d c (num p q) = .ok zero ∧ ∀ s, dEval d c (cst s) = .ok zero := by
  constructor
  · simp [dEval, hasT, isNumber]
  · intro s; simp [dEval, hasT, isNumber]

theorem dEval_leibniz (S : DRing K) (T : FnTable S) (d : Nat) (c : Coord) (a b r : E)
    (ha : SuppS a = true) (hb : SuppS b = true) (hna : NonDeg S a) (hnb : NonDeg S b)
    (h : dEval d c (mul [a, b]) = .ok r) (i j : Nat) :
    den S r i j = den S a i j * S.D c (den S b i j) + S.D c (den S a i j) * den S b i j := by
  have := dEval_sound S T d c (mul [a, b]) (by simp [SuppS, SuppSList, ha, hb])
    (by simp only [NonDeg, NonDegList]; exact ⟨hna, hnb, trivial⟩) r h i j
  rw [this]
  simp only [den, denProd, mul_one]
  rw [S.D_mul]

theorem dEval_linear (S : DRing K) (T : FnTable S) (d : Nat) (c : Coord) (k a b r : E)
    (hk : isCoef k = true) (ha : SuppS a = true) (hb : SuppS b = true)
    (hna : NonDeg S a) (hnb : NonDeg S b)
    (h : dEval d c (add [mul [k, a], b]) = .ok r) (i j : Nat) :
    den S r i j = den S k i j * S.D c (den S a i j) + S.D c (den S b i j) := by
  have hks : SuppS k = true := by cases k <;> simp_all [isCoef, SuppS]
  have hkn : NonDeg S k := by cases k <;> simp_all [isCoef, NonDeg]
  have := dEval_sound S T d c (add [mul [k, a], b])
    (by simp [SuppS, SuppSList, ha, hb, hks])
    (by simp only [NonDeg, NonDegList]; exact ⟨⟨hkn, hna, trivial⟩, hnb, trivial⟩) r h i j
  rw [this]
  simp only [den, denSum, denProd, mul_one, add_zero]
  rw [S.D_add, S.D_mul, D_isCoef S c k hk i j]
  ring

/-- repeated derivatives taken in different orders denote the same quantity -/
theorem pd_order_irrelevant (S : DRing K) (c c' : Coord) (a : E) (i j : Nat) :
    den S (pd c (pd c' a)) i j = den S (pd c' (pd c a)) i j := by
  simp only [den]; exact S.D_comm c c' _

/-- … and for logical operators they are even the *same term*: the result of applying an
    operator to a chain depends only on how many times each direction occurs in it -/
theorem reorder_canonical (c : Coord) (e e' : E) (hs : stripL e = stripL e')
    (hc : ∀ c', cnt c' (leadL e) = cnt c' (leadL e')) : reorderL c e = reorderL c e' := by
  unfold reorderL
  have h1 : ∀ c', countL c' e - countL c' (stripL e) = cnt c' (leadL e) := by
    intro c'; rw [countL_decomp c' e]; omega
  have h2 : ∀ c', countL c' e' - countL c' (stripL e') = cnt c' (leadL e') := by
    intro c'; rw [countL_decomp c' e']; omega
  simp only [h1]
  simp only [h2]
  simp only [hc, hs]

/-- a vector function is differentiated component by component (returned as a 1×d row) -/
theorem dEval_vf (S : DRing K) (d : Nat) (c : Coord) (s : String) (k : Kind) (j : Nat) (hj : j < d) :
    ∃ r, dEval d c (vf s k) = .ok r ∧ den S r 0 j = S.D c (den S (vf s k) j 0) := by
  refine ⟨_, rfl, ?_⟩
  simp only [den]
  have key : ∀ (n : Nat) (l : List Nat) (f : Nat → E), n < l.length →
      denNth S (l.map f) n = den S (f (l[n]!)) 0 0 := by
    intro n l f
    induction l generalizing n with
    | nil => intro h; simp at h
    | cons x l ih =>
      intro h
      cases n with
      | zero => simp [denNth]
      | succ n =>
        simp only [List.map, denNth]
        rw [ih n (by simpa using h)]
        simp
  have hlen : j < (PD.range d).length := by simp [PD.range, hj]
  simp only [hj, Nat.zero_lt_one, and_self, if_true, Nat.zero_mul, Nat.zero_add]
  rw [key j (PD.range d) _ hlen]
  simp [PD.range, hj, den]

/-- a matrix is differentiated entry by entry -/
theorem dEval_mat (S : DRing K) (T : FnTable S) (d : Nat) (c : Coord) (rr cc : Nat) (es : List E)
    (hs : SuppSList es = true) (hnd : NonDegList S es) (r : E)
    (h : dEval d c (mat rr cc es) = .ok r) (i j : Nat) :
    den S r i j = S.D c (den S (mat rr cc es) i j) := by
  simp only [dEval, bind, Except.bind] at h
  cases hrs : dEvalList d c es with
  | error e => rw [hrs] at h; cases h
  | ok rs =>
    rw [hrs] at h
    injection h with h; subst h
    have hs' : ∀ a ∈ es, SuppS a = true := by
      simpa [SuppSList_iff] using hs
    have := dEvalList_sound S d c es
      (fun a ha r hr => dEval_sound S T d c a (hs' a ha) (NonDegList_mem S es hnd a ha) r hr) rs hrs i j
    simp only [den]
    split
    · exact this.2.2 _
    · exact (S.D_zero c).symm

/-- **Refusal.**  An elementary function of a function-bearing argument (e.g. `dx(sin(u))`),
    and every other node kind the operators do not know, is refused — never given a value. -/
theorem dEval_refuses_fn (d : Nat) (c : Coord) (f : String) (a : E) (h : hasT a = true) :
    dEval d c (fn f a) = .error .notImplemented := by
  simp [dEval, hasT, h]

theorem dEval_refuses_op (d : Nat) (c : Coord) (o : Op2) (a b : E) (h : (hasT a || hasT b) = true) :
    dEval d c (op2 o a b) = .error .notImplemented := by
  simp only [dEval, hasT, h]
  simp

/-! ### non-vacuity: the hypotheses are met by concrete non-trivial trees -/

example : SuppS (mul [num 2 1, sf "f" .h1, pow (sf "g" .h1) (num (-1) 1), sym "x"]) = true := by decide
example : (dEval 2 .x (mul [sf "f" .h1, sf "g" .h1])).toOption.isSome = true := by decide
example : reorderL .x1 (pd .x2 (pd .x1 (sf "f" .h1)))
    = .ok (pd .x1 (pd .x1 (pd .x2 (sf "f" .h1)))) := by rfl
example : reorderL .x1 (pd .x2 (pd .x1 (sf "f" .h1))) = reorderL .x1 (pd .x1 (pd .x2 (sf "f" .h1))) := by rfl

end Sympde
