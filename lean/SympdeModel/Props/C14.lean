/-
  C14 — unions of domains behave as canonical finite sets.
  Property theorems only (helper lemmas are in Lemmas/Union.lean).

  Standing hypothesis of the order-related theorems: `KeyInj Atom.key l` — on the members
  involved, `str` is injective (two members that print the same are the same member).  This is
  the name-hygiene convention of sympde (objects compare by class and name; identity by name is
  the subject of C12, not of C14).  `WFArg` says that a Union *object* passed as an argument
  is internally of one dimension — true of every object `Union.__new__` ever returned
  (`union_result_wf`).
-/
import SympdeModel.Lemmas.Union
namespace Sympde.USet

/-! ### set semantics of construction -/

/-- **Union(*args) is the set of all members of its arguments**, listed without repetition in
    increasing order of `str` — whatever the nesting, order and multiplicity of the arguments. -/
theorem union_set_semantics (args : List Arg) (r : Res) (h : mkUnion args = .ok r) :
    (∀ x, x ∈ r.members ↔ ∃ a ∈ args, x ∈ a.members) ∧ r.members.Nodup ∧
      Sorted Atom.key r.members := by
  obtain ⟨_, _, rfl⟩ := mkUnion_ok_inv args r h
  rw [members_pack]
  exact ⟨fun x => by rw [mem_canon, mem_flat], canon_nodup _ _, canon_sorted _ _⟩

/-- with hygienic names the listing is *strictly* increasing -/
theorem union_strictly_sorted (args : List Arg) (r : Res) (h : mkUnion args = .ok r)
    (inj : KeyInj Atom.key (flat args)) : StrictSorted Atom.key r.members := by
  obtain ⟨_, _, rfl⟩ := mkUnion_ok_inv args r h
  rw [members_pack]
  exact canon_strict _ _ inj

/-- **degenerate cases**: no member at all gives the null value (Python `None`) … -/
theorem union_empty (args : List Arg) (hb : NoBad args) (hu : Uniform args)
    (h : ∀ a ∈ args, a.members = []) : mkUnion args = .ok .null := by
  rw [mkUnion_ok args hb hu]
  have : canon Atom.key (flat args) = [] := by
    apply List.eq_nil_iff_forall_not_mem.mpr
    intro x hx
    obtain ⟨a, ha, hxa⟩ := (mem_flat args x).mp ((mem_canon _ _ x).mp hx)
    rw [h a ha] at hxa; cases hxa
  rw [this]; rfl

/-- … and a single member (however often and however deeply nested it is given) is returned
    as itself, not wrapped in a Union -/
theorem union_singleton (args : List Arg) (x : Atom) (hb : NoBad args) (hu : Uniform args)
    (h : ∀ y, (∃ a ∈ args, y ∈ a.members) ↔ y = x) : mkUnion args = .ok (.single x) := by
  rw [mkUnion_ok args hb hu]
  have : canon Atom.key (flat args) = canon Atom.key [x] := by
    symm
    apply canon_ext
    · intro a ha b hb' _
      simp at ha hb'; rw [ha, hb']
    · intro y; rw [mem_flat, h]; simp
  rw [this]; rfl

/-- **degenerate cases** (both halves; the name used in DESIGN.md) -/
theorem union_degenerate (args : List Arg) (hb : NoBad args) (hu : Uniform args) :
    ((∀ a ∈ args, a.members = []) → mkUnion args = .ok .null) ∧
    (∀ x, (∀ y, (∃ a ∈ args, y ∈ a.members) ↔ y = x) → mkUnion args = .ok (.single x)) :=
  ⟨union_empty args hb hu, fun x h => union_singleton args x hb hu h⟩

/-! ### order independence: equality, hash and printing are functions of `args` only, so it
    suffices that the *result* does not depend on the argument order -/

/-- two argument lists with the same verdicts of the type and dimension checks and the same
    set of members give the same result -/
theorem union_ext (a₁ a₂ : List Arg) (hb : NoBad a₁ ↔ NoBad a₂) (hu : Uniform a₁ ↔ Uniform a₂)
    (hm : ∀ x, (∃ a ∈ a₁, x ∈ a.members) ↔ (∃ a ∈ a₂, x ∈ a.members))
    (inj : KeyInj Atom.key (flat a₁)) : mkUnion a₁ = mkUnion a₂ := by
  by_cases h1 : NoBad a₁
  · by_cases h2 : Uniform a₁
    · rw [mkUnion_ok a₁ h1 h2, mkUnion_ok a₂ (hb.mp h1) (hu.mp h2)]
      congr 2
      apply canon_ext _ _ _ inj
      intro x; rw [mem_flat, mem_flat, hm]
    · rw [mkUnion_mixed a₁ h1 h2, mkUnion_mixed a₂ (hb.mp h1) (fun h => h2 (hu.mpr h))]
  · have h2 : ¬ NoBad a₂ := fun h => h1 (hb.mpr h)
    have e1 : ∃ a ∈ a₁, a.isBad = true := by
      apply Classical.byContradiction; intro hn
      apply h1; intro a ha
      cases hbad : a.isBad
      · rfl
      · exact absurd ⟨a, ha, hbad⟩ hn
    have e2 : ∃ a ∈ a₂, a.isBad = true := by
      apply Classical.byContradiction; intro hn
      apply h2; intro a ha
      cases hbad : a.isBad
      · rfl
      · exact absurd ⟨a, ha, hbad⟩ hn
    rw [mkUnion_bad a₁ e1, mkUnion_bad a₂ e2]

/-- **permutation invariance**: the result (value or refusal) does not depend on the order of
    the arguments; hence `==`, `hash` and `str` of unions do not either -/
theorem union_perm_invariant (a₁ a₂ : List Arg) (hp : a₁.Perm a₂)
    (inj : KeyInj Atom.key (flat a₁)) : mkUnion a₁ = mkUnion a₂ := by
  apply union_ext a₁ a₂ (noBad_perm hp) (uniform_perm hp) _ inj
  intro x
  constructor
  · rintro ⟨a, ha, hx⟩; exact ⟨a, hp.mem_iff.mp ha, hx⟩
  · rintro ⟨a, ha, hx⟩; exact ⟨a, hp.mem_iff.mpr ha, hx⟩

/-- **commutativity** -/
theorem union_comm (a b : Arg) (inj : KeyInj Atom.key (flat [a, b])) :
    mkUnion [a, b] = mkUnion [b, a] :=
  union_perm_invariant _ _ (List.Perm.swap b a []) inj

/-- the printed form is a function of the result, hence also order independent -/
theorem union_str_perm_invariant (a₁ a₂ : List Arg) (hp : a₁.Perm a₂)
    (inj : KeyInj Atom.key (flat a₁)) (r₁ r₂ : Res) (h₁ : mkUnion a₁ = .ok r₁)
    (h₂ : mkUnion a₂ = .ok r₂) : render r₁.members = render r₂.members := by
  rw [union_perm_invariant a₁ a₂ hp inj, h₂] at h₁
  cases h₁; rfl

/-- **duplicates collapse** -/
theorem union_dup_collapse (args : List Arg) (inj : KeyInj Atom.key (flat (args ++ args))) :
    mkUnion (args ++ args) = mkUnion args := by
  apply union_ext _ _ _ _ _ inj
  · unfold NoBad; simp
  · unfold Uniform
    constructor
    · intro h a ha b hb; exact h a (by simp [ha]) b (by simp [hb])
    · intro h a ha b hb
      exact h a (by simpa using ha) b (by simpa using hb)
  · intro x; simp

/-! ### idempotence, flattening, associativity -/

/-- a result, passed on as an argument, is a well-formed argument -/
theorem union_result_wf (args : List Arg) (r : Res) (h : mkUnion args = .ok r)
    (hw : ∀ a ∈ args, WFArg a) : WFArg r.toArg := by
  have hd := result_dim args r h hw
  cases r with
  | null => trivial
  | single a => trivial
  | union ms =>
    cases ms with
    | nil => trivial
    | cons m ms' =>
      intro x hx
      obtain ⟨a, ha, hma⟩ := (mem_members_of_ok args _ h m).mp (by simp [Res.members])
      have hna := not_none_of_member a m hma
      rw [hd x (by simp [Res.members, hx]) a ha hna, hd m (by simp [Res.members]) a ha hna]

/-- **nested unions flatten**: replacing a group `g` of consecutive arguments by the union
    built from them changes nothing — neither the value nor a refusal -/
theorem union_nest (pre g post : List Arg) (r : Res) (h : mkUnion g = .ok r)
    (hw : ∀ a ∈ g, WFArg a) (hyg : Hygienic (pre ++ g ++ post)) :
    mkUnion (pre ++ [r.toArg] ++ post) = mkUnion (pre ++ g ++ post) := by
  have hp := isPack_of_ok g r h
  have hmem : ∀ x, (∃ a ∈ pre ++ [r.toArg] ++ post, x ∈ a.members) ↔
      (∃ a ∈ pre ++ g ++ post, x ∈ a.members) := by
    intro x
    simp only [List.mem_append, List.mem_singleton]
    constructor
    · rintro ⟨a, (ha | rfl) | ha, hx⟩
      · exact ⟨a, Or.inl (Or.inl ha), hx⟩
      · rw [members_toArg r hp] at hx
        obtain ⟨b, hb, hxb⟩ := (mem_members_of_ok g r h x).mp hx
        exact ⟨b, Or.inl (Or.inr hb), hxb⟩
      · exact ⟨a, Or.inr ha, hx⟩
    · rintro ⟨a, (ha | ha) | ha, hx⟩
      · exact ⟨a, Or.inl (Or.inl ha), hx⟩
      · exact ⟨r.toArg, Or.inl (Or.inr rfl), by
          rw [members_toArg r hp]; exact (mem_members_of_ok g r h x).mpr ⟨a, ha, hx⟩⟩
      · exact ⟨a, Or.inr ha, hx⟩
  apply union_ext
  · have hg := (mkUnion_ok_inv g r h).1
    unfold NoBad
    simp only [List.mem_append, List.mem_singleton]
    constructor
    · intro H a ha
      rcases ha with (ha | ha) | ha
      · exact H a (Or.inl (Or.inl ha))
      · exact hg a ha
      · exact H a (Or.inr ha)
    · intro H a ha
      rcases ha with (ha | rfl) | ha
      · exact H a (Or.inl (Or.inl ha))
      · exact toArg_notBad r
      · exact H a (Or.inr ha)
  · apply uniform_congr
    intro d
    rw [dimsOf_append, dimsOf_append, dimsOf_append, dimsOf_append]
    simp only [List.mem_append]
    rw [dims_result g r h hw d]
  · exact hmem
  · exact KeyInj.of_subset hyg (fun x hx => by
      obtain ⟨a, ha, hxa⟩ := (hmem x).mp ((mem_flat _ x).mp hx)
      exact List.mem_flatMap.mpr ⟨a, ha, hxa⟩)

/-- **idempotence**: `Union(U, U) = U` and `Union(U) = U` for every value `U` that `Union`
    returns (None, a single domain, or a Union object) -/
theorem union_idem (args : List Arg) (r : Res) (h : mkUnion args = .ok r)
    (hw : ∀ a ∈ args, WFArg a) (hyg : Hygienic args) :
    mkUnion [r.toArg, r.toArg] = .ok r ∧ mkUnion [r.toArg] = .ok r := by
  have hyg2 : Hygienic (args ++ args) := KeyInj.of_subset hyg (fun x hx => by simpa using hx)
  constructor
  · have e1 := union_nest [] args [r.toArg] r h hw (by
      apply KeyInj.of_subset hyg
      intro x hx
      simp only [List.nil_append, List.flatMap_append, List.mem_append, List.flatMap_cons,
        List.flatMap_nil, List.append_nil] at hx
      rcases hx with hx | hx
      · exact hx
      · rw [members_toArg r (isPack_of_ok args r h)] at hx
        obtain ⟨a, ha, hxa⟩ := (mem_members_of_ok args r h x).mp hx
        exact List.mem_flatMap.mpr ⟨a, ha, hxa⟩)
    have e2 := union_nest args args [] r h hw (by simpa using hyg2)
    simp only [List.nil_append, List.append_nil] at e1 e2
    have e1' : mkUnion [r.toArg, r.toArg] = mkUnion (args ++ [r.toArg]) := e1
    rw [e1', e2, union_dup_collapse args hyg2.flat, h]
  · have e := union_nest [] args [] r h hw (by simpa using hyg)
    simp only [List.nil_append, List.append_nil] at e
    rw [e, h]

/-- **flattening in general form**: building the unions of any number of groups of arguments
    first (`rf g` is what `Union(*g)` returned) and then the union of the results equals the
    union of all the arguments at once; `pre` are further arguments given directly -/
theorem union_flatten (gs : List (List Arg)) (rf : List Arg → Res)
    (h : ∀ g ∈ gs, mkUnion g = .ok (rf g))
    (hw : ∀ g ∈ gs, ∀ a ∈ g, WFArg a) (pre : List Arg)
    (hyg : Hygienic (pre ++ gs.flatten)) :
    mkUnion (pre ++ gs.map (fun g => (rf g).toArg)) = mkUnion (pre ++ gs.flatten) := by
  induction gs generalizing pre with
  | nil => rfl
  | cons g gs' ih =>
    have hw' : ∀ g ∈ gs', ∀ a ∈ g, WFArg a := fun g hg => hw g (List.mem_cons_of_mem _ hg)
    have h' : ∀ g ∈ gs', mkUnion g = .ok (rf g) := fun g hg => h g (List.mem_cons_of_mem _ hg)
    have hg := h g (by simp)
    have step2 := ih h' hw' (pre ++ g) (by simpa [List.append_assoc] using hyg)
    have hyg1 : Hygienic (pre ++ g ++ gs'.map (fun g => (rf g).toArg)) := by
      apply KeyInj.of_subset hyg
      intro x hx
      simp only [List.flatMap_append, List.mem_append, List.flatten_cons] at hx ⊢
      rcases hx with (hx | hx) | hx
      · exact Or.inl hx
      · exact Or.inr (Or.inl hx)
      · obtain ⟨a, ha, hxa⟩ := List.mem_flatMap.mp hx
        obtain ⟨g', hg', rfl⟩ := List.mem_map.mp ha
        rw [members_toArg _ (isPack_of_ok g' _ (h' g' hg'))] at hxa
        obtain ⟨b, hb, hxb⟩ := (mem_members_of_ok g' _ (h' g' hg') x).mp hxa
        exact Or.inr (Or.inr (List.mem_flatMap.mpr ⟨b, List.mem_flatten.mpr ⟨g', hg', hb⟩, hxb⟩))
    have step1 := union_nest pre g (gs'.map (fun g => (rf g).toArg)) (rf g) hg (hw g (by simp)) hyg1
    simp only [List.map_cons, List.flatten_cons]
    have e : pre ++ (rf g).toArg :: gs'.map (fun g => (rf g).toArg) =
        pre ++ [(rf g).toArg] ++ gs'.map (fun g => (rf g).toArg) := by simp
    rw [e, step1, step2, List.append_assoc]

/-- **associativity**: `Union(Union(a, b), c) = Union(a, Union(b, c))` — both are `Union(a, b, c)` -/
theorem union_assoc (a b c : Arg) (rab rbc : Res) (hab : mkUnion [a, b] = .ok rab)
    (hbc : mkUnion [b, c] = .ok rbc) (hw : WFArg a ∧ WFArg b ∧ WFArg c)
    (hyg : Hygienic [a, b, c]) :
    mkUnion [rab.toArg, c] = mkUnion [a, b, c] ∧ mkUnion [a, rbc.toArg] = mkUnion [a, b, c] := by
  constructor
  · have := union_nest [] [a, b] [c] rab hab (by
      intro x hx; simp at hx; rcases hx with rfl | rfl
      · exact hw.1
      · exact hw.2.1) (by simpa using hyg)
    simpa using this
  · have := union_nest [a] [b, c] [] rbc hbc (by
      intro x hx; simp at hx; rcases hx with rfl | rfl
      · exact hw.2.1
      · exact hw.2.2) (by simpa using hyg)
    simpa using this

/-! ### refusals -/

/-- **mixed dimensions are refused** (ValueError), wherever the two offending arguments stand -/
theorem mixed_dim_refused (args : List Arg) (hb : NoBad args) (a b : Arg) (ha : a ∈ args)
    (hb' : b ∈ args) (hna : a.isNone = false) (hnb : b.isNone = false) (hd : a.dim ≠ b.dim) :
    mkUnion args = .error .valueError :=
  mkUnion_mixed args hb (fun hu => hd (hu a ha b hb' hna hnb))

/-- an argument that is not a domain is refused (TypeError), before anything else is looked at -/
theorem non_domain_refused (args : List Arg) (h : Arg.bad ∈ args) :
    mkUnion args = .error .typeError :=
  mkUnion_bad args ⟨_, h, rfl⟩

/-- conversely, domains of one dimension (and None's) are never refused -/
theorem union_total (args : List Arg) (hb : NoBad args) (hu : Uniform args) :
    ∃ r, mkUnion args = .ok r := ⟨_, mkUnion_ok args hb hu⟩

/-! ### complement -/

/-- **complement removes exactly the given members**: the result consists of the members of
    `U` that are not among the given ones, in the same order — packed like every union (None when
    nothing is left, the domain itself when one is left).  `U - None = U`; a non-container
    argument is refused. -/
theorem complement_spec (ms : List Atom) (h : IsUnionObj ms) :
    (∀ a, complement ms (.atom a) = .ok (pack (ms.filter (fun i => i ≠ a)))) ∧
    (∀ hd tl, complement ms (.union hd tl) = .ok (pack (ms.filter (fun i => i ∉ hd :: tl)))) ∧
    (∀ l, complement ms (.seq l) = .ok (pack (ms.filter (fun i => i ∉ l)))) ∧
    complement ms .none = .ok (.union ms) ∧
    complement ms .bad = .error .typeError := by
  refine ⟨?_, ?_, ?_, rfl, rfl⟩
  · intro a
    have := complement_list ms [a] h
    simpa [complement] using this
  · intro hd tl; exact complement_list ms (hd :: tl) h
  · intro l; exact complement_list ms l h

/-- in terms of membership: `x ∈ U - V ↔ x ∈ U ∧ x ∉ V`, and nothing is listed twice -/
theorem complement_members (ms : List Atom) (h : IsUnionObj ms) (hd : Atom) (tl : List Atom)
    (r : Res) (hr : complement ms (.union hd tl) = .ok r) :
    (∀ x, x ∈ r.members ↔ x ∈ ms ∧ x ∉ hd :: tl) ∧ r.members.Nodup := by
  rw [(complement_spec ms h).2.1 hd tl] at hr
  cases hr
  rw [members_pack]
  exact ⟨fun x => by simp [List.mem_filter], (h.strict.nodup).sublist List.filter_sublist⟩

/-- what `Union.__new__` returns as a Union object satisfies `IsUnionObj` -/
theorem union_isUnionObj (args : List Arg) (r : Res) (h : mkUnion args = .ok r)
    (hw : ∀ a ∈ args, WFArg a) (hyg : Hygienic args) : IsUnionObj r.members := by
  refine ⟨union_strictly_sorted args r h hyg.flat, ?_⟩
  intro a ha b hb
  obtain ⟨z, hz, haz⟩ := (mem_members_of_ok args r h a).mp ha
  have hn := not_none_of_member z a haz
  rw [result_dim args r h hw a ha z hz hn, result_dim args r h hw b hb z hz hn]

/-! ### iteration -/

/-- **every iterator visits the members in order, each once, whatever else happens in between**:
    for every world `w` (any number of iterators at any positions), every iterator `i` of it
    standing at `pos`, and every further sequence of operations — creations of new iterators and
    `next` calls on any iterators in any interleaving — the answers given to the `next i` calls
    are exactly what an isolated tuple iterator at `pos` would answer. -/
theorem iter_independent (ms : List Atom) (ops : List Op) (w : World) (i pos : Nat)
    (h : w[i]? = some pos) :
    answersTo i ops (run ms w ops) = expected ms pos (countNext i ops) := by
  induction ops generalizing w pos with
  | nil => rfl
  | cons o os ih =>
    cases o with
    | iter =>
      simp only [run, step, answersTo, countNext]
      exact ih (w ++ [0]) pos (getElem?_append_zero w i pos h)
    | next j =>
      by_cases hj : j = i
      · subst hj
        simp only [run, step, h, answersTo, countNext, if_true]
        cases hm : ms[pos]? with
        | none =>
          simp only [Nat.add_comm 1, expected, hm]
          congr 1
          exact ih w pos h
        | some a =>
          simp only [Nat.add_comm 1, expected, hm]
          congr 1
          apply ih
          have hi : j < w.length := by
            apply Decidable.byContradiction; intro hn
            rw [List.getElem?_eq_none (by omega)] at h; cases h
          simp [hi]
      · simp only [run, answersTo, countNext, hj, if_false, Nat.zero_add]
        apply ih
        cases hw : w[j]? with
        | none => simp only [step, hw]; exact h
        | some pj =>
          cases hm : ms[pj]? with
          | none => simp only [step, hw, hm]; exact h
          | some a =>
            simp only [step, hw, hm]
            rw [List.getElem?_set_ne hj]; exact h

/-- the answers of an isolated iterator started at the beginning: the members in order, then
    StopIteration for ever -/
theorem expected_spec (ms : List Atom) (n pos : Nat) :
    expected ms pos n = ((ms.drop pos).take n).map Ev.elem ++
      List.replicate (n - (ms.length - pos)) Ev.stop := by
  induction n generalizing pos with
  | zero => simp [expected]
  | succ n ih =>
    simp only [expected]
    cases hm : ms[pos]? with
    | none =>
      have hl : ms.length ≤ pos := by
        apply Decidable.byContradiction; intro hn
        rw [List.getElem?_eq_getElem (by omega)] at hm; cases hm
      simp only [ih pos]
      rw [List.drop_eq_nil_of_le hl]
      have : ms.length - pos = 0 := by omega
      simp [this, List.replicate_succ]
    | some a =>
      have hl : pos < ms.length := by
        apply Decidable.byContradiction; intro hn
        rw [List.getElem?_eq_none (by omega)] at hm; cases hm
      simp only [ih (pos + 1)]
      have hd : ms.drop pos = a :: ms.drop (pos + 1) := by
        rw [List.getElem?_eq_getElem hl] at hm
        cases hm
        exact List.drop_eq_getElem_cons hl
      rw [hd]
      have : n + 1 - (ms.length - pos) = n - (ms.length - (pos + 1)) := by omega
      simp [this]

/-- **iteration visits every member exactly once each time**: an iterator obtained by `iter(U)`
    at any moment (after any prefix `pre` of other operations), driven to exhaustion by `next`
    calls interleaved in any way with any other operations `post`, yields exactly the members of
    `U` in order — every member once (the list has no duplicates) — and then stops. -/
theorem iter_each_once (ms : List Atom) (pre post : List Op) (w₀ : World) (k : Nat)
    (hk : countNext (exec ms w₀ pre).length post = ms.length + k) :
    answersTo (exec ms w₀ pre).length post
        (run ms (exec ms w₀ (pre ++ [Op.iter])) post) =
      ms.map Ev.elem ++ List.replicate k Ev.stop := by
  rw [exec_append_iter, iter_independent ms post _ (exec ms w₀ pre).length 0 (by simp), hk, expected_spec]
  simp [List.take_of_length_le]

/-- regression counterexample (the machine of the code before the fix): with the index stored on
    the Union object, the nested loop `for a in U: for b in U` over three members ends the outer
    loop after its first element — 3 pairs instead of 9 -/
theorem legacy_shared_index_loses :
    let a : Atom := ⟨"a", some 2⟩; let b : Atom := ⟨"b", some 2⟩; let c : Atom := ⟨"c", some 2⟩
    Legacy.run [a, b, c] 0
        [.iter, .next 0,                        -- outer loop: first element
         .iter, .next 1, .next 1, .next 1, .next 1,   -- inner loop runs to StopIteration
         .next 0]                               -- outer loop asks for its second element
      = [.made 0, .elem a, .made 0, .elem a, .elem b, .elem c, .stop, .stop] := by
  decide

/-! ### non-vacuity -/

example : mkUnion [.atom ⟨"B", some 2⟩, .none, .union ⟨"A", some 2⟩ [⟨"C", some 2⟩], .atom ⟨"A", some 2⟩]
    = .ok (.union [⟨"A", some 2⟩, ⟨"B", some 2⟩, ⟨"C", some 2⟩]) := by decide
example : mkUnion [.none, .none] = .ok .null := by decide
example : mkUnion [.atom ⟨"A", some 2⟩, .atom ⟨"A", some 2⟩] = .ok (.single ⟨"A", some 2⟩) := by decide
example : mkUnion [.atom ⟨"A", some 2⟩, .atom ⟨"B", some 3⟩] = .error .valueError := by decide
example : mkUnion [.atom ⟨"A", some 2⟩, .bad, .atom ⟨"B", some 3⟩] = .error .typeError := by decide
example : Hygienic [.atom ⟨"B", some 2⟩, .union ⟨"A", some 2⟩ [⟨"C", some 2⟩]] := by
  intro a ha b hb; simp [Arg.members] at ha hb
  rcases ha with rfl | rfl | rfl <;> rcases hb with rfl | rfl | rfl <;> simp
example : IsUnionObj [⟨"A", some 2⟩, ⟨"B", some 2⟩, ⟨"C", some 2⟩] :=
  ⟨by unfold StrictSorted; decide, by intro a ha b hb; simp at ha hb; rcases ha with rfl | rfl | rfl <;> rcases hb with rfl | rfl | rfl <;> rfl⟩
example : complement [⟨"A", some 2⟩, ⟨"B", some 2⟩, ⟨"C", some 2⟩] (.union ⟨"C", some 2⟩ [⟨"A", some 2⟩])
    = .ok (.single ⟨"B", some 2⟩) := by decide
example : run [⟨"A", some 2⟩, ⟨"B", some 2⟩] [] [.iter, .next 0, .iter, .next 1, .next 1, .next 1, .next 0, .next 0]
    = [.made 0, .elem ⟨"A", some 2⟩, .made 1, .elem ⟨"A", some 2⟩, .elem ⟨"B", some 2⟩, .stop,
       .elem ⟨"B", some 2⟩, .stop] := by decide

end Sympde.USet
