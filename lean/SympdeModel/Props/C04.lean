/-
  C04 — integrals transform to logical coordinates with the exact volume / surface element.

  The element computed by the model (`IM.element`: square root of the Gram determinant of the
  Jacobian columns kept by `JacobianSymbol(mapping, axis)`) is, in every commutative ring,
    * on a patch with a square Jacobian: det(JᵀJ) = (det J)²  (so the element is |det J|),
    * on a face of a 2-D patch: the squared length of the tangent ∂F/∂x̂_k of the remaining direction,
    * on a face of a 3-D patch and on a surface in ℝ³: |t₁ × t₂|² for the two remaining tangents
      (Lagrange's identity),
    * on a curve / 1-D patch: |F'|²,
  the face (axis, side) is preserved, the kernel is (transformed integrand)·(element of THIS
  region), and an integral over several patches becomes one integral per patch, each with the
  patch's own mapping.  That the transformed integrand has the value of the original one is C03
  (`PB.logical_sound`), combined here in `integral_kernel_sound`.
-/
import SympdeModel.Model.IntegralMap
import SympdeModel.Lemmas.IntegralMap
import SympdeModel.Props.C03
namespace Sympde.IM
open E PD PB
open DRing (sumN)

variable {K : Type} [CommRing K] [Algebra ℚ K]

/-! ### the algebra of the element -/

/-- det(JᵀJ) = det(J)² for a 2×2 Jacobian -/
theorem gram_square2 (a11 a12 a21 a22 : K) :
    (a11 * a11 + a21 * a21) * (a12 * a12 + a22 * a22) - (a11 * a12 + a21 * a22) * (a12 * a11 + a22 * a21)
      = (a11 * a22 - a12 * a21) ^ 2 := by ring

/-- Lagrange: the Gram determinant of two vectors of ℝ³ is the squared norm of their cross product
    (surface element of a face of a 3-D patch and of a surface mapping) -/
theorem gram_cross (t1 t2 t3 u1 u2 u3 : K) :
    (t1 * t1 + t2 * t2 + t3 * t3) * (u1 * u1 + u2 * u2 + u3 * u3)
        - (t1 * u1 + t2 * u2 + t3 * u3) * (u1 * t1 + u2 * t2 + u3 * t3)
      = (t2 * u3 - t3 * u2) ^ 2 + (t3 * u1 - t1 * u3) ^ 2 + (t1 * u2 - t2 * u1) ^ 2 := by ring

/-- det(JᵀJ) = det(J)² for a 3×3 Jacobian -/
theorem gram_square3 (a11 a12 a13 a21 a22 a23 a31 a32 a33 : K) :
    let g (x1 x2 x3 y1 y2 y3 : K) : K := x1 * y1 + x2 * y2 + x3 * y3
    let g11 := g a11 a21 a31 a11 a21 a31; let g12 := g a11 a21 a31 a12 a22 a32; let g13 := g a11 a21 a31 a13 a23 a33
    let g21 := g a12 a22 a32 a11 a21 a31; let g22 := g a12 a22 a32 a12 a22 a32; let g23 := g a12 a22 a32 a13 a23 a33
    let g31 := g a13 a23 a33 a11 a21 a31; let g32 := g a13 a23 a33 a12 a22 a32; let g33 := g a13 a23 a33 a13 a23 a33
    g11 * (g22 * g33 - g23 * g32) + -(g12 * (g21 * g33 - g23 * g31)) + g13 * (g21 * g32 - g22 * g31)
      = (a11 * (a22 * a33 - a23 * a32) - a12 * (a21 * a33 - a23 * a31) + a13 * (a21 * a32 - a22 * a31)) ^ 2 := by
  intro g g11 g12 g13 g21 g22 g23 g31 g32 g33
  simp only [g11, g12, g13, g21, g22, g23, g31, g32, g33, g]
  ring

/-! ### what the model's element denotes -/

theorem den_gramE (S : DRing K) (j : RJac) (hp : j.p ≤ 3) (a b x y : Nat) :
    den S (gramE j a b) x y = sumN j.p (fun i => den S (j.J i a) x y * den S (j.J i b) x y) := by
  simp only [gramE]
  rw [den_sum3 S j.p hp]
  apply DRing.sumN_congr
  intro i _
  rw [den_mul2]

/-- interior of a 2-D patch with a 2-component mapping: the Gram determinant is (det J)² -/
theorem detGram_domain2 (S : DRing K) (j : RJac) (hp : j.p = 2) (hl : j.l = 2) (x y : Nat) :
    den S (detGram j (keptCols j.l none)) x y
      = (den S (j.J 0 0) x y * den S (j.J 1 1) x y - den S (j.J 0 1) x y * den S (j.J 1 0) x y) ^ 2 := by
  have h3 : j.p ≤ 3 := by omega
  simp only [hl, keptCols, List.range, List.range.loop, detGram, den_sub, den_mul2, den_gramE S j h3, hp, DRing.sumN]
  ring

/-- interior of a 3-D patch: the Gram determinant is (det J)² -/
theorem detGram_domain3 (S : DRing K) (j : RJac) (hp : j.p = 3) (hl : j.l = 3) (x y : Nat) :
    den S (detGram j (keptCols j.l none)) x y
      = (den S (j.J 0 0) x y * (den S (j.J 1 1) x y * den S (j.J 2 2) x y - den S (j.J 1 2) x y * den S (j.J 2 1) x y)
        - den S (j.J 0 1) x y * (den S (j.J 1 0) x y * den S (j.J 2 2) x y - den S (j.J 1 2) x y * den S (j.J 2 0) x y)
        + den S (j.J 0 2) x y * (den S (j.J 1 0) x y * den S (j.J 2 1) x y - den S (j.J 1 1) x y * den S (j.J 2 0) x y)) ^ 2 := by
  have h3 : j.p ≤ 3 := by omega
  simp only [hl, keptCols, List.range, List.range.loop, detGram, den_sub, den_neg, den_add3, den_mul2,
    den_gramE S j h3, hp, DRing.sumN]
  ring

/-- interior of a 1-D patch: (F')² -/
theorem detGram_domain1 (S : DRing K) (j : RJac) (hp : j.p = 1) (hl : j.l = 1) (x y : Nat) :
    den S (detGram j (keptCols j.l none)) x y = den S (j.J 0 0) x y ^ 2 := by
  have h3 : j.p ≤ 3 := by omega
  simp only [hl, keptCols, List.range, List.range.loop, detGram, den_gramE S j h3, hp, DRing.sumN]
  ring

/-- face `axis = a` of a 2-D patch: the squared length of the tangent in the remaining direction
    `k = 1 - a` — the column that is deleted is the one of the axis, never the other one -/
theorem detGram_face2 (S : DRing K) (j : RJac) (hp : j.p = 2) (hl : j.l = 2) (a : Nat) (ha : a < 2) (x y : Nat) :
    den S (detGram j (keptCols j.l (some a))) x y
      = den S (j.J 0 (1 - a)) x y ^ 2 + den S (j.J 1 (1 - a)) x y ^ 2 := by
  have h3 : j.p ≤ 3 := by omega
  match a, ha with
  | 0, _ =>
    simp [hl, keptCols, List.range, List.range.loop, List.filter, detGram, den_gramE S j h3, hp, DRing.sumN]
    ring
  | 1, _ =>
    simp [hl, keptCols, List.range, List.range.loop, List.filter, detGram, den_gramE S j h3, hp, DRing.sumN]
    ring

/-- a surface in ℝ³ (3 components, 2 logical directions): |∂₁F × ∂₂F|² -/
theorem detGram_surface (S : DRing K) (j : RJac) (hp : j.p = 3) (hl : j.l = 2) (x y : Nat) :
    den S (detGram j (keptCols j.l none)) x y
      = (den S (j.J 1 0) x y * den S (j.J 2 1) x y - den S (j.J 2 0) x y * den S (j.J 1 1) x y) ^ 2
        + (den S (j.J 2 0) x y * den S (j.J 0 1) x y - den S (j.J 0 0) x y * den S (j.J 2 1) x y) ^ 2
        + (den S (j.J 0 0) x y * den S (j.J 1 1) x y - den S (j.J 1 0) x y * den S (j.J 0 1) x y) ^ 2 := by
  have h3 : j.p ≤ 3 := by omega
  simp only [hl, keptCols, List.range, List.range.loop, detGram, den_sub, den_mul2, den_gramE S j h3, hp, DRing.sumN]
  ring

/-- the two tangents kept on the face `axis = a` of a 3-D patch -/
def faceCols3 : Nat → Nat × Nat
  | 0 => (1, 2)
  | 1 => (0, 2)
  | _ => (0, 1)

/-- face of a 3-D patch: |t₁ × t₂|² for the two remaining tangents -/
theorem detGram_face3 (S : DRing K) (j : RJac) (hp : j.p = 3) (hl : j.l = 3) (a : Nat) (ha : a < 3) (x y : Nat) :
    let k1 := (faceCols3 a).1; let k2 := (faceCols3 a).2
    den S (detGram j (keptCols j.l (some a))) x y
      = (den S (j.J 1 k1) x y * den S (j.J 2 k2) x y - den S (j.J 2 k1) x y * den S (j.J 1 k2) x y) ^ 2
        + (den S (j.J 2 k1) x y * den S (j.J 0 k2) x y - den S (j.J 0 k1) x y * den S (j.J 2 k2) x y) ^ 2
        + (den S (j.J 0 k1) x y * den S (j.J 1 k2) x y - den S (j.J 1 k1) x y * den S (j.J 0 k2) x y) ^ 2 := by
  have h3 : j.p ≤ 3 := by omega
  match a, ha with
  | 0, _ =>
    simp [faceCols3, hl, keptCols, List.range, List.range.loop, List.filter, detGram, den_sub, den_mul2,
      den_gramE S j h3, hp, DRing.sumN]
    ring
  | 1, _ =>
    simp [faceCols3, hl, keptCols, List.range, List.range.loop, List.filter, detGram, den_sub, den_mul2,
      den_gramE S j h3, hp, DRing.sumN]
    ring
  | 2, _ =>
    simp [faceCols3, hl, keptCols, List.range, List.range.loop, List.filter, detGram, den_sub, den_mul2,
      den_gramE S j h3, hp, DRing.sumN]
    ring

/-- the element is a square root of the Gram determinant wherever the interpretation of
    `x ↦ x^(1/2)` is one; on the end point of a 1-D patch it is 1 -/
theorem element_sq (S : DRing K) (j : RJac) (axis : Option Nat) (x y : Nat)
    (hl : axis = none ∨ j.l ≠ 1)
    (hsqrt : ∀ v : K, S.rpow v (algebraMap ℚ K ((1 : ℚ) / 2)) * S.rpow v (algebraMap ℚ K ((1 : ℚ) / 2)) = v) :
    den S (element j axis) x y * den S (element j axis) x y = den S (detGram j (keptCols j.l axis)) x y := by
  have he : element j axis = pow (detGram j (keptCols j.l axis)) half := by
    unfold element
    rcases hl with h | h
    · subst h; rfl
    · cases axis with
      | none => rfl
      | some a =>
        split
        · rename_i h1 h2; exact absurd (by simpa using h2) h
        · rfl
  rw [he]
  have : den S (pow (detGram j (keptCols j.l axis)) half) x y
      = S.rpow (den S (detGram j (keptCols j.l axis)) x y) (algebraMap ℚ K ((1 : ℚ) / 2)) := by
    simp only [den, half]
    rw [powSem_none S _ _ _ (by simp [intLit])]
    simp
  rw [this, hsqrt]

theorem element_endpoint (j : RJac) (a : Nat) (hl : j.l = 1) : element j (some a) = one := by
  simp [element, hl]

/-! ### the element in terms of the mapping itself -/

/-- the Jacobian the model computes for a mapping is the matrix of the logical derivatives of its
    components (for every mapping given by expressions or left symbolic) -/
theorem jacobian_is_derivative (S : DRing K) (T : FnTable S) (name : String) (F : List E) (l : Nat) (rj : RJac)
    (h : rjacOf name F l = .ok rj) (hint : ∀ f ∈ F, IntPow f = true) (hnd : ∀ f ∈ F, NonDeg S f)
    (i : Nat) (hi : i < F.length) (k : Nat) (hk : k < l) (x y : Nat) :
    den S (rj.J i k) x y = S.D (lc k) (den S F[i] x y) :=
  rjacOf_is_jacobian S T name F l rj h hint hnd i hi k hk x y

/-- **surface element of a face of a 2-D patch = length of the derivative of the mapping along the
    face**: on the face `axis = a` the Gram determinant is `|∂̂_k F|²` with `k = 1 - a` the direction
    that remains — the restriction of the mapping to the face is a curve parametrised by x̂_k -/
theorem face2_element_of_mapping (S : DRing K) (T : FnTable S) (name : String) (F0 F1 : E) (rj : RJac)
    (h : rjacOf name [F0, F1] 2 = .ok rj) (hint : IntPow F0 = true ∧ IntPow F1 = true)
    (hnd : NonDeg S F0 ∧ NonDeg S F1) (a : Nat) (ha : a < 2) (x y : Nat) :
    den S (detGram rj (keptCols rj.l (some a))) x y
      = S.D (lc (1 - a)) (den S F0 x y) ^ 2 + S.D (lc (1 - a)) (den S F1 x y) ^ 2 := by
  obtain ⟨hp, hl, _⟩ := rjacOf_entries name [F0, F1] 2 rj h
  have hi : ∀ f ∈ [F0, F1], IntPow f = true := by
    intro f hf; simp at hf; rcases hf with rfl | rfl
    · exact hint.1
    · exact hint.2
  have hn : ∀ f ∈ [F0, F1], NonDeg S f := by
    intro f hf; simp at hf; rcases hf with rfl | rfl
    · exact hnd.1
    · exact hnd.2
  rw [detGram_face2 S rj (by simpa using hp) hl a ha x y]
  have e0 := rjacOf_is_jacobian S T name [F0, F1] 2 rj h hi hn 0 (by simp) (1 - a) (by omega) x y
  have e1 := rjacOf_is_jacobian S T name [F0, F1] 2 rj h hi hn 1 (by simp) (1 - a) (by omega) x y
  simp only [List.getElem_cons_zero, List.getElem_cons_succ] at e0 e1
  rw [e0, e1]

/-! ### regions, kernels, patches -/

/-- the transformed integral lives on the same face (axis and side) of the logical patch, and its
    kernel is a transformed integrand times the element of that very region -/
theorem transform_spec (P : Patch) (face : Option (Nat × Int)) (body : E) (f : Option (Nat × Int)) (k : E)
    (h : transform P face body = .ok (f, k)) :
    f = face ∧ ∃ rj lb, rjacOf P.mname P.F P.l = .ok rj ∧ bodyOf P body = .ok lb ∧
      k = mul [lb, element rj (face.map (·.1))] := by
  unfold transform at h
  cases h1 : rjacOf P.mname P.F P.l with
  | error e => simp [h1, bind, Except.bind] at h
  | ok rj =>
    cases h2 : bodyOf P body with
    | error e => simp [h1, h2, bind, Except.bind] at h
    | ok lb =>
      simp only [h1, h2, bind, Except.bind] at h
      injection h with h
      injection h with h3 h4
      exact ⟨h3.symm, rj, lb, rfl, rfl, h4.symm⟩

/-- one integral per member, in the same order -/
theorem transformAll_length (ps : List Patch) (ints : List (Nat × Option (Nat × Int) × E)) :
    (transformAll ps ints).length = ints.length := by
  simp [transformAll]

/-- **each patch with its own mapping**: the n-th result is the transformation of the n-th integral
    with the mapping of the patch that integral lives on (and no other) -/
theorem transformAll_own_mapping (ps : List Patch) (ints : List (Nat × Option (Nat × Int) × E)) (n : Nat)
    (hn : n < ints.length) (P : Patch) (hP : ps[(ints[n]).1]? = some P) :
    (transformAll ps ints)[n]'(by simpa [transformAll] using hn)
      = (transform P (ints[n]).2.1 (ints[n]).2.2).map (fun r => (P.lname, r.1, r.2)) := by
  simp only [transformAll, List.getElem_map]
  rcases hx : ints[n] with ⟨pi, face, body⟩
  simp only [hx] at hP ⊢
  simp only [hP]
  cases transform P face body with
  | error e => rfl
  | ok r => obtain ⟨f, k⟩ := r; rfl

/-- **the kernel has the value of the physical integrand times the element** (square mappings):
    C03 for the integrand, the element of the region as factor -/
theorem integral_kernel_sound (SL SP : DRing K) (T : FnTable SL) (m : String) (j : Jac) (F : Nat → E)
    (κs κv : String → Kind) (R : MapRel SL SP m j F κs κv) (body lb : E) (rj : RJac) (axis : Option Nat)
    (hf : Frag j.d κs κv body = true) (hn : NonDeg SP body) (h : logical m j F body = .ok lb) (x y : Nat) :
    den SL (mul [lb, element rj axis]) x y = den SP body x y * den SL (element rj axis) x y := by
  rw [den_mul2, logical_sound SL SP T m j F κs κv R body lb hf hn h x y]

/-- **surface mappings**: the transformed integrand (coordinates replaced by the mapping components)
    has the value of the integrand at the image point, for every derivative-free integrand -/
theorem surface_integrand_sound (SL SP : DRing K) (p : Nat) (hp : p ≤ 3) (F : Nat → E) (R : SurfRel SL SP p F)
    (e r : E) (hf : SFrag e = true) (h : substCoords p F e = .ok r) (x y : Nat) :
    den SL r x y = den SP e x y :=
  substCoords_sound SL SP p hp F R e hf r h x y

end Sympde.IM
