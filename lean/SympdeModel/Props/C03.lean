/-
  C03 — pull-back to logical coordinates preserves meaning for every space kind.

  `logical` (Model/Pullback.lean) transcribes `LogicalExpr.eval` + `PullBack` + `Covariant` +
  the lowering of the symbolic Jacobian on terminal physical expressions.  `logical_sound`:
  for every expression of the fragment, every mapping with invertible Jacobian (symbolic or
  given by expressions), every dimension 1..3 and every space kind, the transformed expression
  read at a logical point (fields = the pull-backs) has the value of the original expression
  read at the image point — in every pair of differential rings related by `MapRel`
  (Lemmas/PullbackSem.lean), i.e. for all fields and all points.  Derivatives of any order are
  covered: the statement is closed under `pd`.

  Property theorems only; helpers in Lemmas/Pullback.lean, Lemmas/PullbackSem.lean.
-/
import SympdeModel.Lemmas.PullbackSem
import SympdeModel.Lemmas.Piola
import SympdeModel.Lemmas.Piola3
namespace Sympde.PB
open E PD
open DRing (sumN)

variable {K : Type} [CommRing K] [Algebra ℚ K]

/-- list version used by the sum and product cases -/
theorem logicalList_all (SL SP : DRing K) (m : String) (j : Jac) (F : Nat → E) (κs κv : String → Kind)
    (as : List E)
    (ih : ∀ a ∈ as, Frag j.d κs κv a = true → NonDeg SP a → ∀ r, logical m j F a = .ok r →
      IntPow r = true ∧ NonDeg SL r ∧ ∀ x y, den SL r x y = den SP a x y)
    (hf : FragList j.d κs κv as = true) (hn : NonDegList SP as) (rs : List E)
    (h : logicalList m j F as = .ok rs) :
    IntPowList rs = true ∧ NonDegList SL rs ∧
      (∀ x y, denSum SL rs x y = denSum SP as x y) ∧ (∀ x y, denProd SL rs x y = denProd SP as x y) := by
  induction as generalizing rs with
  | nil =>
    simp only [logicalList] at h; injection h with h; subst h
    exact ⟨rfl, trivial, fun _ _ => rfl, fun _ _ => rfl⟩
  | cons a as iha =>
    simp only [logicalList] at h
    simp only [FragList, Bool.and_eq_true] at hf
    cases h1 : logical m j F a with
    | error e => simp [h1, bind, Except.bind] at h
    | ok r =>
      cases h2 : logicalList m j F as with
      | error e => simp [h1, h2, bind, Except.bind] at h
      | ok rs' =>
        simp only [h1, h2, bind, Except.bind] at h
        injection h with h; subst h
        obtain ⟨p1, p3, p4⟩ := ih a (by simp) hf.1 hn.1 r h1
        obtain ⟨q1, q3, q4, q5⟩ := iha (fun x hx => ih x (by simp [hx])) hf.2 hn.2 rs' h2
        exact ⟨by simp [IntPowList, p1, q1], ⟨p3, q3⟩, fun x y => by simp only [denSum, p4, q4],
          fun x y => by simp only [denProd, p4, q5]⟩

/-- **Pull-back soundness**, with the invariants that make it closed under derivatives of any
    order: the transformed expression has integer powers only and is non-degenerate (every
    inverted quantity is invertible) whenever the original is. -/
theorem logical_all (SL SP : DRing K) (T : FnTable SL) (m : String) (j : Jac) (F : Nat → E)
    (κs κv : String → Kind) (R : MapRel SL SP m j F κs κv) (e : E) :
    Frag j.d κs κv e = true → NonDeg SP e → ∀ r, logical m j F e = .ok r →
      IntPow r = true ∧ NonDeg SL r ∧ ∀ x y, den SL r x y = den SP e x y := by
  induction e using E.rec
    (motive_2 := fun as => ∀ a ∈ as, Frag j.d κs κv a = true → NonDeg SP a → ∀ r, logical m j F a = .ok r →
      IntPow r = true ∧ NonDeg SL r ∧ ∀ x y, den SL r x y = den SP a x y) with
  | num p q =>
    intro _ _ r h
    simp only [logical] at h; injection h with h; subst h
    exact ⟨rfl, by simp [NonDeg], fun x y => by simp [den]⟩
  | cst s =>
    intro _ _ r h
    simp only [logical] at h; injection h with h; subst h
    exact ⟨rfl, by simp [NonDeg], fun x y => by simp [den, R.cst_eq]⟩
  | sym s =>
    intro hf _ r h
    simp only [Frag, Bool.not_eq_true'] at hf
    simp only [logical] at h
    cases hp : physIdx s with
    | none =>
      simp only [hp] at h; injection h with h; subst h
      refine ⟨rfl, by simp [NonDeg], fun x y => ?_⟩
      simp only [den]
      exact (R.sym_other s (fun i hi => by rw [hp] at hi; cases hi) hf).symm
    | some i =>
      simp only [hp] at h
      split at h
      · rename_i hi
        injection h with h; subst h
        refine ⟨R.F_int i, R.F_nd i, fun x y => ?_⟩
        have hs := physIdx_name s i hp (Nat.lt_of_lt_of_le hi R.d_le)
        simp only [den]
        rw [hs]
        exact (R.sym_coord i hi x y).symm
      · rename_i hi
        injection h with h; subst h
        refine ⟨rfl, by simp [NonDeg], fun x y => ?_⟩
        simp only [den]
        refine (R.sym_other s (fun i' hi' => ?_) hf).symm
        rw [hp] at hi'; injection hi' with hi'; subst hi'
        exact Nat.le_of_not_lt hi
  | sf s k =>
    intro hf _ r h
    simp only [Frag, decide_eq_true_eq] at hf
    subst hf
    simp only [logical] at h; injection h with h; subst h
    have hpb := R.sf_pb s
    cases hk : κs s <;> simp only [hk] at hpb ⊢
    all_goals first
      | exact ⟨rfl, by simp [NonDeg], fun x y => by
          have := hpb x y; simp only [den] at this ⊢; exact this.symm⟩
      | exact ⟨IntPow_mul2 _ _ rfl R.invDet_int, NonDeg_mul2 SL _ _ (by simp [NonDeg]) R.invDet_nd,
          fun x y => by have := hpb x y; simp only [den] at this ⊢; exact this.symm⟩
  | vf s k =>
    intro hf; simp [Frag] at hf
  | idx b i _ =>
    intro hf _ r h
    cases b with
    | vf s k =>
      simp only [Frag, Bool.and_eq_true, decide_eq_true_eq] at hf
      obtain ⟨hk, hi⟩ := hf
      subst hk
      simp only [logical, hi, if_true] at h
      injection h with h; subst h
      exact ⟨R.pbVec_int s _ i, R.pbVec_nd s _ i, fun x y => by
        simp only [den]; exact (R.vf_pb s i hi x y).symm⟩
    | _ => simp [Frag] at hf
  | add as ih =>
    intro hf hn r h
    simp only [Frag] at hf
    simp only [NonDeg] at hn
    simp only [logical] at h
    cases hl : logicalList m j F as with
    | error e => simp [hl, bind, Except.bind] at h
    | ok rs =>
      simp only [hl, bind, Except.bind] at h
      injection h with h; subst h
      obtain ⟨p1, q1, q2, _⟩ := logicalList_all SL SP m j F κs κv as ih hf hn rs hl
      exact ⟨by simpa [IntPow] using p1, by simpa [NonDeg] using q1, fun x y => by simp only [den]; exact q2 x y⟩
  | mul as ih =>
    intro hf hn r h
    simp only [Frag] at hf
    simp only [NonDeg] at hn
    simp only [logical] at h
    cases hl : logicalList m j F as with
    | error e => simp [hl, bind, Except.bind] at h
    | ok rs =>
      simp only [hl, bind, Except.bind] at h
      injection h with h; subst h
      obtain ⟨p1, q1, _, q3⟩ := logicalList_all SL SP m j F κs κv as ih hf hn rs hl
      exact ⟨by simpa [IntPow] using p1, by simpa [NonDeg] using q1, fun x y => by simp only [den]; exact q3 x y⟩
  | pow b e ihb _ =>
    intro hf hn r h
    simp only [Frag, Bool.and_eq_true] at hf
    obtain ⟨hlit, hfb⟩ := hf
    cases hl : intLit e with
    | none => simp [hl] at hlit
    | some n =>
      have he := intLit_eq_some hl
      subst he
      simp only [logical] at h
      cases hb : logical m j F b with
      | error err => simp [hb, bind, Except.bind] at h
      | ok lb =>
        simp only [hb, bind, Except.bind] at h
        injection h with h; subst h
        simp only [NonDeg, intLit] at hn
        obtain ⟨p1, q1, q2⟩ := ihb hfb hn.2.1 lb hb
        refine ⟨by simp [IntPow, intLit, p1], ?_, fun x y => ?_⟩
        · simp only [NonDeg, intLit]
          refine ⟨?_, q1, trivial⟩
          cases n with
          | ofNat k => trivial
          | negSucc k =>
            intro x y
            have := hn.1 x y
            rw [q2 x y, ← R.inv_eq]
            exact this
        · simp only [den, q2 x y]
          cases n with
          | ofNat k => simp [powSem, intLit]
          | negSucc k => simp [powSem, intLit, R.inv_eq]
  | fn f a iha =>
    intro hf hn r h
    simp only [Frag] at hf
    simp only [NonDeg] at hn
    simp only [logical] at h
    cases ha : logical m j F a with
    | error err => simp [ha, bind, Except.bind] at h
    | ok la =>
      simp only [ha, bind, Except.bind] at h
      injection h with h; subst h
      obtain ⟨p1, q1, q2⟩ := iha hf hn la ha
      exact ⟨by simpa [IntPow] using p1, by simpa [NonDeg] using q1, fun x y => by simp only [den, q2 x y, R.fn_eq]⟩
  | pd c a iha =>
    intro hf hn r h
    simp only [Frag, Bool.and_eq_true, Bool.not_eq_true', decide_eq_true_eq] at hf
    obtain ⟨⟨hc, hci⟩, hfa⟩ := hf
    simp only [NonDeg] at hn
    simp only [logical, hc, Bool.false_eq_true, if_false, hci, if_true] at h
    cases ha : logical m j F a with
    | error err => simp [ha, bind, Except.bind] at h
    | ok la =>
      simp only [ha, bind, Except.bind] at h
      obtain ⟨p1, q1, q2⟩ := iha hfa hn la ha
      cases h0 : lgrad m j.d la 0 with
      | error err => simp [h0] at h
      | ok g0 =>
        cases h1 : lgrad m j.d la 1 with
        | error err => simp [h0, h1] at h
        | ok g1 =>
          cases h2 : lgrad m j.d la 2 with
          | error err => simp [h0, h1, h2] at h
          | ok g2 =>
            simp only [h0, h1, h2] at h
            injection h with h; subst h
            obtain ⟨r1, r2, r3⟩ := R.pd_case T c hc hci la p1 q1 g0 g1 g2 h0 h1 h2
            refine ⟨r1, r2, fun x y => ?_⟩
            rw [r3 x y, q2 x y]
            simp only [den]
  | op1 o a _ => intro hf; simp [Frag] at hf
  | op2 o a b _ _ => intro hf; simp [Frag] at hf
  | mat r c es _ => intro hf; simp [Frag] at hf
  | tup as _ => intro hf; simp [Frag] at hf
  | normal k => intro hf; simp [Frag] at hf
  | other t as _ => intro hf; simp [Frag] at hf
  | nil => cases ‹_ ∈ []›
  | cons x xs ihx ihxs =>
    rename_i a ha h1 h2 r hr
    rcases List.mem_cons.mp ha with rfl | ha
    · exact ihx h1 h2 r hr
    · exact ihxs a ha h1 h2 r hr

/-- **C03, terminal route.**  For every terminal expression `e` of the physical domain, every
    mapping with invertible Jacobian, every dimension 1–3 and every assignment of space kinds:
    if the transformation returns `r`, then the value of `r` at a logical point — logical
    fields being the pull-backs of the physical ones — is the value of `e` at the image point. -/
theorem logical_sound (SL SP : DRing K) (T : FnTable SL) (m : String) (j : Jac) (F : Nat → E)
    (κs κv : String → Kind) (R : MapRel SL SP m j F κs κv) (e r : E)
    (hf : Frag j.d κs κv e = true) (hn : NonDeg SP e) (h : logical m j F e = .ok r) :
    ∀ x y, den SL r x y = den SP e x y :=
  (logical_all SL SP T m j F κs κv R e hf hn r h).2.2

/-! ### The commuting relations: the operator-level rules of `LogicalExpr.eval`

`divRule`, `curlRule`, `gradRule` (Model/Pullback.lean) are what `LogicalExpr.eval` returns for
`div(u)`, `curl(u)`, `grad(u)` of a field of the matching kind.  Each denotes the classical
operator applied to the *physical* field (built from physical derivatives), for every mapping whose
Jacobian has symmetric derivatives (`J i l = ∂̂_l F_i`) and invertible determinant. -/

/-- `grad(u)`, `u` scalar H1/undefined: component `i` of `J⁻ᵀ ∇̂ û` is `∂_i u` -/
theorem grad_rule_sound (SL SP : DRing K) (m : String) (j : Jac) (F : Nat → E) (κs κv : String → Kind)
    (R : MapRel SL SP m j F κs κv) (s : String) (hk : κs s ≠ .l2) (i : Nat) (hi : i < j.d) (x y : Nat) :
    den SL (gradRule j s (κs s) i) x y = SP.D (pc i) (SP.sf s) := by
  have hsf : SP.sf s = SL.sf s := by
    have := R.sf_pb s x y
    cases hks : κs s <;> simp only [hks] at this hk <;> first | (simpa [den] using this) | exact absurd rfl hk
  rw [R.chain i hi (SP.sf s) x y, hsf]
  simp only [gradRule]
  rw [den_sum3 SL j.d R.d_le]
  apply DRing.sumN_congr
  intro l _
  simp only [den_mul2, den_pd, den_sf]

/-- 2-D: `div(u)` for `u ∈ H(div)` is `(1/det) div̂ û` -/
theorem div_rule_sound2 (SL SP : DRing K) (m : String) (j : Jac) (F : Nat → E) (κs κv : String → Kind)
    (R : MapRel SL SP m j F κs κv) (hd : j.d = 2) (s : String) (hk : κv s = .hdiv) (x y : Nat)
    (hs1 : SL.D .x2 (den SL (j.J 0 0) x y) = SL.D .x1 (den SL (j.J 0 1) x y))
    (hs2 : SL.D .x2 (den SL (j.J 1 0) x y) = SL.D .x1 (den SL (j.J 1 1) x y)) :
    den SL (divRule j s) x y = SP.D .x (SP.vf s 0) + SP.D .y (SP.vf s 1) := by
  have hdet := R.det_unit x y
  have hv0 := R.vf_pb s 0 (by omega) x y
  have hv1 := R.vf_pb s 1 (by omega) x y
  have hc0 := fun k => R.chain 0 (by omega) k x y
  have hc1 := fun k => R.chain 1 (by omega) k x y
  simp only [pc, Coord.ofIdx, if_false, Bool.false_eq_true] at hc0 hc1
  rw [hc0, hc1, hv0, hv1]
  simp only [hk, pbVec, divRule, ldiv, hd, sum3, DRing.sumN, den_mul2, den_add2, den_invJ, den_invDet, adjJ,
    detJ, den_sub, den_neg, lc, Coord.ofIdx, if_true, den_pd, den_idx_vf, zero_add] at hdet ⊢
  have key := Piola.div_piola2 SL (den SL (j.J 0 0) x y) (den SL (j.J 0 1) x y) (den SL (j.J 1 0) x y)
    (den SL (j.J 1 1) x y) (SL.inv (den SL (j.J 0 0) x y * den SL (j.J 1 1) x y - den SL (j.J 0 1) x y * den SL (j.J 1 0) x y))
    (SL.vf s 0) (SL.vf s 1) hdet hs1 hs2
  simp only [Piola.dp1, Piola.dp2] at key
  linear_combination -key

/-- 2-D: scalar `curl(u)` for `u ∈ H(curl)` is `(1/det) curl̂ û` -/
theorem curl_rule_sound2 (SL SP : DRing K) (m : String) (j : Jac) (F : Nat → E) (κs κv : String → Kind)
    (R : MapRel SL SP m j F κs κv) (hd : j.d = 2) (s : String) (hk : κv s = .hcurl) (x y : Nat)
    (hs1 : SL.D .x2 (den SL (j.J 0 0) x y) = SL.D .x1 (den SL (j.J 0 1) x y))
    (hs2 : SL.D .x2 (den SL (j.J 1 0) x y) = SL.D .x1 (den SL (j.J 1 1) x y)) :
    den SL (curlRule j s 0) x y = SP.D .x (SP.vf s 1) - SP.D .y (SP.vf s 0) := by
  have hdet := R.det_unit x y
  have hv0 := R.vf_pb s 0 (by omega) x y
  have hv1 := R.vf_pb s 1 (by omega) x y
  have hc0 := fun k => R.chain 0 (by omega) k x y
  have hc1 := fun k => R.chain 1 (by omega) k x y
  simp only [pc, Coord.ofIdx, if_false, Bool.false_eq_true] at hc0 hc1
  simp only [hk, pbVec, hd, sum3, den_mul2, den_add2, den_invJ, den_invDet, adjJ,
    detJ, den_sub, den_neg, den_idx_vf] at hdet hv0 hv1
  have hv0' : SP.vf s 0 = SL.inv (den SL (j.J 0 0) x y * den SL (j.J 1 1) x y - den SL (j.J 0 1) x y * den SL (j.J 1 0) x y)
      * (den SL (j.J 1 1) x y * SL.vf s 0 - den SL (j.J 1 0) x y * SL.vf s 1) := by rw [hv0]; ring
  have hv1' : SP.vf s 1 = SL.inv (den SL (j.J 0 0) x y * den SL (j.J 1 1) x y - den SL (j.J 0 1) x y * den SL (j.J 1 0) x y)
      * (-den SL (j.J 0 1) x y * SL.vf s 0 + den SL (j.J 0 0) x y * SL.vf s 1) := by rw [hv1]; ring
  rw [hc0, hc1, hv0', hv1']
  simp only [curlRule, lcurl2, hd, DRing.sumN, den_mul2, den_invJ, den_invDet, adjJ,
    detJ, den_sub, den_neg, lc, Coord.ofIdx, if_true, den_pd, den_idx_vf, zero_add]
  have key := Piola.curl_piola2 SL (den SL (j.J 0 0) x y) (den SL (j.J 0 1) x y) (den SL (j.J 1 0) x y)
    (den SL (j.J 1 1) x y) (SL.inv (den SL (j.J 0 0) x y * den SL (j.J 1 1) x y - den SL (j.J 0 1) x y * den SL (j.J 1 0) x y))
    (SL.vf s 0) (SL.vf s 1) hdet hs1 hs2
  simp only [Piola.dp1, Piola.dp2] at key
  linear_combination -key

/-- 1-D: `div(u) = u'` for `u ∈ H(div)` is `(1/det) û'` -/
theorem div_rule_sound1 (SL SP : DRing K) (m : String) (j : Jac) (F : Nat → E) (κs κv : String → Kind)
    (R : MapRel SL SP m j F κs κv) (hd : j.d = 1) (s : String) (hk : κv s = .hdiv) (x y : Nat) :
    den SL (divRule j s) x y = SP.D .x (SP.vf s 0) := by
  have hdet := R.det_unit x y
  have hv0 := R.vf_pb s 0 (by omega) x y
  have hc0 := fun k => R.chain 0 (by omega) k x y
  simp only [pc, Coord.ofIdx, if_false, Bool.false_eq_true] at hc0
  rw [hc0, hv0]
  simp only [hk, pbVec, divRule, ldiv, hd, sum3, DRing.sumN, den_mul2, den_invJ, den_invDet, adjJ,
    detJ, lc, Coord.ofIdx, if_true, den_pd, den_idx_vf, zero_add, den_one, one_mul] at hdet ⊢
  rw [SL.D_mul, SL.D_mul, SL.D_inv_of_mul_eq_one _ _ _ hdet]
  linear_combination (-(SL.inv (den SL (j.J 0 0) x y) * SL.D .x1 (SL.vf s 0))
    + SL.inv (den SL (j.J 0 0) x y) ^ 2 * SL.D .x1 (den SL (j.J 0 0) x y) * SL.vf s 0) * hdet

/-- 3-D: `div(u)` for `u ∈ H(div)` is `(1/det) div̂ û` -/
theorem div_rule_sound3 (SL SP : DRing K) (m : String) (j : Jac) (F : Nat → E) (κs κv : String → Kind)
    (R : MapRel SL SP m j F κs κv) (hd : j.d = 3) (s : String) (hk : κv s = .hdiv) (x y : Nat)
    (hsym : ∀ i l l', SL.D (lc l') (den SL (j.J i l) x y) = SL.D (lc l) (den SL (j.J i l') x y)) :
    den SL (divRule j s) x y = SP.D .x (SP.vf s 0) + SP.D .y (SP.vf s 1) + SP.D .z (SP.vf s 2) := by
  have hdet := R.det_unit x y
  have hv0 := R.vf_pb s 0 (by omega) x y
  have hv1 := R.vf_pb s 1 (by omega) x y
  have hv2 := R.vf_pb s 2 (by omega) x y
  have hc0 := fun k => R.chain 0 (by omega) k x y
  have hc1 := fun k => R.chain 1 (by omega) k x y
  have hc2 := fun k => R.chain 2 (by omega) k x y
  simp only [pc, Coord.ofIdx, if_false, Bool.false_eq_true] at hc0 hc1 hc2
  have hdet3 : Piola.det3 (den SL (j.J 0 0) x y) (den SL (j.J 0 1) x y) (den SL (j.J 0 2) x y) (den SL (j.J 1 0) x y) (den SL (j.J 1 1) x y) (den SL (j.J 1 2) x y) (den SL (j.J 2 0) x y) (den SL (j.J 2 1) x y) (den SL (j.J 2 2) x y) = den SL (detJ j) x y := by
    simp only [Piola.det3, detJ, hd, den_add3, den_mul2, den_sub, den_neg]; ring
  have h : Piola.det3 (den SL (j.J 0 0) x y) (den SL (j.J 0 1) x y) (den SL (j.J 0 2) x y) (den SL (j.J 1 0) x y) (den SL (j.J 1 1) x y) (den SL (j.J 1 2) x y) (den SL (j.J 2 0) x y) (den SL (j.J 2 1) x y) (den SL (j.J 2 2) x y) * SL.inv (den SL (detJ j) x y) = 1 := by rw [hdet3]; exact hdet
  rw [hc0, hc1, hc2, hv0, hv1, hv2]
  simp only [hk, pbVec, divRule, ldiv, hd, sum3, DRing.sumN, den_mul2, den_add3, den_invJ, den_invDet, adjJ,
    den_sub, den_neg, lc, Coord.ofIdx, if_true, den_pd, den_idx_vf, zero_add]
  have key := Piola.div_piola3 SL (den SL (j.J 0 0) x y) (den SL (j.J 0 1) x y) (den SL (j.J 0 2) x y) (den SL (j.J 1 0) x y) (den SL (j.J 1 1) x y) (den SL (j.J 1 2) x y) (den SL (j.J 2 0) x y) (den SL (j.J 2 1) x y) (den SL (j.J 2 2) x y) (SL.inv (den SL (detJ j) x y)) (SL.vf s 0) (SL.vf s 1) (SL.vf s 2) h
    (hsym 0 0 1) (hsym 0 0 2) (hsym 0 1 2) (hsym 1 0 1) (hsym 1 0 2) (hsym 1 1 2) (hsym 2 0 1) (hsym 2 0 2) (hsym 2 1 2)
  simp only [Piola.dq1, Piola.dq2, Piola.dq3] at key
  linear_combination -key

/-- 3-D: component 0 of `curl(u)` for `u ∈ H(curl)` is component 0 of `(J/det) curl̂ û` -/
theorem curl_rule_sound3_0 (SL SP : DRing K) (m : String) (j : Jac) (F : Nat → E) (κs κv : String → Kind)
    (R : MapRel SL SP m j F κs κv) (hd : j.d = 3) (s : String) (hk : κv s = .hcurl) (x y : Nat)
    (hsym : ∀ i l l', SL.D (lc l') (den SL (j.J i l) x y) = SL.D (lc l) (den SL (j.J i l') x y)) :
    den SL (curlRule j s 0) x y = SP.D .y (SP.vf s 2) - SP.D .z (SP.vf s 1) := by
  have hdet := R.det_unit x y
  have hv0 := R.vf_pb s 0 (by omega) x y
  have hv1 := R.vf_pb s 1 (by omega) x y
  have hv2 := R.vf_pb s 2 (by omega) x y
  have hc0 := fun k => R.chain 0 (by omega) k x y
  have hc1 := fun k => R.chain 1 (by omega) k x y
  have hc2 := fun k => R.chain 2 (by omega) k x y
  simp only [pc, Coord.ofIdx, if_false, Bool.false_eq_true] at hc0 hc1 hc2
  have hdet3 : Piola.det3 (den SL (j.J 0 0) x y) (den SL (j.J 0 1) x y) (den SL (j.J 0 2) x y) (den SL (j.J 1 0) x y) (den SL (j.J 1 1) x y) (den SL (j.J 1 2) x y) (den SL (j.J 2 0) x y) (den SL (j.J 2 1) x y) (den SL (j.J 2 2) x y) = den SL (detJ j) x y := by
    simp only [Piola.det3, detJ, hd, den_add3, den_mul2, den_sub, den_neg]; ring
  have h : Piola.det3 (den SL (j.J 0 0) x y) (den SL (j.J 0 1) x y) (den SL (j.J 0 2) x y) (den SL (j.J 1 0) x y) (den SL (j.J 1 1) x y) (den SL (j.J 1 2) x y) (den SL (j.J 2 0) x y) (den SL (j.J 2 1) x y) (den SL (j.J 2 2) x y) * SL.inv (den SL (detJ j) x y) = 1 := by rw [hdet3]; exact hdet
  simp only [hk, pbVec, hd, sum3, den_mul2, den_add3, den_invJ, den_invDet, adjJ,
    den_sub, den_neg, den_idx_vf] at hv0 hv1 hv2
  have hv0' : SP.vf s 0 = SL.inv (den SL (detJ j) x y) * (((1) * ((den SL (j.J 1 1) x y) * (den SL (j.J 2 2) x y) - (den SL (j.J 1 2) x y) * (den SL (j.J 2 1) x y))) * SL.vf s 0 + ((-1) * ((den SL (j.J 1 0) x y) * (den SL (j.J 2 2) x y) - (den SL (j.J 1 2) x y) * (den SL (j.J 2 0) x y))) * SL.vf s 1 + ((1) * ((den SL (j.J 1 0) x y) * (den SL (j.J 2 1) x y) - (den SL (j.J 1 1) x y) * (den SL (j.J 2 0) x y))) * SL.vf s 2) := by rw [hv0]; ring
  have hv1' : SP.vf s 1 = SL.inv (den SL (detJ j) x y) * (((-1) * ((den SL (j.J 0 1) x y) * (den SL (j.J 2 2) x y) - (den SL (j.J 0 2) x y) * (den SL (j.J 2 1) x y))) * SL.vf s 0 + ((1) * ((den SL (j.J 0 0) x y) * (den SL (j.J 2 2) x y) - (den SL (j.J 0 2) x y) * (den SL (j.J 2 0) x y))) * SL.vf s 1 + ((-1) * ((den SL (j.J 0 0) x y) * (den SL (j.J 2 1) x y) - (den SL (j.J 0 1) x y) * (den SL (j.J 2 0) x y))) * SL.vf s 2) := by rw [hv1]; ring
  have hv2' : SP.vf s 2 = SL.inv (den SL (detJ j) x y) * (((1) * ((den SL (j.J 0 1) x y) * (den SL (j.J 1 2) x y) - (den SL (j.J 0 2) x y) * (den SL (j.J 1 1) x y))) * SL.vf s 0 + ((-1) * ((den SL (j.J 0 0) x y) * (den SL (j.J 1 2) x y) - (den SL (j.J 0 2) x y) * (den SL (j.J 1 0) x y))) * SL.vf s 1 + ((1) * ((den SL (j.J 0 0) x y) * (den SL (j.J 1 1) x y) - (den SL (j.J 0 1) x y) * (den SL (j.J 1 0) x y))) * SL.vf s 2) := by rw [hv2]; ring
  rw [hc1, hc2, hv2', hv1']
  simp only [curlRule, lcurl3, hd, sum3, DRing.sumN, den_mul2, den_add3, den_invJ, den_invDet, adjJ,
    den_sub, den_neg, lc, Coord.ofIdx, if_true, den_pd, den_idx_vf, zero_add]
  have key := Piola.curl_piola3_1 SL (den SL (j.J 0 0) x y) (den SL (j.J 0 1) x y) (den SL (j.J 0 2) x y) (den SL (j.J 1 0) x y) (den SL (j.J 1 1) x y) (den SL (j.J 1 2) x y) (den SL (j.J 2 0) x y) (den SL (j.J 2 1) x y) (den SL (j.J 2 2) x y) (SL.inv (den SL (detJ j) x y)) (SL.vf s 0) (SL.vf s 1) (SL.vf s 2) h
    (hsym 0 0 1) (hsym 0 0 2) (hsym 0 1 2) (hsym 1 0 1) (hsym 1 0 2) (hsym 1 1 2) (hsym 2 0 1) (hsym 2 0 2) (hsym 2 1 2)
  simp only [Piola.dq1, Piola.dq2, Piola.dq3] at key
  linear_combination -key

/-- 3-D: component 1 of `curl(u)` for `u ∈ H(curl)` is component 1 of `(J/det) curl̂ û` -/
theorem curl_rule_sound3_1 (SL SP : DRing K) (m : String) (j : Jac) (F : Nat → E) (κs κv : String → Kind)
    (R : MapRel SL SP m j F κs κv) (hd : j.d = 3) (s : String) (hk : κv s = .hcurl) (x y : Nat)
    (hsym : ∀ i l l', SL.D (lc l') (den SL (j.J i l) x y) = SL.D (lc l) (den SL (j.J i l') x y)) :
    den SL (curlRule j s 1) x y = SP.D .z (SP.vf s 0) - SP.D .x (SP.vf s 2) := by
  have hdet := R.det_unit x y
  have hv0 := R.vf_pb s 0 (by omega) x y
  have hv1 := R.vf_pb s 1 (by omega) x y
  have hv2 := R.vf_pb s 2 (by omega) x y
  have hc0 := fun k => R.chain 0 (by omega) k x y
  have hc1 := fun k => R.chain 1 (by omega) k x y
  have hc2 := fun k => R.chain 2 (by omega) k x y
  simp only [pc, Coord.ofIdx, if_false, Bool.false_eq_true] at hc0 hc1 hc2
  have hdet3 : Piola.det3 (den SL (j.J 0 0) x y) (den SL (j.J 0 1) x y) (den SL (j.J 0 2) x y) (den SL (j.J 1 0) x y) (den SL (j.J 1 1) x y) (den SL (j.J 1 2) x y) (den SL (j.J 2 0) x y) (den SL (j.J 2 1) x y) (den SL (j.J 2 2) x y) = den SL (detJ j) x y := by
    simp only [Piola.det3, detJ, hd, den_add3, den_mul2, den_sub, den_neg]; ring
  have h : Piola.det3 (den SL (j.J 0 0) x y) (den SL (j.J 0 1) x y) (den SL (j.J 0 2) x y) (den SL (j.J 1 0) x y) (den SL (j.J 1 1) x y) (den SL (j.J 1 2) x y) (den SL (j.J 2 0) x y) (den SL (j.J 2 1) x y) (den SL (j.J 2 2) x y) * SL.inv (den SL (detJ j) x y) = 1 := by rw [hdet3]; exact hdet
  simp only [hk, pbVec, hd, sum3, den_mul2, den_add3, den_invJ, den_invDet, adjJ,
    den_sub, den_neg, den_idx_vf] at hv0 hv1 hv2
  have hv0' : SP.vf s 0 = SL.inv (den SL (detJ j) x y) * (((1) * ((den SL (j.J 1 1) x y) * (den SL (j.J 2 2) x y) - (den SL (j.J 1 2) x y) * (den SL (j.J 2 1) x y))) * SL.vf s 0 + ((-1) * ((den SL (j.J 1 0) x y) * (den SL (j.J 2 2) x y) - (den SL (j.J 1 2) x y) * (den SL (j.J 2 0) x y))) * SL.vf s 1 + ((1) * ((den SL (j.J 1 0) x y) * (den SL (j.J 2 1) x y) - (den SL (j.J 1 1) x y) * (den SL (j.J 2 0) x y))) * SL.vf s 2) := by rw [hv0]; ring
  have hv1' : SP.vf s 1 = SL.inv (den SL (detJ j) x y) * (((-1) * ((den SL (j.J 0 1) x y) * (den SL (j.J 2 2) x y) - (den SL (j.J 0 2) x y) * (den SL (j.J 2 1) x y))) * SL.vf s 0 + ((1) * ((den SL (j.J 0 0) x y) * (den SL (j.J 2 2) x y) - (den SL (j.J 0 2) x y) * (den SL (j.J 2 0) x y))) * SL.vf s 1 + ((-1) * ((den SL (j.J 0 0) x y) * (den SL (j.J 2 1) x y) - (den SL (j.J 0 1) x y) * (den SL (j.J 2 0) x y))) * SL.vf s 2) := by rw [hv1]; ring
  have hv2' : SP.vf s 2 = SL.inv (den SL (detJ j) x y) * (((1) * ((den SL (j.J 0 1) x y) * (den SL (j.J 1 2) x y) - (den SL (j.J 0 2) x y) * (den SL (j.J 1 1) x y))) * SL.vf s 0 + ((-1) * ((den SL (j.J 0 0) x y) * (den SL (j.J 1 2) x y) - (den SL (j.J 0 2) x y) * (den SL (j.J 1 0) x y))) * SL.vf s 1 + ((1) * ((den SL (j.J 0 0) x y) * (den SL (j.J 1 1) x y) - (den SL (j.J 0 1) x y) * (den SL (j.J 1 0) x y))) * SL.vf s 2) := by rw [hv2]; ring
  rw [hc2, hc0, hv0', hv2']
  simp only [curlRule, lcurl3, hd, sum3, DRing.sumN, den_mul2, den_add3, den_invJ, den_invDet, adjJ,
    den_sub, den_neg, lc, Coord.ofIdx, if_true, den_pd, den_idx_vf, zero_add]
  have key := Piola.curl_piola3_2 SL (den SL (j.J 0 0) x y) (den SL (j.J 0 1) x y) (den SL (j.J 0 2) x y) (den SL (j.J 1 0) x y) (den SL (j.J 1 1) x y) (den SL (j.J 1 2) x y) (den SL (j.J 2 0) x y) (den SL (j.J 2 1) x y) (den SL (j.J 2 2) x y) (SL.inv (den SL (detJ j) x y)) (SL.vf s 0) (SL.vf s 1) (SL.vf s 2) h
    (hsym 0 0 1) (hsym 0 0 2) (hsym 0 1 2) (hsym 1 0 1) (hsym 1 0 2) (hsym 1 1 2) (hsym 2 0 1) (hsym 2 0 2) (hsym 2 1 2)
  simp only [Piola.dq1, Piola.dq2, Piola.dq3] at key
  linear_combination -key

/-- 3-D: component 2 of `curl(u)` for `u ∈ H(curl)` is component 2 of `(J/det) curl̂ û` -/
theorem curl_rule_sound3_2 (SL SP : DRing K) (m : String) (j : Jac) (F : Nat → E) (κs κv : String → Kind)
    (R : MapRel SL SP m j F κs κv) (hd : j.d = 3) (s : String) (hk : κv s = .hcurl) (x y : Nat)
    (hsym : ∀ i l l', SL.D (lc l') (den SL (j.J i l) x y) = SL.D (lc l) (den SL (j.J i l') x y)) :
    den SL (curlRule j s 2) x y = SP.D .x (SP.vf s 1) - SP.D .y (SP.vf s 0) := by
  have hdet := R.det_unit x y
  have hv0 := R.vf_pb s 0 (by omega) x y
  have hv1 := R.vf_pb s 1 (by omega) x y
  have hv2 := R.vf_pb s 2 (by omega) x y
  have hc0 := fun k => R.chain 0 (by omega) k x y
  have hc1 := fun k => R.chain 1 (by omega) k x y
  have hc2 := fun k => R.chain 2 (by omega) k x y
  simp only [pc, Coord.ofIdx, if_false, Bool.false_eq_true] at hc0 hc1 hc2
  have hdet3 : Piola.det3 (den SL (j.J 0 0) x y) (den SL (j.J 0 1) x y) (den SL (j.J 0 2) x y) (den SL (j.J 1 0) x y) (den SL (j.J 1 1) x y) (den SL (j.J 1 2) x y) (den SL (j.J 2 0) x y) (den SL (j.J 2 1) x y) (den SL (j.J 2 2) x y) = den SL (detJ j) x y := by
    simp only [Piola.det3, detJ, hd, den_add3, den_mul2, den_sub, den_neg]; ring
  have h : Piola.det3 (den SL (j.J 0 0) x y) (den SL (j.J 0 1) x y) (den SL (j.J 0 2) x y) (den SL (j.J 1 0) x y) (den SL (j.J 1 1) x y) (den SL (j.J 1 2) x y) (den SL (j.J 2 0) x y) (den SL (j.J 2 1) x y) (den SL (j.J 2 2) x y) * SL.inv (den SL (detJ j) x y) = 1 := by rw [hdet3]; exact hdet
  simp only [hk, pbVec, hd, sum3, den_mul2, den_add3, den_invJ, den_invDet, adjJ,
    den_sub, den_neg, den_idx_vf] at hv0 hv1 hv2
  have hv0' : SP.vf s 0 = SL.inv (den SL (detJ j) x y) * (((1) * ((den SL (j.J 1 1) x y) * (den SL (j.J 2 2) x y) - (den SL (j.J 1 2) x y) * (den SL (j.J 2 1) x y))) * SL.vf s 0 + ((-1) * ((den SL (j.J 1 0) x y) * (den SL (j.J 2 2) x y) - (den SL (j.J 1 2) x y) * (den SL (j.J 2 0) x y))) * SL.vf s 1 + ((1) * ((den SL (j.J 1 0) x y) * (den SL (j.J 2 1) x y) - (den SL (j.J 1 1) x y) * (den SL (j.J 2 0) x y))) * SL.vf s 2) := by rw [hv0]; ring
  have hv1' : SP.vf s 1 = SL.inv (den SL (detJ j) x y) * (((-1) * ((den SL (j.J 0 1) x y) * (den SL (j.J 2 2) x y) - (den SL (j.J 0 2) x y) * (den SL (j.J 2 1) x y))) * SL.vf s 0 + ((1) * ((den SL (j.J 0 0) x y) * (den SL (j.J 2 2) x y) - (den SL (j.J 0 2) x y) * (den SL (j.J 2 0) x y))) * SL.vf s 1 + ((-1) * ((den SL (j.J 0 0) x y) * (den SL (j.J 2 1) x y) - (den SL (j.J 0 1) x y) * (den SL (j.J 2 0) x y))) * SL.vf s 2) := by rw [hv1]; ring
  have hv2' : SP.vf s 2 = SL.inv (den SL (detJ j) x y) * (((1) * ((den SL (j.J 0 1) x y) * (den SL (j.J 1 2) x y) - (den SL (j.J 0 2) x y) * (den SL (j.J 1 1) x y))) * SL.vf s 0 + ((-1) * ((den SL (j.J 0 0) x y) * (den SL (j.J 1 2) x y) - (den SL (j.J 0 2) x y) * (den SL (j.J 1 0) x y))) * SL.vf s 1 + ((1) * ((den SL (j.J 0 0) x y) * (den SL (j.J 1 1) x y) - (den SL (j.J 0 1) x y) * (den SL (j.J 1 0) x y))) * SL.vf s 2) := by rw [hv2]; ring
  rw [hc0, hc1, hv1', hv0']
  simp only [curlRule, lcurl3, hd, sum3, DRing.sumN, den_mul2, den_add3, den_invJ, den_invDet, adjJ,
    den_sub, den_neg, lc, Coord.ofIdx, if_true, den_pd, den_idx_vf, zero_add]
  have key := Piola.curl_piola3_3 SL (den SL (j.J 0 0) x y) (den SL (j.J 0 1) x y) (den SL (j.J 0 2) x y) (den SL (j.J 1 0) x y) (den SL (j.J 1 1) x y) (den SL (j.J 1 2) x y) (den SL (j.J 2 0) x y) (den SL (j.J 2 1) x y) (den SL (j.J 2 2) x y) (SL.inv (den SL (detJ j) x y)) (SL.vf s 0) (SL.vf s 1) (SL.vf s 2) h
    (hsym 0 0 1) (hsym 0 0 2) (hsym 0 1 2) (hsym 1 0 1) (hsym 1 0 2) (hsym 1 1 2) (hsym 2 0 1) (hsym 2 0 2) (hsym 2 1 2)
  simp only [Piola.dq1, Piola.dq2, Piola.dq3] at key
  linear_combination -key

end Sympde.PB
