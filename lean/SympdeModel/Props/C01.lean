/-
  C01 — lowering to partial-derivative form preserves the meaning of expressions.

  The component formulas of every dimension-specific class are regenerated from the current
  source (Gen/Leaf.lean) and each well-typed entry is proved equal to the classical definition
  in every differential ring (Gen/LeafThms.lean: `leaf_<Class>_<signature>`, collected in the
  uniform index `leaf_index`, plus `fragment_total`: no entry of the supported fragment is missing
  or raises).  This file states the theorems about the dispatcher model `Lower.lower`; the main
  one, `lower_sound`, is the structural induction that ties the leaf theorems together
  (helpers: Lemmas/Lower.lean, LowerOps.lean, LowerLeaf.lean, LowerStep1.lean, LowerStep2.lean,
  LowerInd.lean).
-/
import SympdeModel.Model.Lower
import SympdeModel.Sem.DenG
import SympdeModel.Gen.LeafThms
import SympdeModel.Lemmas.LowerInd
import SympdeModel.Lemmas.LowerXInd
namespace Sympde.Lower
open E

variable {K : Type} [CommRing K] [Algebra ℚ K]

/-- a scalar function is lowered to itself, a vector function to the column of its components -/
theorem lower_sf (d : Nat) (lg : Bool) (s : String) (k : Kind) : lower d lg (sf s k) = .ok (sf s k) := by
  simp [lower]

theorem lower_vf_den (S : DRing K) (d : Nat) (lg : Bool) (s : String) (k : Kind) (i : Nat) (hi : i < d) :
    ∃ t, lower d lg (vf s k) = .ok t ∧ den S t i 0 = denG S d lg (vf s k) i 0 := by
  refine ⟨mat d 1 ((List.range d).map (fun i => idx (vf s k) i)), by simp [lower], ?_⟩
  simp only [den, denG]
  have key : ∀ (n : Nat) (l : List Nat) (f : Nat → E), n < l.length →
      denNth S (l.map f) n = den S (f (l[n]!)) 0 0 := by
    intro n l f
    induction l generalizing n with
    | nil => intro h; simp at h
    | cons x l ih =>
      intro h
      cases n with
      | zero => simp [denNth]
      | succ n =>
        simp only [List.map, denNth]
        rw [ih n (by simpa using h)]
        simp
  have hlen : i < (List.range d).length := by simp [hi]
  simp only [hi, Nat.zero_lt_one, and_self, if_true, Nat.mul_one, Nat.add_zero]
  rw [key i (List.range d) _ hlen]
  simp [hi, den]

/-- lowering of a sum of two scalars / of a product of two scalars is the sum / product -/
theorem addV_scalar_den (S : DRing K) (a b : E) (ha : isMat a = false) (hb : isMat b = false)
    (hta : ∀ l, a ≠ tup l) (htb : ∀ l, b ≠ tup l) (i j : Nat) :
    ∃ t, addV a b = .ok t ∧ den S t i j = den S a i j + den S b i j := by
  have h : addV a b = .ok (add [a, b]) := by
    cases a <;> cases b <;>
      first
      | rfl
      | exact absurd rfl (hta _)
      | exact absurd rfl (htb _)
      | exact absurd ha (fun h => Bool.noConfusion h)
      | exact absurd hb (fun h => Bool.noConfusion h)
  exact ⟨_, h, by simp [den, denSum]⟩

/-- a class that does not exist (e.g. `Outer_2d`, `Convect_3d`) is a `NameError`, never a value -/
theorem unknown_class_refused (d : Nat) (cname : String) (args : List E) (h : classKnown cname = false) :
    applyLeaf d cname args = .error .nameError := by
  simp [applyLeaf, h]

/-! ### the structural induction

  **Fragment** (`WT d e`, decidable: `ty d e` computes the type — scalar `s`, vector `v`,
  matrix `m` — or `none`; Lemmas/LowerInd.lean): numbers, constants, coordinates and parameters
  (`sym`), scalar functions, vector functions and their components `F[i]`, non-empty n-ary sums of
  terms of one type, non-empty n-ary products with at most one non-scalar factor (scalar multiples
  of vectors and matrices, in any position), and the generic operators

      grad  : s → v, v → m          div   : v → s, m → v        laplace : s → s, v → v
      curl  : v → v (3D), v → s (2D)   rot : s → v (2D)          hessian : s → m
      dot   : v·v → s, m·v → v, v·m → v     cross : v×v → v (3D), → s (2D)
      inner : v:v → s, m:m → s              bracket : s,s → s (2D)

  applied to *arbitrary* well-typed arguments of the fragment (operators nest to any depth, e.g.
  `div(grad(x*f))`, `laplace(curl(F))`, `dot(grad(F), G)`), on mapped (`lg = false`, operators
  dx dy dz) and unmapped (`lg = true`, dx1 dx2 dx3) domains of dimension 1, 2, 3.

  **Statement**: whenever the dispatcher returns a value `t` for such an `e`, every component of
  `t` equals the classical definition `denG` of `e` in every differential ring `S` (every choice of
  smooth functions, at every point), and `t` has the shape of the type of `e`.

  The components of a scalar are all `(i, j)` (both sides ignore the indices), of a vector
  `(i, 0)` with `i < d`, of a matrix `(i, j)` with `i, j < d`.  The restriction to these indices is
  necessary, not a weakness of the proof: outside them `den` of a `d×1` / `d×d` matrix node is `0`
  by definition while `denG` keeps following the formula (`denG (grad f) 2 0` is `∂_z f` also when
  `d = 2`), so "for all i j" is false for every vector- or matrix-valued expression.

  Not covered (the typing gives `none`): `pow`, elementary functions, `Abs`, the interface
  operators `minus`/`plus`/`jump`/`avg`/`dn`, literal `mat`/`tup`/`pd` nodes in the *input*,
  `laplace`/`grad` of a matrix, `outer`, `convect` (no leaf class exists: `unknown_class_refused`),
  products of two non-scalar factors (sympy's matrix product is not the entry-wise product `denG`
  gives to `mul`), dimensions other than 1, 2, 3.

  **Totality** ("on the supported operator fragment lowering does not fail"): `lower_total_all` —
  in dimension 1, 2 and 3 the dispatcher returns a value for every expression of the fragment
  (every covered class exists and returns a formula, its derivative nodes are never refused on
  lowered arguments, sums and products meet values of matching shapes).  In dimension 1 this became
  true with the repair of finding C01-1d-mixed (`fix:` commit in evaluation.py, `Add` branch: a
  scalar form and a 1×1 matrix are added as 1×1 matrices; mirrored in `addV`): the former
  counterexample `grad(h) + F` is now the example `lower_1d_mixed_fixed`.  `lower_total` (d = 2, 3)
  is kept as the special case; `lower_sound_total_all` is the combined statement.
-/

/-- the covered fragment: the generic expressions `ty` gives a type to -/
def WT (d : Nat) (e : E) : Bool := (ty d e).isSome

/-- the components of the value of `e` in dimension `d` -/
def Comp (d : Nat) (e : E) (i j : Nat) : Prop :=
  match ty d e with
  | some .s => True
  | some .v => i < d ∧ j = 0
  | some .m => i < d ∧ j < d
  | none => False

/-- **C01, main theorem.**  On the covered fragment, in dimension 1, 2 or 3, with physical or
    logical operators: if lowering returns `t` then `t` denotes, component by component, the
    classical meaning of `e` — in every differential ring. -/
theorem lower_sound (S : DRing K) (d : Nat) (hd : d = 1 ∨ d = 2 ∨ d = 3) (lg : Bool) (e t : E)
    (hwt : WT d e = true) (h : lower d lg e = .ok t) :
    ∀ i j, Comp d e i j → den S t i j = denG S d lg e i j := by
  intro i j hc
  unfold WT at hwt
  cases hτ : ty d e with
  | none => rw [hτ] at hwt; cases hwt
  | some τ =>
    have g := lower_ty_sound S d hd lg e τ t hτ h
    unfold Comp at hc
    rw [hτ] at hc
    cases τ with
    | s =>
      have hd1 : 1 ≤ d := by omega
      rw [den_LS_free S t (hasShape_s_LS d t g.1) i j, g.2 0 0 (InR_zero_zero d hd1 _),
        ty_indexFree S d lg e hτ i j]
    | v => exact g.2 i j hc
    | m => exact g.2 i j hc

/-- … and the lowered value has the shape of the type: a scalar form (no matrix node), a `d×1`
    column of scalar forms, a `d×d` matrix of scalar forms (in dimension 1 a vector or matrix may
    also come back as a bare scalar form) -/
theorem lower_shape (d : Nat) (hd : d = 1 ∨ d = 2 ∨ d = 3) (lg : Bool) (e t : E) (τ : Ty)
    (hτ : ty d e = some τ) (h : lower d lg e = .ok t) : hasShape d τ t = true :=
  lower_ty_shape d hd lg e τ t hτ h

/-- **Totality (d = 2, 3).**  On the covered fragment lowering does not fail. -/
theorem lower_total (d : Nat) (hd : d = 2 ∨ d = 3) (lg : Bool) (e : E) (hwt : WT d e = true) :
    ∃ t, lower d lg e = .ok t := by
  unfold WT at hwt
  cases hτ : ty d e with
  | none => rw [hτ] at hwt; cases hwt
  | some τ => exact lower_ty_total d hd lg e τ hτ

/-- value, shape and totality together, in dimension 2 and 3: lowering a well-typed expression of
    the fragment returns a value of the shape of its type whose components are the classical ones -/
theorem lower_sound_total (S : DRing K) (d : Nat) (hd : d = 2 ∨ d = 3) (lg : Bool) (e : E) (τ : Ty)
    (hτ : ty d e = some τ) :
    ∃ t, lower d lg e = .ok t ∧ hasShape d τ t = true ∧
      ∀ i j, Comp d e i j → den S t i j = denG S d lg e i j := by
  obtain ⟨t, ht⟩ := lower_ty_total d hd lg e τ hτ
  exact ⟨t, ht, lower_ty_shape d (Or.inr hd) lg e τ t hτ ht,
    lower_sound S d (Or.inr hd) lg e t (by simp [WT, hτ]) ht⟩

/-- **Totality (d = 1, 2, 3).**  On the covered fragment lowering does not fail — in dimension 1
    since the repair of the `Add` branch (finding C01-1d-mixed, fixed). -/
theorem lower_total_all (d : Nat) (hd : d = 1 ∨ d = 2 ∨ d = 3) (lg : Bool) (e : E)
    (hwt : WT d e = true) : ∃ t, lower d lg e = .ok t := by
  unfold WT at hwt
  cases hτ : ty d e with
  | none => rw [hτ] at hwt; cases hwt
  | some τ => exact lower_ty_total_all d hd lg e τ hτ

/-- value, shape and totality together, in dimension 1, 2 and 3 -/
theorem lower_sound_total_all (S : DRing K) (d : Nat) (hd : d = 1 ∨ d = 2 ∨ d = 3) (lg : Bool)
    (e : E) (τ : Ty) (hτ : ty d e = some τ) :
    ∃ t, lower d lg e = .ok t ∧ hasShape d τ t = true ∧
      ∀ i j, Comp d e i j → den S t i j = denG S d lg e i j := by
  obtain ⟨t, ht⟩ := lower_ty_total_all d hd lg e τ hτ
  exact ⟨t, ht, lower_ty_shape d hd lg e τ t hτ ht,
    lower_sound S d hd lg e t (by simp [WT, hτ]) ht⟩

set_option maxRecDepth 100000 in
/-- the witness of the former open finding C01-1d-mixed (key `corpus:1d grad(h)+F`): in 1D the
    gradient of a scalar is lowered to the bare scalar `dx(h)` while `F` is lowered to the 1×1 matrix
    `[[F[0]]]`; their sum was a `TypeError`, it is now the 1×1 matrix `[[dx(h) + F[0]]]`, whose
    component is the classical one -/
theorem lower_1d_mixed_fixed (S : DRing K) (lg : Bool) :
    ∃ t, lower 1 lg (add [op1 .grad (sf "h" .h1), vf "F" .h1]) = .ok t ∧
      den S t 0 0 = Di S lg 0 (S.sf "h") + S.vf "F" 0 := by
  obtain ⟨t, ht⟩ := lower_total_all 1 (Or.inl rfl) lg (add [op1 .grad (sf "h" .h1), vf "F" .h1])
    (by decide)
  refine ⟨t, ht, ?_⟩
  rw [lower_sound S 1 (Or.inl rfl) lg _ t (by decide) ht 0 0 (show 0 < 1 ∧ 0 = 0 from ⟨by decide, rfl⟩)]
  simp [denG, denGSum, rank]

/-- the operator applications directly on atoms, for every (class, signature) pair of the
    generated index, are instances: e.g. the gradient of a scalar function -/
theorem lower_grad_atom_sound (S : DRing K) (d : Nat) (hd : d = 1 ∨ d = 2 ∨ d = 3) (lg : Bool)
    (f : String) (k : Kind) (t : E) (h : lower d lg (op1 .grad (sf f k)) = .ok t) (i : Nat) (hi : i < d) :
    den S t i 0 = Di S lg i (S.sf f) := by
  have := lower_sound S d hd lg _ t (by simp [WT, ty, ty1]) h i 0 (by simp [Comp, ty, ty1, hi])
  rw [this]
  simp [denG, rank]

/-! ### non-vacuity: the theorem applies to concrete expressions, and lowering does return a value -/

example : WT 2 (op1 .grad (mul [sf "f" .h1, sf "g" .h1])) = true := by decide
example : WT 2 (op1 .div (vf "F" .hdiv)) = true := by decide
example : WT 3 (op1 .div (op1 .grad (mul [sym "x1", sf "f" .h1]))) = true := by decide
example : WT 3 (op2 .dot (op1 .curl (vf "F" .hcurl)) (mul [sf "f" .h1, op1 .grad (sf "g" .h1)])) = true := by
  decide
example : WT 2 (pow (sf "f" .h1) (num 2 1)) = false := by decide

set_option maxRecDepth 100000 in
/-- grad(f g) in 2D: lowering returns the column of the two product-rule expressions, and each
    component is the derivative of the product -/
example (S : DRing K) :
    ∃ t, lower 2 false (op1 .grad (mul [sf "f" .h1, sf "g" .h1])) = .ok t ∧
      ∀ i, i < 2 → den S t i 0 = Di S false i (S.sf "f" * S.sf "g") := by
  have h : lower 2 false (op1 .grad (mul [sf "f" .h1, sf "g" .h1])) = .ok _ := rfl
  refine ⟨_, h, fun i hi => ?_⟩
  rw [lower_sound S 2 (by decide) false _ _ (by decide) h i 0 (show i < 2 ∧ 0 = 0 from ⟨hi, rfl⟩)]
  simp [denG, denGProd, rank, rankMax]

set_option maxRecDepth 100000 in
/-- div(F) in 2D -/
example (S : DRing K) :
    ∃ t, lower 2 false (op1 .div (vf "F" .hdiv)) = .ok t ∧
      ∀ i j, den S t i j = S.D .x (S.vf "F" 0) + S.D .y (S.vf "F" 1) := by
  have h : lower 2 false (op1 .div (vf "F" .hdiv)) = .ok _ := rfl
  refine ⟨_, h, fun i j => ?_⟩
  rw [lower_sound S 2 (by decide) false _ _ (by decide) h i j (show True from trivial)]
  simp [denG, rank, DRing.sumN, Di, Coord.ofIdx]

/-! ### the fragment with scalar powers, quotients and elementary functions

  `WT' d e` (decidable: `tyk d e 0`, Lemmas/LowerXInd.lean) extends `WT d e` by the scalar nodes

  * `pow b e` — `b`, `e` scalar expressions of the fragment (so: integer powers `u**2`, quotients
    `f / g = f * g**(-1)`, square roots and other rational powers `u**(1/2)`, variable exponents
    `u**v`); the base may contain operators (`(1 + dot(grad v, grad v))**(-1)`), the exponent is a
    number literal or any expression that is not *headed* by an operator (`headStable`: then the
    lowered exponent is an integer literal exactly when the exponent itself is one);
  * `f(a)` for an elementary function — `a` any scalar expression of the fragment, operators
    included (`sin(div F)`, `exp(dot(grad v, grad v))`, `Abs(div F)`): since the `fix:` commit
    (finding C01-function-argument-not-lowered) the dispatcher lowers the argument of every
    elementary function, before it only did so for `Abs` and `sin(div F)` kept `Div(F)` inside.
    If an operator differentiates `f(a)`, `f` must be one of sin cos exp log sinh cosh tan (the
    derivative table of the model of `sympy.diff`; so `Abs` is never differentiated).  When the
    lowered argument contains a *field* (`sin(u)`, `exp(u)`), the coordinate operators refuse to
    differentiate it (`NotImplementedError`, as the code does): such trees are in the fragment, and
    the theorem — which speaks of the values that ARE returned — holds for them vacuously
    (example below: `laplace(exp(u))`); when it is a coordinate expression (`sin(x)`,
    `exp(x*y)`), a value is returned and the theorem applies.

  The typing carries a *derivative budget* `k` (how many derivatives will still be applied to the
  lowered value: `grad`, `div`, `curl`, `rot`, `bracket` add 1 to the budget of their arguments,
  `laplace`, `hessian` add 2, `dot`, `cross`, `inner` add 0; operators nest to any depth).

  **Hypotheses of `lower_sound_ext`** (both are genuinely needed; neither is needed on `WT`):
  * `T : FnTable S` — the ring interprets sin, cos, exp, log, sinh, cosh, tan with their classical
    derivatives (as in C05);
  * `NDG S d lg e 0` — non-degeneracy: for every power `b ^ e'` that ends up under `k` derivatives,
    `e'` is a literal `n ≥ k` (then no negative exponent is ever reached), or `k = 0`, or `b` is
    invertible at every component (with inverse `S.inv`); the argument of a differentiated `log`
    is invertible; `tan a` differentiated more than three times is invertible.  So `grad(u**2)`,
    `laplace(u**2)`, `div(u**3 * F)` need nothing, `grad(f/g)` needs `g` invertible,
    `grad(sqrt(u))` needs `u` invertible — exactly the classical side conditions.  The model of
    the product and power rules is exact without them only as long as no `b**(-1)` is differentiated.

  Still excluded: vector- or matrix-valued bases/exponents/function arguments; exponents headed by
  an operator (`u**div(F)`) or by a one-term sum/product; `Abs` and functions outside the table
  under a derivative; `minus`/`plus`/…, input `mat`/`tup`/`pd` nodes, `outer`, `convect`, products
  of two non-scalars (as for `WT`).
  Totality is NOT claimed on `WT'` (`dx(sin(u))` is refused): `lower_total_all` stays on `WT`.
-/

/-- the extended fragment -/
def WT' (d : Nat) (e : E) : Bool := (tyk d e 0).isSome

/-- the components of the value of an expression of the extended fragment -/
def Comp' (d : Nat) (e : E) (i j : Nat) : Prop :=
  match tyk d e 0 with
  | some .s => True
  | some .v => i < d ∧ j = 0
  | some .m => i < d ∧ j < d
  | none => False

/-- **C01 on the fragment with powers, quotients and elementary functions.**  Whenever lowering
    returns `t`, `t` denotes, component by component, the classical meaning of `e`. -/
theorem lower_sound_ext (S : DRing K) (T : FnTable S) (d : Nat) (hd : d = 1 ∨ d = 2 ∨ d = 3) (lg : Bool)
    (e t : E) (hwt : WT' d e = true) (hnd : NDG S d lg e 0) (h : lower d lg e = .ok t) :
    ∀ i j, Comp' d e i j → den S t i j = denG S d lg e i j := by
  intro i j hc
  unfold WT' at hwt
  cases hτ : tyk d e 0 with
  | none => rw [hτ] at hwt; cases hwt
  | some τ =>
    have g := lower_tyk_sound S T d hd lg e 0 τ t hτ hnd h
    unfold Comp' at hc
    rw [hτ] at hc
    cases τ with
    | s => exact GoodX_scalar S d (by omega) lg 0 e t hτ g i j
    | v => exact g.2.2 i j hc
    | m => exact g.2.2 i j hc

/-- … and the lowered value has the shape of the type (over the extended scalar forms) -/
theorem lower_shape_ext (S : DRing K) (T : FnTable S) (d : Nat) (hd : d = 1 ∨ d = 2 ∨ d = 3) (lg : Bool)
    (e t : E) (τ : Ty) (hτ : tyk d e 0 = some τ) (hnd : NDG S d lg e 0) (h : lower d lg e = .ok t) :
    hasShapeX d τ t = true :=
  (lower_tyk_sound S T d hd lg e 0 τ t hτ hnd h).1

/-- the extended fragment contains the old one, with the same types and components, and there the
    non-degeneracy hypothesis is void -/
theorem WT_ext_of_WT (d : Nat) (e : E) (h : WT d e = true) : WT' d e = true := by
  unfold WT at h
  cases hτ : ty d e with
  | none => rw [hτ] at h; cases h
  | some τ => simp [WT', tyk_of_ty d e τ hτ 0]

theorem NDG_of_WT (S : DRing K) (d : Nat) (lg : Bool) (e : E) (h : WT d e = true) : NDG S d lg e 0 := by
  unfold WT at h
  cases hτ : ty d e with
  | none => rw [hτ] at h; cases h
  | some τ => exact NDG_of_ty S d lg e τ hτ 0

/-! non-vacuity of the extended theorem -/

/-- `grad(u**2 / (1 + dot(grad v, grad v)))` as sympy holds it -/
def exQuot : E :=
  op1 .grad (mul [pow (sf "u" .h1) (num 2 1),
    pow (add [num 1 1, op2 .dot (op1 .grad (sf "v" .h1)) (op1 .grad (sf "v" .h1))]) (num (-1) 1)])

example : WT' 2 exQuot = true := by decide
example : WT 2 exQuot = false := by decide
example : WT' 2 (mul [fn "sin" (sym "x"), op1 .div (vf "F" .hdiv)]) = true := by decide
example : WT' 2 (op1 .laplace (fn "exp" (mul [sym "x", sym "y"]))) = true := by decide
example : WT' 2 (op1 .grad (pow (sf "u" .h1) (num 1 2))) = true := by decide          -- grad(sqrt(u))
example : WT' 3 (op1 .div (mul [pow (sf "u" .h1) (sf "v" .h1), vf "F" .hdiv])) = true := by decide
example : WT' 2 (fn "sin" (op1 .div (vf "F" .hdiv))) = true := by decide                  -- sin(div F)
example : WT' 2 (op1 .grad (fn "sin" (op1 .div (vf "F" .hdiv)))) = true := by decide     -- refused by dx
example : WT' 2 (op1 .grad (fn "Abs" (sf "u" .h1))) = false := by decide

set_option maxRecDepth 100000 in
/-- the quotient example: lowering returns a value, the hypothesis reduces to the invertibility of
    the denominator `1 + |grad v|²` (nothing is asked of `u`), and the components are the classical
    gradient of the quotient -/
example (S : DRing K) (T : FnTable S)
    (hinv : InvG S 2 false
      (add [num 1 1, op2 .dot (op1 .grad (sf "v" .h1)) (op1 .grad (sf "v" .h1))])) :
    ∃ t, lower 2 false exQuot = .ok t ∧
      ∀ i, i < 2 → den S t i 0 = denG S 2 false exQuot i 0 := by
  have hok : (lower 2 false exQuot).toOption.isSome = true := by rfl
  cases h : lower 2 false exQuot with
  | error err => rw [h] at hok; cases hok
  | ok t =>
    refine ⟨t, rfl, fun i hi => ?_⟩
    refine lower_sound_ext S T 2 (by decide) false _ _ (by decide) ?_ h i 0
      (show i < 2 ∧ 0 = 0 from ⟨hi, rfl⟩)
    simp only [exQuot, NDG, NDGList, powCondG, PD.intLit, ord1]
    exact ⟨⟨Or.inl (by decide), trivial, trivial⟩, ⟨Or.inr hinv, ⟨trivial, ⟨trivial, trivial⟩, trivial⟩,
      trivial⟩, trivial⟩

set_option maxRecDepth 100000 in
/-- `sin(x) * div(F)` in 2D: no side condition at all -/
example (S : DRing K) (T : FnTable S) :
    ∃ t, lower 2 false (mul [fn "sin" (sym "x"), op1 .div (vf "F" .hdiv)]) = .ok t ∧
      ∀ i j, den S t i j = S.fn "sin" (S.sym "x") * (S.D .x (S.vf "F" 0) + S.D .y (S.vf "F" 1)) := by
  have hok : (lower 2 false (mul [fn "sin" (sym "x"), op1 .div (vf "F" .hdiv)])).toOption.isSome
      = true := by rfl
  cases h : lower 2 false (mul [fn "sin" (sym "x"), op1 .div (vf "F" .hdiv)]) with
  | error err => rw [h] at hok; cases hok
  | ok t =>
    refine ⟨t, rfl, fun i j => ?_⟩
    rw [lower_sound_ext S T 2 (by decide) false _ _ (by decide)
      (by simp [NDG, NDGList, fnCondG]) h i j (show True from trivial)]
    simp [denG, denGProd, rank, DRing.sumN, Di, Coord.ofIdx]

set_option maxRecDepth 100000 in
/-- `sin(div F)` (the witness of finding C01-function-argument-not-lowered, fixed): the argument is
    lowered, the result is in partial-derivative form and has the classical value -/
example (S : DRing K) (T : FnTable S) :
    lower 2 false (fn "sin" (op1 .div (vf "F" .hdiv)))
      = .ok (fn "sin" (add [pd .x (idx (vf "F" .hdiv) 0), pd .y (idx (vf "F" .hdiv) 1)])) ∧
    ∀ t, lower 2 false (fn "sin" (op1 .div (vf "F" .hdiv))) = .ok t →
      ∀ i j, den S t i j = S.fn "sin" (S.D .x (S.vf "F" 0) + S.D .y (S.vf "F" 1)) := by
  refine ⟨rfl, fun t h i j => ?_⟩
  rw [lower_sound_ext S T 2 (by decide) false _ _ (by decide)
    (by simp [NDG, fnCondG]) h i j (show True from trivial)]
  simp [denG, rank, DRing.sumN, Di, Coord.ofIdx]

set_option maxRecDepth 100000 in
/-- `laplace(exp(x*y))`: two nested derivatives of an elementary function of the coordinates -/
example (S : DRing K) (T : FnTable S) :
    ∃ t, lower 2 false (op1 .laplace (fn "exp" (mul [sym "x", sym "y"]))) = .ok t ∧
      ∀ i j, den S t i j = denG S 2 false (op1 .laplace (fn "exp" (mul [sym "x", sym "y"]))) i j := by
  have hok : (lower 2 false (op1 .laplace (fn "exp" (mul [sym "x", sym "y"])))).toOption.isSome
      = true := by rfl
  cases h : lower 2 false (op1 .laplace (fn "exp" (mul [sym "x", sym "y"]))) with
  | error err => rw [h] at hok; cases hok
  | ok t =>
    refine ⟨t, rfl, fun i j => ?_⟩
    exact lower_sound_ext S T 2 (by decide) false _ _ (by decide)
      (by simp [NDG, NDGList, fnCondG, ord1, knownFn]) h i j (show True from trivial)

set_option maxRecDepth 100000 in
/-- `laplace(exp(u))` is in the fragment, but the coordinate operators refuse `dx(exp(u))`
    (as the code does): no value is returned and `lower_sound_ext` says nothing — this is why totality
    is not claimed on `WT'` -/
example : WT' 2 (op1 .laplace (fn "exp" (sf "u" .h1))) = true ∧
    lower 2 false (op1 .laplace (fn "exp" (sf "u" .h1))) = .error .notImplemented := ⟨by decide, rfl⟩

end Sympde.Lower
