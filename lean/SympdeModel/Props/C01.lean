/-
  C01 — lowering to partial-derivative form preserves the meaning of expressions.

  The component formulas of every dimension-specific class are regenerated from the current
  source (Gen/Leaf.lean) and each well-typed entry is proved equal to the classical definition
  in every differential ring (Gen/LeafThms.lean: `leaf_<Class>_<signature>`, collected in the
  uniform index `leaf_index`, plus `fragment_total`: no entry of the supported fragment is missing
  or raises).  This file states the theorems about the dispatcher model `Lower.lower`; the main
  one, `lower_sound`, is the structural induction that ties the leaf theorems together
  (helpers: Lemmas/Lower.lean, LowerOps.lean, LowerLeaf.lean, LowerStep1.lean, LowerStep2.lean,
  LowerInd.lean).
-/
import SympdeModel.Model.Lower
import SympdeModel.Sem.DenG
import SympdeModel.Gen.LeafThms
import SympdeModel.Lemmas.LowerInd
namespace Sympde.Lower
open E

variable {K : Type} [CommRing K] [Algebra ℚ K]

/-- a scalar function is lowered to itself, a vector function to the column of its components -/
theorem lower_sf (d : Nat) (lg : Bool) (s : String) (k : Kind) : lower d lg (sf s k) = .ok (sf s k) := by
  simp [lower]

theorem lower_vf_den (S : DRing K) (d : Nat) (lg : Bool) (s : String) (k : Kind) (i : Nat) (hi : i < d) :
    ∃ t, lower d lg (vf s k) = .ok t ∧ den S t i 0 = denG S d lg (vf s k) i 0 := by
  refine ⟨mat d 1 ((List.range d).map (fun i => idx (vf s k) i)), by simp [lower], ?_⟩
  simp only [den, denG]
  have key : ∀ (n : Nat) (l : List Nat) (f : Nat → E), n < l.length →
      denNth S (l.map f) n = den S (f (l[n]!)) 0 0 := by
    intro n l f
    induction l generalizing n with
    | nil => intro h; simp at h
    | cons x l ih =>
      intro h
      cases n with
      | zero => simp [denNth]
      | succ n =>
        simp only [List.map, denNth]
        rw [ih n (by simpa using h)]
        simp
  have hlen : i < (List.range d).length := by simp [hi]
  simp only [hi, Nat.zero_lt_one, and_self, if_true, Nat.mul_one, Nat.add_zero]
  rw [key i (List.range d) _ hlen]
  simp [hi, den]

/-- lowering of a sum of two scalars / of a product of two scalars is the sum / product -/
theorem addV_scalar_den (S : DRing K) (a b : E) (ha : isMat a = false) (hb : isMat b = false)
    (hta : ∀ l, a ≠ tup l) (htb : ∀ l, b ≠ tup l) (i j : Nat) :
    ∃ t, addV a b = .ok t ∧ den S t i j = den S a i j + den S b i j := by
  have h : addV a b = .ok (add [a, b]) := by
    cases a <;> cases b <;>
      first
      | rfl
      | exact absurd rfl (hta _)
      | exact absurd rfl (htb _)
      | exact absurd ha (fun h => Bool.noConfusion h)
      | exact absurd hb (fun h => Bool.noConfusion h)
  exact ⟨_, h, by simp [den, denSum]⟩

/-- a class that does not exist (e.g. `Outer_2d`, `Convect_3d`) is a `NameError`, never a value -/
theorem unknown_class_refused (d : Nat) (cname : String) (args : List E) (h : classKnown cname = false) :
    applyLeaf d cname args = .error .nameError := by
  simp [applyLeaf, h]

/-! ### the structural induction

  **Fragment** (`WT d e`, decidable: `ty d e` computes the type — scalar `s`, vector `v`,
  matrix `m` — or `none`; Lemmas/LowerInd.lean): numbers, constants, coordinates and parameters
  (`sym`), scalar functions, vector functions and their components `F[i]`, non-empty n-ary sums of
  terms of one type, non-empty n-ary products with at most one non-scalar factor (scalar multiples
  of vectors and matrices, in any position), and the generic operators

      grad  : s → v, v → m          div   : v → s, m → v        laplace : s → s, v → v
      curl  : v → v (3D), v → s (2D)   rot : s → v (2D)          hessian : s → m
      dot   : v·v → s, m·v → v, v·m → v     cross : v×v → v (3D), → s (2D)
      inner : v:v → s, m:m → s              bracket : s,s → s (2D)

  applied to *arbitrary* well-typed arguments of the fragment (operators nest to any depth, e.g.
  `div(grad(x*f))`, `laplace(curl(F))`, `dot(grad(F), G)`), on mapped (`lg = false`, operators
  dx dy dz) and unmapped (`lg = true`, dx1 dx2 dx3) domains of dimension 1, 2, 3.

  **Statement**: whenever the dispatcher returns a value `t` for such an `e`, every component of
  `t` equals the classical definition `denG` of `e` in every differential ring `S` (every choice of
  smooth functions, at every point), and `t` has the shape of the type of `e`.

  The components of a scalar are all `(i, j)` (both sides ignore the indices), of a vector
  `(i, 0)` with `i < d`, of a matrix `(i, j)` with `i, j < d`.  The restriction to these indices is
  necessary, not a weakness of the proof: outside them `den` of a `d×1` / `d×d` matrix node is `0`
  by definition while `denG` keeps following the formula (`denG (grad f) 2 0` is `∂_z f` also when
  `d = 2`), so "for all i j" is false for every vector- or matrix-valued expression.

  Not covered (the typing gives `none`): `pow`, elementary functions, `Abs`, the interface
  operators `minus`/`plus`/`jump`/`avg`/`dn`, literal `mat`/`tup`/`pd` nodes in the *input*,
  `laplace`/`grad` of a matrix, `outer`, `convect` (no leaf class exists: `unknown_class_refused`),
  products of two non-scalar factors (sympy's matrix product is not the entry-wise product `denG`
  gives to `mul`), dimensions other than 1, 2, 3.

  **Totality** ("on the supported operator fragment lowering does not fail"): `lower_total` —
  in dimension 2 and 3 the dispatcher returns a value for every expression of the fragment
  (every covered class exists and returns a formula, its derivative nodes are never refused on
  lowered arguments, sums and products meet values of matching shapes).  In dimension 1 this is
  FALSE for the code as it is (open finding C01-1d-mixed): `lower_total_fails_1d` is the
  counterexample `grad(h) + F`; `lower_sound_total` is the combined statement for d = 2, 3.
-/

/-- the covered fragment: the generic expressions `ty` gives a type to -/
def WT (d : Nat) (e : E) : Bool := (ty d e).isSome

/-- the components of the value of `e` in dimension `d` -/
def Comp (d : Nat) (e : E) (i j : Nat) : Prop :=
  match ty d e with
  | some .s => True
  | some .v => i < d ∧ j = 0
  | some .m => i < d ∧ j < d
  | none => False

/-- **C01, main theorem.**  On the covered fragment, in dimension 1, 2 or 3, with physical or
    logical operators: if lowering returns `t` then `t` denotes, component by component, the
    classical meaning of `e` — in every differential ring. -/
theorem lower_sound (S : DRing K) (d : Nat) (hd : d = 1 ∨ d = 2 ∨ d = 3) (lg : Bool) (e t : E)
    (hwt : WT d e = true) (h : lower d lg e = .ok t) :
    ∀ i j, Comp d e i j → den S t i j = denG S d lg e i j := by
  intro i j hc
  unfold WT at hwt
  cases hτ : ty d e with
  | none => rw [hτ] at hwt; cases hwt
  | some τ =>
    have g := lower_ty_sound S d hd lg e τ t hτ h
    unfold Comp at hc
    rw [hτ] at hc
    cases τ with
    | s =>
      have hd1 : 1 ≤ d := by omega
      rw [den_LS_free S t (hasShape_s_LS d t g.1) i j, g.2 0 0 (InR_zero_zero d hd1 _),
        ty_indexFree S d lg e hτ i j]
    | v => exact g.2 i j hc
    | m => exact g.2 i j hc

/-- … and the lowered value has the shape of the type: a scalar form (no matrix node), a `d×1`
    column of scalar forms, a `d×d` matrix of scalar forms (in dimension 1 a vector or matrix may
    also come back as a bare scalar form) -/
theorem lower_shape (d : Nat) (hd : d = 1 ∨ d = 2 ∨ d = 3) (lg : Bool) (e t : E) (τ : Ty)
    (hτ : ty d e = some τ) (h : lower d lg e = .ok t) : hasShape d τ t = true :=
  lower_ty_shape d hd lg e τ t hτ h

/-- **Totality (d = 2, 3).**  On the covered fragment lowering does not fail. -/
theorem lower_total (d : Nat) (hd : d = 2 ∨ d = 3) (lg : Bool) (e : E) (hwt : WT d e = true) :
    ∃ t, lower d lg e = .ok t := by
  unfold WT at hwt
  cases hτ : ty d e with
  | none => rw [hτ] at hwt; cases hwt
  | some τ => exact lower_ty_total d hd lg e τ hτ

/-- value, shape and totality together, in dimension 2 and 3: lowering a well-typed expression of
    the fragment returns a value of the shape of its type whose components are the classical ones -/
theorem lower_sound_total (S : DRing K) (d : Nat) (hd : d = 2 ∨ d = 3) (lg : Bool) (e : E) (τ : Ty)
    (hτ : ty d e = some τ) :
    ∃ t, lower d lg e = .ok t ∧ hasShape d τ t = true ∧
      ∀ i j, Comp d e i j → den S t i j = denG S d lg e i j := by
  obtain ⟨t, ht⟩ := lower_ty_total d hd lg e τ hτ
  exact ⟨t, ht, lower_ty_shape d (Or.inr hd) lg e τ t hτ ht,
    lower_sound S d (Or.inr hd) lg e t (by simp [WT, hτ]) ht⟩

set_option maxRecDepth 100000 in
/-- **Counterexample in dimension 1** (open finding C01-1d-mixed, key `corpus:1d grad(h)+F`):
    the full statement "for every d ∈ {1,2,3} lowering does not fail on the fragment" is false —
    `grad(h) + F` is well typed (a vector) but the gradient of a scalar is lowered to the bare
    scalar `dx(h)` while `F` is lowered to the 1×1 matrix `[[F[0]]]`, and scalar + matrix is a
    `TypeError`.  (`lower_sound` still holds in 1D: it speaks of the values that are returned.) -/
theorem lower_total_fails_1d (lg : Bool) :
    WT 1 (add [op1 .grad (sf "h" .h1), vf "F" .h1]) = true ∧
    lower 1 lg (add [op1 .grad (sf "h" .h1), vf "F" .h1]) = .error .typeError := by
  constructor
  · decide
  · cases lg <;> rfl

/-- the operator applications directly on atoms, for every (class, signature) pair of the
    generated index, are instances: e.g. the gradient of a scalar function -/
theorem lower_grad_atom_sound (S : DRing K) (d : Nat) (hd : d = 1 ∨ d = 2 ∨ d = 3) (lg : Bool)
    (f : String) (k : Kind) (t : E) (h : lower d lg (op1 .grad (sf f k)) = .ok t) (i : Nat) (hi : i < d) :
    den S t i 0 = Di S lg i (S.sf f) := by
  have := lower_sound S d hd lg _ t (by simp [WT, ty, ty1]) h i 0 (by simp [Comp, ty, ty1, hi])
  rw [this]
  simp [denG, rank]

/-! ### non-vacuity: the theorem applies to concrete expressions, and lowering does return a value -/

example : WT 2 (op1 .grad (mul [sf "f" .h1, sf "g" .h1])) = true := by decide
example : WT 2 (op1 .div (vf "F" .hdiv)) = true := by decide
example : WT 3 (op1 .div (op1 .grad (mul [sym "x1", sf "f" .h1]))) = true := by decide
example : WT 3 (op2 .dot (op1 .curl (vf "F" .hcurl)) (mul [sf "f" .h1, op1 .grad (sf "g" .h1)])) = true := by
  decide
example : WT 2 (pow (sf "f" .h1) (num 2 1)) = false := by decide

set_option maxRecDepth 100000 in
/-- grad(f g) in 2D: lowering returns the column of the two product-rule expressions, and each
    component is the derivative of the product -/
example (S : DRing K) :
    ∃ t, lower 2 false (op1 .grad (mul [sf "f" .h1, sf "g" .h1])) = .ok t ∧
      ∀ i, i < 2 → den S t i 0 = Di S false i (S.sf "f" * S.sf "g") := by
  have h : lower 2 false (op1 .grad (mul [sf "f" .h1, sf "g" .h1])) = .ok _ := rfl
  refine ⟨_, h, fun i hi => ?_⟩
  rw [lower_sound S 2 (by decide) false _ _ (by decide) h i 0 (show i < 2 ∧ 0 = 0 from ⟨hi, rfl⟩)]
  simp [denG, denGProd, rank, rankMax]

set_option maxRecDepth 100000 in
/-- div(F) in 2D -/
example (S : DRing K) :
    ∃ t, lower 2 false (op1 .div (vf "F" .hdiv)) = .ok t ∧
      ∀ i j, den S t i j = S.D .x (S.vf "F" 0) + S.D .y (S.vf "F" 1) := by
  have h : lower 2 false (op1 .div (vf "F" .hdiv)) = .ok _ := rfl
  refine ⟨_, h, fun i j => ?_⟩
  rw [lower_sound S 2 (by decide) false _ _ (by decide) h i j (show True from trivial)]
  simp [denG, rank, DRing.sumN, Di, Coord.ofIdx]

end Sympde.Lower
