/-
  C01 — lowering to partial-derivative form preserves the meaning of expressions.

  The component formulas of every dimension-specific class are regenerated from the current
  source (Gen/Leaf.lean) and each well-typed entry is proved equal to the classical definition
  in every differential ring (Gen/LeafThms.lean: `leaf_<Class>_<signature>`, plus
  `fragment_total`: no entry of the supported fragment is missing or raises).  This file adds
  the statements about the dispatcher model `Lower.lower`.
-/
import SympdeModel.Model.Lower
import SympdeModel.Sem.DenG
import SympdeModel.Gen.LeafThms
namespace Sympde.Lower
open E

variable {K : Type} [CommRing K] [Algebra ℚ K]

/-- a scalar function is lowered to itself, a vector function to the column of its components -/
theorem lower_sf (d : Nat) (lg : Bool) (s : String) (k : Kind) : lower d lg (sf s k) = .ok (sf s k) := by
  simp [lower]

theorem lower_vf_den (S : DRing K) (d : Nat) (lg : Bool) (s : String) (k : Kind) (i : Nat) (hi : i < d) :
    ∃ t, lower d lg (vf s k) = .ok t ∧ den S t i 0 = denG S d lg (vf s k) i 0 := by
  refine ⟨mat d 1 ((List.range d).map (fun i => idx (vf s k) i)), by simp [lower], ?_⟩
  simp only [den, denG]
  have key : ∀ (n : Nat) (l : List Nat) (f : Nat → E), n < l.length →
      denNth S (l.map f) n = den S (f (l[n]!)) 0 0 := by
    intro n l f
    induction l generalizing n with
    | nil => intro h; simp at h
    | cons x l ih =>
      intro h
      cases n with
      | zero => simp [denNth]
      | succ n =>
        simp only [List.map, denNth]
        rw [ih n (by simpa using h)]
        simp
  have hlen : i < (List.range d).length := by simp [hi]
  simp only [hi, Nat.zero_lt_one, and_self, if_true, Nat.mul_one, Nat.add_zero]
  rw [key i (List.range d) _ hlen]
  simp [hi, den]

/-- lowering of a sum of two scalars / of a product of two scalars is the sum / product -/
theorem addV_scalar_den (S : DRing K) (a b : E) (ha : isMat a = false) (hb : isMat b = false)
    (hta : ∀ l, a ≠ tup l) (htb : ∀ l, b ≠ tup l) (i j : Nat) :
    ∃ t, addV a b = .ok t ∧ den S t i j = den S a i j + den S b i j := by
  cases a <;> cases b <;> simp_all [addV, isMat, den, denSum]

/-- a class that does not exist (e.g. `Outer_2d`, `Convect_3d`) is a `NameError`, never a value -/
theorem unknown_class_refused (d : Nat) (cname : String) (args : List E) (h : classKnown cname = false) :
    applyLeaf d cname args = .error .nameError := by
  simp [applyLeaf, h]

end Sympde.Lower
