/-
  C11 — norm and semi-norm integrands are the classical Sobolev integrands.

  `sobolev*` below is the specification: |e|², |∇e|² = Σ_i (∂_i e)², |∇∇e|² = Σ_ij (∂_i∂_j e)²,
  summed over the components for a vector argument.  The theorems say that the generic
  integrand assembled by `Norm`/`SemiNorm` denotes exactly that, in every differential ring and
  every dimension.  (That the lowered kernel denotes the same as the generic integrand is C01;
  the kernel itself is compared with the implementation by the correspondence run.)
-/
import SympdeModel.Model.Norm
import SympdeModel.Sem.DenG
namespace Sympde.Norm
open E
open DRing (sumN)

variable {K : Type} [CommRing K] [Algebra ℚ K]

/-- Σ_i (∂_i a)² -/
def gradNorm2 (S : DRing K) (d : Nat) (lg : Bool) (a : K) : K :=
  sumN d (fun i => Di S lg i a * Di S lg i a)

/-- Σ_ij (∂_i ∂_j a)² -/
def hessNorm2 (S : DRing K) (d : Nat) (lg : Bool) (a : K) : K :=
  sumN d (fun i => sumN d (fun j => Di S lg i (Di S lg j a) * Di S lg i (Di S lg j a)))

/-- classical integrand for a scalar value `a` -/
def sobolevScalar (S : DRing K) (d : Nat) (lg : Bool) (semi : Bool) (k : NK) (a : K) : K :=
  match k, semi with
  | .l2, _ => a * a
  | .h1, true => gradNorm2 S d lg a
  | .h1, false => gradNorm2 S d lg a + a * a
  | .h2, true => hessNorm2 S d lg a
  | .h2, false => hessNorm2 S d lg a + gradNorm2 S d lg a + a * a

theorem rank_zero_of (d : Nat) (e : E) (h : rank d e = 0) : rank d (op1 .grad e) = 1 := by
  simp [rank, h]

/-- **scalar argument**: L2, H1, H2 norms and semi-norms -/
theorem norm_integrand_scalar (S : DRing K) (d : Nat) (lg : Bool) (semi : Bool) (k : NK) (e : E)
    (hr : rank d e = 0) (hfree : ∀ i j, denG S d lg e i j = denG S d lg e 0 0) :
    denG S d lg (scalarIntegrand semi k e) 0 0 = sobolevScalar S d lg semi k (denG S d lg e 0 0) := by
  have hg : rank d (op1 .grad e) = 1 := rank_zero_of d e hr
  have hh : rank d (op1 .hessian e) = 2 := by simp [rank]
  have h12 : ¬ ((1 : Nat) = 2) := by decide
  cases k <;> cases semi <;>
    simp [scalarIntegrand, sobolevScalar, sq, gradSq, hessSq, gradNorm2, hessNorm2, denG, denGSum,
      denGProd, hr, hg, hh, h12] <;> ring

/-- Σ over the components of a list of scalar values -/
def sumList (f : K → K) : List K → K
  | [] => 0
  | a :: as => f a + sumList f as

theorem vecHessSq_den (S : DRing K) (d : Nat) (lg : Bool) (es : List E)
    (hr : ∀ e ∈ es, rank d e = 0) :
    denG S d lg (vecHessSq es) 0 0 = sumList (hessNorm2 S d lg) (es.map (fun e => denG S d lg e 0 0)) := by
  unfold vecHessSq
  simp only [denG]
  induction es with
  | nil => simp [denGSum, sumList]
  | cons e es ih =>
    have hh : rank d (op1 .hessian e) = 2 := by simp [rank]
    simp only [List.map, denGSum, sumList]
    rw [ih (fun x hx => hr x (by simp [hx]))]
    simp [hessSq, denG, hh, hessNorm2]

/-- **vector argument, H2 semi-norm**: the sum over the components of the Frobenius norms of
    the component Hessians -/
theorem seminorm_integrand_vector_h2 (S : DRing K) (d : Nat) (lg : Bool) (es : List E)
    (hr : ∀ e ∈ es, rank d e = 0) :
    denG S d lg (vectorIntegrand true .h2 es) 0 0
      = sumList (hessNorm2 S d lg) (es.map (fun e => denG S d lg e 0 0)) := by
  simpa [vectorIntegrand] using vecHessSq_den S d lg es hr

/-- **vector argument, L2**: Σ_i e_i² over the first `d` components -/
theorem norm_integrand_vector_l2 (S : DRing K) (d : Nat) (lg : Bool) (semi : Bool) (es : List E) :
    denG S d lg (vectorIntegrand semi .l2 es) 0 0
      = sumN d (fun i => denGNth S d lg es i * denGNth S d lg es i) := by
  cases semi <;> simp [vectorIntegrand, vecSq, denG, rank]

/-- **vector argument, H1 semi-norm**: Σ_ij (∂_i e_j)² -/
theorem seminorm_integrand_vector_h1 (S : DRing K) (d : Nat) (lg : Bool) (es : List E) :
    denG S d lg (vectorIntegrand true .h1 es) 0 0
      = sumN d (fun i => sumN d (fun j =>
          Di S lg i (denGNth S d lg es j) * Di S lg i (denGNth S d lg es j))) := by
  simp [vectorIntegrand, vecGradSq, denG, rank]

/-- **vector argument, H1 norm** = H1 semi-norm + L2 -/
theorem norm_integrand_vector_h1 (S : DRing K) (d : Nat) (lg : Bool) (es : List E) :
    denG S d lg (vectorIntegrand false .h1 es) 0 0
      = denG S d lg (vectorIntegrand true .h1 es) 0 0 + denG S d lg (vectorIntegrand false .l2 es) 0 0 := by
  simp [vectorIntegrand, denG, denGSum]

/-- **vector argument, H2 norm** = H2 semi-norm + H1 semi-norm + L2 -/
theorem norm_integrand_vector_h2 (S : DRing K) (d : Nat) (lg : Bool) (es : List E) :
    denG S d lg (vectorIntegrand false .h2 es) 0 0
      = denG S d lg (vectorIntegrand true .h2 es) 0 0 + denG S d lg (vectorIntegrand true .h1 es) 0 0
        + denG S d lg (vectorIntegrand false .l2 es) 0 0 := by
  simp only [vectorIntegrand, denG, denGSum]
  try ring

/-- the semi-norm is the highest-order term of the norm -/
theorem norm_eq_seminorm_plus_lower (S : DRing K) (d : Nat) (lg : Bool) (e : E)
    (hr : rank d e = 0) (hfree : ∀ i j, denG S d lg e i j = denG S d lg e 0 0) :
    denG S d lg (scalarIntegrand false .h2 e) 0 0
      = denG S d lg (scalarIntegrand true .h2 e) 0 0 + denG S d lg (scalarIntegrand false .h1 e) 0 0 := by
  simp only [scalarIntegrand, denG, denGSum]
  try ring

/-! non-vacuity -/
example : scalarIntegrand false .h1 (sf "u" .h1)
    = add [op2 .dot (op1 .grad (sf "u" .h1)) (op1 .grad (sf "u" .h1)), mul [sf "u" .h1, sf "u" .h1]] := rfl
example : rank 2 (add [sf "u" .h1, mul [num (-1) 1, fn "sin" (sym "x1")]]) = 0 := by decide

end Sympde.Norm
