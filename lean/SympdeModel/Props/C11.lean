/-
  C11 — norm and semi-norm integrands are the classical Sobolev integrands.

  `sobolev*` below is the specification: |e|², |∇e|² = Σ_i (∂_i e)², |∇∇e|² = Σ_ij (∂_i∂_j e)²,
  summed over the components for a vector argument.  The theorems say that the generic
  integrand assembled by `Norm`/`SemiNorm` denotes exactly that, in every differential ring and
  every dimension (`norm_integrand_*`, `seminorm_integrand_*`).  The second half of the file
  composes this with C01 (`Lower.lower_sound`): the *kernel* the model returns — the integrand
  lowered by `Lower.lower` — denotes the Sobolev integrand (`norm_kernel_sound_scalar`,
  `norm_kernel_sound_vector`, with totality in dimension 2 and 3: `norm_kernel_scalar`,
  `norm_kernel_vector`).  The kernel itself is compared with the implementation by the
  correspondence run.
-/
import SympdeModel.Model.Norm
import SympdeModel.Sem.DenG
import SympdeModel.Props.C01
import SympdeModel.Lemmas.NormLower
namespace Sympde.Norm
open E
open DRing (sumN)

variable {K : Type} [CommRing K] [Algebra ℚ K]

/-- Σ_i (∂_i a)² -/
def gradNorm2 (S : DRing K) (d : Nat) (lg : Bool) (a : K) : K :=
  sumN d (fun i => Di S lg i a * Di S lg i a)

/-- Σ_ij (∂_i ∂_j a)² -/
def hessNorm2 (S : DRing K) (d : Nat) (lg : Bool) (a : K) : K :=
  sumN d (fun i => sumN d (fun j => Di S lg i (Di S lg j a) * Di S lg i (Di S lg j a)))

/-- classical integrand for a scalar value `a` -/
def sobolevScalar (S : DRing K) (d : Nat) (lg : Bool) (semi : Bool) (k : NK) (a : K) : K :=
  match k, semi with
  | .l2, _ => a * a
  | .h1, true => gradNorm2 S d lg a
  | .h1, false => gradNorm2 S d lg a + a * a
  | .h2, true => hessNorm2 S d lg a
  | .h2, false => hessNorm2 S d lg a + gradNorm2 S d lg a + a * a

theorem rank_zero_of (d : Nat) (e : E) (h : rank d e = 0) : rank d (op1 .grad e) = 1 := by
  simp [rank, h]

/-- **scalar argument**: L2, H1, H2 norms and semi-norms -/
theorem norm_integrand_scalar (S : DRing K) (d : Nat) (lg : Bool) (semi : Bool) (k : NK) (e : E)
    (hr : rank d e = 0) (hfree : ∀ i j, denG S d lg e i j = denG S d lg e 0 0) :
    denG S d lg (scalarIntegrand semi k e) 0 0 = sobolevScalar S d lg semi k (denG S d lg e 0 0) := by
  have hg : rank d (op1 .grad e) = 1 := rank_zero_of d e hr
  have hh : rank d (op1 .hessian e) = 2 := by simp [rank]
  have h12 : ¬ ((1 : Nat) = 2) := by decide
  cases k <;> cases semi <;>
    simp [scalarIntegrand, sobolevScalar, sq, gradSq, hessSq, gradNorm2, hessNorm2, denG, denGSum,
      denGProd, hr, hg, hh, h12] <;> ring

/-- Σ over the components of a list of scalar values -/
def sumList (f : K → K) : List K → K
  | [] => 0
  | a :: as => f a + sumList f as

theorem vecHessSq_den (S : DRing K) (d : Nat) (lg : Bool) (es : List E)
    (hr : ∀ e ∈ es, rank d e = 0) :
    denG S d lg (vecHessSq es) 0 0 = sumList (hessNorm2 S d lg) (es.map (fun e => denG S d lg e 0 0)) := by
  unfold vecHessSq
  simp only [denG]
  induction es with
  | nil => simp [denGSum, sumList]
  | cons e es ih =>
    have hh : rank d (op1 .hessian e) = 2 := by simp [rank]
    simp only [List.map, denGSum, sumList]
    rw [ih (fun x hx => hr x (by simp [hx]))]
    simp [hessSq, denG, hh, hessNorm2]

/-- **vector argument, H2 semi-norm**: the sum over the components of the Frobenius norms of
    the component Hessians -/
theorem seminorm_integrand_vector_h2 (S : DRing K) (d : Nat) (lg : Bool) (es : List E)
    (hr : ∀ e ∈ es, rank d e = 0) :
    denG S d lg (vectorIntegrand true .h2 es) 0 0
      = sumList (hessNorm2 S d lg) (es.map (fun e => denG S d lg e 0 0)) := by
  simpa [vectorIntegrand] using vecHessSq_den S d lg es hr

/-- **vector argument, L2**: Σ_i e_i² over the first `d` components -/
theorem norm_integrand_vector_l2 (S : DRing K) (d : Nat) (lg : Bool) (semi : Bool) (es : List E) :
    denG S d lg (vectorIntegrand semi .l2 es) 0 0
      = sumN d (fun i => denGNth S d lg es i * denGNth S d lg es i) := by
  cases semi <;> simp [vectorIntegrand, vecSq, denG, rank]

/-- **vector argument, H1 semi-norm**: Σ_ij (∂_i e_j)² -/
theorem seminorm_integrand_vector_h1 (S : DRing K) (d : Nat) (lg : Bool) (es : List E) :
    denG S d lg (vectorIntegrand true .h1 es) 0 0
      = sumN d (fun i => sumN d (fun j =>
          Di S lg i (denGNth S d lg es j) * Di S lg i (denGNth S d lg es j))) := by
  simp [vectorIntegrand, vecGradSq, denG, rank]

/-- **vector argument, H1 norm** = H1 semi-norm + L2 -/
theorem norm_integrand_vector_h1 (S : DRing K) (d : Nat) (lg : Bool) (es : List E) :
    denG S d lg (vectorIntegrand false .h1 es) 0 0
      = denG S d lg (vectorIntegrand true .h1 es) 0 0 + denG S d lg (vectorIntegrand false .l2 es) 0 0 := by
  simp [vectorIntegrand, denG, denGSum]

/-- **vector argument, H2 norm** = H2 semi-norm + H1 semi-norm + L2 -/
theorem norm_integrand_vector_h2 (S : DRing K) (d : Nat) (lg : Bool) (es : List E) :
    denG S d lg (vectorIntegrand false .h2 es) 0 0
      = denG S d lg (vectorIntegrand true .h2 es) 0 0 + denG S d lg (vectorIntegrand true .h1 es) 0 0
        + denG S d lg (vectorIntegrand false .l2 es) 0 0 := by
  simp only [vectorIntegrand, denG, denGSum]
  try ring

/-- the semi-norm is the highest-order term of the norm -/
theorem norm_eq_seminorm_plus_lower (S : DRing K) (d : Nat) (lg : Bool) (e : E)
    (hr : rank d e = 0) (hfree : ∀ i j, denG S d lg e i j = denG S d lg e 0 0) :
    denG S d lg (scalarIntegrand false .h2 e) 0 0
      = denG S d lg (scalarIntegrand true .h2 e) 0 0 + denG S d lg (scalarIntegrand false .h1 e) 0 0 := by
  simp only [scalarIntegrand, denG, denGSum]
  try ring

/-! non-vacuity -/
example : scalarIntegrand false .h1 (sf "u" .h1)
    = add [op2 .dot (op1 .grad (sf "u" .h1)) (op1 .grad (sf "u" .h1)), mul [sf "u" .h1, sf "u" .h1]] := rfl
example : rank 2 (add [sf "u" .h1, mul [num (-1) 1, fn "sin" (sym "x1")]]) = 0 := by decide


/-! ### the kernels: composition with C01 (`Lower.lower_sound`)

  `Norm.kernel d lg semi k arg` is what the driver request `C11 kernel …` evaluates: the assembled
  integrand lowered by the dispatcher model `Lower.lower`.  The theorems below no longer take C01
  on trust: the assembled integrand is well typed in the fragment of `lower_sound` whenever the
  error expression is (Lemmas/NormLower.lean), so whatever `kernel` returns denotes — in `den`, the
  semantics of lowered trees — the explicit Sobolev integrand of the classical value
  `denG S d lg e 0 0` of the error expression, in every differential ring.

  Hypotheses on the error expression: `Lower.WT d e = true` (the fragment of `lower_sound`: atoms,
  `F[i]`, n-ary sums and products, the generic operators nested to any depth) and `rank d e = 0`
  (it is a scalar). -/

/-- **scalar argument, all six (kind, norm / semi-norm) combinations, d = 1, 2, 3, physical and
    logical operators**: whatever `kernel` returns denotes the classical Sobolev integrand -/
theorem norm_kernel_sound_scalar (S : DRing K) (d : Nat) (hd : d = 1 ∨ d = 2 ∨ d = 3)
    (lg semi : Bool) (k : NK) (e t : E)
    (hwt : Lower.WT d e = true) (hr : rank d e = 0) (h : kernel d lg semi k e = .ok t) :
    ∀ i j, den S t i j = sobolevScalar S d lg semi k (denG S d lg e 0 0) := by
  intro i j
  have hτ : Lower.ty d e = some .s := ty_scalar_of d e hwt hr
  have hI := ty_scalarIntegrand d semi k e hτ
  rw [kernel_scalar d lg semi k e (ty_not_tup d e _ hτ)] at h
  rw [Lower.lower_sound S d hd lg _ t (by simp [Lower.WT, hI]) h i j (by simp [Lower.Comp, hI]),
    Lower.ty_indexFree S d lg _ hI i j]
  exact norm_integrand_scalar S d lg semi k e hr (Lower.ty_indexFree S d lg e hτ)

/-- … and in dimension 2 and 3 `kernel` does return a value (totality of lowering, C01) -/
theorem norm_kernel_total_scalar (d : Nat) (hd : d = 2 ∨ d = 3) (lg semi : Bool) (k : NK) (e : E)
    (hwt : Lower.WT d e = true) (hr : rank d e = 0) : ∃ t, kernel d lg semi k e = .ok t := by
  have hτ : Lower.ty d e = some .s := ty_scalar_of d e hwt hr
  have hI := ty_scalarIntegrand d semi k e hτ
  rw [kernel_scalar d lg semi k e (ty_not_tup d e _ hτ)]
  exact Lower.lower_total d hd lg _ (by simp [Lower.WT, hI])

/-- both together (d = 2, 3): the kernel of the (semi-)norm of a scalar expression of the fragment
    exists and denotes the classical Sobolev integrand -/
theorem norm_kernel_scalar (S : DRing K) (d : Nat) (hd : d = 2 ∨ d = 3) (lg semi : Bool) (k : NK)
    (e : E) (hwt : Lower.WT d e = true) (hr : rank d e = 0) :
    ∃ t, kernel d lg semi k e = .ok t ∧
      ∀ i j, den S t i j = sobolevScalar S d lg semi k (denG S d lg e 0 0) := by
  obtain ⟨t, ht⟩ := norm_kernel_total_scalar d hd lg semi k e hwt hr
  exact ⟨t, ht, norm_kernel_sound_scalar S d (Or.inr hd) lg semi k e t hwt hr ht⟩


/-! #### vector argument

  The model (like the code) hands the `Tuple` of the components to the leaf classes without lowering
  the components, so for the parts that go through the `Tuple` (`Dot(v,v)`, `Inner(Grad v, Grad v)`)
  the components must already be lowered scalar forms (`Lower.LS`: numbers, constants, coordinates,
  functions, `F[i]`, sums, products, derivative chains — what error expressions "function minus
  analytic expression" are made of, short of `pow` and elementary functions); the H2 part
  `Σ Inner(Hessian e_i, Hessian e_i)` goes through `lower_sound` and needs `WT`/`rank = 0` instead.
  The specification is the scalar one summed over the components. -/

omit [Algebra ℚ K] in
/-- auxiliary: Σ_{i<n+1} g i = g 0 + Σ_{i<n} g (i+1) -/
theorem sumN_shift (n : Nat) (g : Nat → K) :
    sumN (n + 1) g = g 0 + sumN n (fun i => g (i + 1)) := by
  induction n with
  | zero => simp [sumN]
  | succ n ih => rw [sumN, ih]; simp only [sumN]; ring

/-- auxiliary: a sum over the indices of the components is the sum over the list of components -/
theorem sumN_denGNth (S : DRing K) (d : Nat) (lg : Bool) (f : K → K) (es : List E) :
    sumN es.length (fun i => f (denGNth S d lg es i))
      = sumList f (es.map (fun e => denG S d lg e 0 0)) := by
  induction es with
  | nil => simp [sumN, sumList]
  | cons a as ih =>
    rw [List.length_cons, sumN_shift]
    simp only [denGNth, List.map, sumList, ih]

omit [Algebra ℚ K] in
/-- auxiliary: exchange of two finite sums -/
theorem sumN_comm (d d' : Nat) (F : Nat → Nat → K) :
    sumN d (fun i => sumN d' (fun j => F i j)) = sumN d' (fun j => sumN d (fun i => F i j)) := by
  induction d with
  | zero => simp [sumN, DRing.sumN_zero]
  | succ n ih => simp only [sumN, ih, DRing.sumN_add]

omit [Algebra ℚ K] in
theorem sumList_add (f g : K → K) (l : List K) :
    sumList (fun a => f a + g a) l = sumList f l + sumList g l := by
  induction l with
  | nil => simp [sumList]
  | cons a as ih => simp only [sumList, ih]; ring

/-- Σ e_i² over the components of a `d`-vector -/
theorem vecSq_den (S : DRing K) (d : Nat) (lg : Bool) (es : List E) (hl : es.length = d) :
    denG S d lg (vecSq es) 0 0 = sumList (fun a => a * a) (es.map (fun e => denG S d lg e 0 0)) := by
  have h := norm_integrand_vector_l2 S d lg false es
  simp only [vectorIntegrand] at h
  rw [h]; subst hl
  exact sumN_denGNth S es.length lg (fun a => a * a) es

/-- Σ_j |∇e_j|² over the components of a `d`-vector -/
theorem vecGradSq_den (S : DRing K) (d : Nat) (lg : Bool) (es : List E) (hl : es.length = d) :
    denG S d lg (vecGradSq es) 0 0
      = sumList (gradNorm2 S d lg) (es.map (fun e => denG S d lg e 0 0)) := by
  have h := seminorm_integrand_vector_h1 S d lg es
  simp only [vectorIntegrand] at h
  rw [h, sumN_comm]; subst hl
  exact sumN_denGNth S es.length lg (gradNorm2 S es.length lg) es

/-- **vector argument, all six (kind, norm / semi-norm) combinations, d = 1, 2, 3, physical and
    logical operators**: whatever `kernel` returns denotes the scalar Sobolev integrand summed over
    the components.  `hLS` is needed for every combination except the H2 semi-norm, `hwt` for H2. -/
theorem norm_kernel_sound_vector (S : DRing K) (d : Nat) (hd : d = 1 ∨ d = 2 ∨ d = 3)
    (lg semi : Bool) (k : NK) (es : List E) (t : E)
    (hLS : (k = .h2 → semi = false) → ∀ e ∈ es, Lower.LS e = true)
    (hwt : k = .h2 → ∀ e ∈ es, Lower.WT d e = true ∧ rank d e = 0)
    (h : kernel d lg semi k (tup es) = .ok t) :
    ∀ i j, den S t i j
      = sumList (sobolevScalar S d lg semi k) (es.map (fun e => denG S d lg e 0 0)) := by
  intro i j
  have hd1 : 1 ≤ d := by omega
  rw [kernel_vector] at h
  have LSl : (k = .h2 → semi = false) → Lower.LSList es = true :=
    fun hk => Lower.LSList_of_mem (hLS hk)
  have tyl : k = .h2 → ∀ e ∈ es, Lower.ty d e = some .s :=
    fun hk e he => ty_scalar_of d e (hwt hk e he).1 (hwt hk e he).2
  have hr : k = .h2 → ∀ e ∈ es, rank d e = 0 := fun hk e he => (hwt hk e he).2
  cases k <;> cases semi <;> simp only [vectorIntegrand] at h
  -- L2 norm, L2 semi-norm
  · have g := lower_vecSq_good S d hd lg es (LSl (by simp)) t h
    rw [good_scalar S d hd1 lg _ t g i j, vecSq_den S d lg es (lower_vecSq_len d lg es t h)]
    rfl
  · have g := lower_vecSq_good S d hd lg es (LSl (by simp)) t h
    rw [good_scalar S d hd1 lg _ t g i j, vecSq_den S d lg es (lower_vecSq_len d lg es t h)]
    rfl
  -- H1 norm
  · have hLSl := LSl (by simp)
    obtain ⟨t2, ht2⟩ := lower_add_mem d lg _ t h (vecSq es) (by simp)
    have hl := lower_vecSq_len d lg es t2 ht2
    have g := lower_add_good S d lg _ t (by
      intro a ha ta hta
      simp only [List.mem_cons, List.not_mem_nil, or_false] at ha
      rcases ha with rfl | rfl
      · exact lower_vecGradSq_good S d hd lg es hLSl ta hta
      · exact lower_vecSq_good S d hd lg es hLSl ta hta) h
    rw [good_scalar S d hd1 lg _ t g i j]
    simp only [denG, denGSum, vecSq_den S d lg es hl, vecGradSq_den S d lg es hl, add_zero]
    rw [← sumList_add]; rfl
  -- H1 semi-norm
  · have hLSl := LSl (by simp)
    have g := lower_vecGradSq_good S d hd lg es hLSl t h
    have hl : es.length = d := by
      have h' := h
      unfold vecGradSq at h'
      rw [Lower.lower_op2] at h'
      simp only [bind, Except.bind] at h'
      cases hg : Lower.lower d lg (op1 .grad (tup es)) with
      | error e => rw [hg] at h'; cases h'
      | ok g' =>
        rw [Lower.lower_op1 d lg .grad (tup es) "Grad" rfl, lower_tup] at hg
        simp only [bind, Except.bind] at hg
        exact applyLeaf_tup_len d _ es _ g' hg
    rw [good_scalar S d hd1 lg _ t g i j, vecGradSq_den S d lg es hl]
    rfl
  -- H2 norm
  · have hLSl := LSl (by simp)
    obtain ⟨t2, ht2⟩ := lower_add_mem d lg _ t h (vecSq es) (by simp)
    have hl := lower_vecSq_len d lg es t2 ht2
    have g := lower_add_good S d lg _ t (by
      intro a ha ta hta
      simp only [List.mem_cons, List.not_mem_nil, or_false] at ha
      rcases ha with rfl | rfl | rfl
      · exact lower_vecHessSq_good S d hd lg es (tyl rfl) ta hta
      · exact lower_vecGradSq_good S d hd lg es hLSl ta hta
      · exact lower_vecSq_good S d hd lg es hLSl ta hta) h
    rw [good_scalar S d hd1 lg _ t g i j]
    simp only [denG, denGSum, vecSq_den S d lg es hl, vecGradSq_den S d lg es hl,
      vecHessSq_den S d lg es (hr rfl), add_zero]
    rw [← sumList_add, ← sumList_add]
    congr 1; funext a; simp only [sobolevScalar]; ring
  -- H2 semi-norm
  · have g := lower_vecHessSq_good S d hd lg es (tyl rfl) t h
    rw [good_scalar S d hd1 lg _ t g i j, vecHessSq_den S d lg es (hr rfl)]
    rfl


/-- … and in dimension 2 and 3 `kernel` does return a value for a `d`-vector of lowered scalar
    forms of the fragment -/
theorem norm_kernel_total_vector (d : Nat) (hd : d = 2 ∨ d = 3) (lg semi : Bool) (k : NK)
    (es : List E) (hl : es.length = d) (hLS : ∀ e ∈ es, Lower.LS e = true)
    (hwt : k = .h2 → ∀ e ∈ es, Lower.WT d e = true ∧ rank d e = 0) :
    ∃ t, kernel d lg semi k (tup es) = .ok t := by
  have hd3 : d = 1 ∨ d = 2 ∨ d = 3 := Or.inr hd
  have hd1 : d ≠ 1 := by omega
  have hLSl := Lower.LSList_of_mem hLS
  have hne : es ≠ [] := by intro he; subst he; simp at hl; omega
  have tyl : k = .h2 → ∀ e ∈ es, Lower.ty d e = some .s :=
    fun hk e he => ty_scalar_of d e (hwt hk e he).1 (hwt hk e he).2
  have T1 := lower_vecSq_total d hd3 lg es hLSl hl
  have T2 := lower_vecGradSq_total d hd3 lg es hLSl hl
  have G1 := fun t h => (lower_vecSq_good Lower.trivialRing d hd3 lg es hLSl t h).1
  have G2 := fun t h => (lower_vecGradSq_good Lower.trivialRing d hd3 lg es hLSl t h).1
  rw [kernel_vector]
  cases k <;> cases semi <;> simp only [vectorIntegrand]
  · exact T1
  · exact T1
  · refine lower_add_total d hd1 lg _ _ ?_ ?_ <;> intro x hx <;>
      simp only [List.mem_cons, List.not_mem_nil, or_false] at hx <;> rcases hx with rfl | rfl
    · exact T2
    · exact T1
    · exact G2
    · exact G1
  · exact T2
  · have T3 := Lower.lower_ty_total d hd lg _ .s (ty_vecHessSq d es hne (tyl rfl))
    have G3 := fun t h => (lower_vecHessSq_good Lower.trivialRing d hd3 lg es (tyl rfl) t h).1
    refine lower_add_total d hd1 lg _ _ ?_ ?_ <;> intro x hx <;>
      simp only [List.mem_cons, List.not_mem_nil, or_false] at hx <;> rcases hx with rfl | rfl | rfl
    · exact T3
    · exact T2
    · exact T1
    · exact G3
    · exact G2
    · exact G1
  · exact Lower.lower_ty_total d hd lg _ .s (ty_vecHessSq d es hne (tyl rfl))

/-- both together (d = 2, 3): the kernel of the (semi-)norm of a `d`-vector of lowered scalar
    forms exists and denotes the scalar Sobolev integrand summed over the components -/
theorem norm_kernel_vector (S : DRing K) (d : Nat) (hd : d = 2 ∨ d = 3) (lg semi : Bool) (k : NK)
    (es : List E) (hl : es.length = d) (hLS : ∀ e ∈ es, Lower.LS e = true)
    (hwt : k = .h2 → ∀ e ∈ es, Lower.WT d e = true ∧ rank d e = 0) :
    ∃ t, kernel d lg semi k (tup es) = .ok t ∧
      ∀ i j, den S t i j
        = sumList (sobolevScalar S d lg semi k) (es.map (fun e => denG S d lg e 0 0)) := by
  obtain ⟨t, ht⟩ := norm_kernel_total_vector d hd lg semi k es hl hLS hwt
  exact ⟨t, ht, norm_kernel_sound_vector S d (Or.inr hd) lg semi k es t (fun _ => hLS) hwt ht⟩


/-! non-vacuity of the kernel theorems: a concrete error expression `u - x y` (2D, physical
    coordinates) and a concrete vector error `(F[0] - x, F[1])`; the hypotheses hold by evaluation,
    the kernel is returned, and the conclusion is the textbook integrand -/

/-- `u - x*y` -/
def exErr : E := add [sf "u" .h1, mul [num (-1) 1, sym "x", sym "y"]]

example : Lower.WT 2 exErr = true := by decide
example : rank 2 exErr = 0 := by decide
example (S : DRing K) : denG S 2 false exErr 0 0 = S.sf "u" - S.sym "x" * S.sym "y" := by
  simp [exErr, denG, denGSum, denGProd]; ring

set_option maxRecDepth 100000 in
/-- H1 norm of `u - x y` in 2D: the model returns a kernel (by evaluation), and in every
    differential ring it denotes (∂_x a)² + (∂_y a)² + a² with a the value of `u - x y` -/
example (S : DRing K) :
    ∃ t, kernel 2 false false .h1 exErr = .ok t ∧
      den S t 0 0 =
        S.D .x (denG S 2 false exErr 0 0) * S.D .x (denG S 2 false exErr 0 0)
          + S.D .y (denG S 2 false exErr 0 0) * S.D .y (denG S 2 false exErr 0 0)
          + denG S 2 false exErr 0 0 * denG S 2 false exErr 0 0 := by
  have h : kernel 2 false false .h1 exErr = .ok _ := rfl
  refine ⟨_, h, ?_⟩
  rw [norm_kernel_sound_scalar S 2 (by decide) false false .h1 exErr _ (by decide) (by decide) h 0 0]
  simp [sobolevScalar, gradNorm2, sumN, Di, Coord.ofIdx]

/-- H2 semi-norm of the same expression, 3D, logical operators: existence from totality -/
example (S : DRing K) :
    ∃ t, kernel 3 true true .h2 exErr = .ok t ∧
      ∀ i j, den S t i j = hessNorm2 S 3 true (denG S 3 true exErr 0 0) :=
  norm_kernel_scalar S 3 (Or.inr rfl) true true .h2 exErr (by decide) (by decide)

/-- `(F[0] - x, F[1])` -/
def exVec : List E := [add [idx (vf "F" .h1) 0, mul [num (-1) 1, sym "x"]], idx (vf "F" .h1) 1]

set_option maxRecDepth 100000 in
/-- H2 norm of the vector `(F[0] - x, F[1])` in 2D: the kernel is returned and denotes the scalar
    H2 integrand summed over the two components -/
example (S : DRing K) :
    ∃ t, kernel 2 false false .h2 (tup exVec) = .ok t ∧
      den S t 0 0 =
        sobolevScalar S 2 false false .h2 (denG S 2 false (exVec.getD 0 zero) 0 0)
          + sobolevScalar S 2 false false .h2 (S.vf "F" 1) := by
  have h : kernel 2 false false .h2 (tup exVec) = .ok _ := rfl
  refine ⟨_, h, ?_⟩
  rw [norm_kernel_sound_vector S 2 (by decide) false false .h2 exVec _ (fun _ => by decide)
    (fun _ => by decide) h 0 0]
  simp [exVec, sumList, denG]

end Sympde.Norm
