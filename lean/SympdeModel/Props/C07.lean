/-
  C07 — interface integrals split conservatively into same-side and mixed-side kernels.

  After `jump(w)` has been replaced by `minus(w) - plus(w)` and the integrand expanded, every
  monomial of a bilinear interface integrand contains its trial function restricted to one side
  and its test function restricted to one side.  `_split_expr_over_interface` extracts the four
  pieces by setting the restrictions to the other side to zero — the block extraction of C06 with
  the two sides {0 = minus, 1 = plus} as index set.  The same-side pieces (0,0), (1,1) become the
  boundary kernels of the two faces (on the plus face the normal is reversed, an involution),
  the mixed pieces (0,1), (1,0) the interface kernels tagged (trial side, test side).
-/
import SympdeModel.Props.C06
namespace Sympde.Forms

/-- the piece with trial side `s` and test side `t` -/
def piece (P : List Mono) (s t : Nat) : List Mono := extract P t s

/-- every monomial is restricted: trial and test each sit on side 0 or 1 -/
def Restricted (P : List Mono) : Prop := Bilinear P 2 2

/-- **the four pieces together are the integrand** (no monomial lost, duplicated or invented) -/
theorem split_conservative (P : List Mono) (h : Restricted P) (m : Mono) :
    (piece P 0 0 ++ piece P 1 0 ++ piece P 0 1 ++ piece P 1 1).count m = P.count m := by
  have := blocks_recombine P 2 2 h m
  simp only [allEntries] at this
  have e : (List.range 2).flatMap (fun i => (List.range 2).flatMap (fun j => extract P i j))
      = extract P 0 0 ++ extract P 0 1 ++ extract P 1 0 ++ extract P 1 1 := by
    simp [List.range_succ, List.flatMap_cons, List.flatMap_nil, List.append_assoc]
  rw [e] at this
  simp only [piece, List.count_append] at this ⊢
  omega

/-- **purity**: piece (s,t) contains only monomials whose trial sits on side s and whose test
    sits on side t -/
theorem pieces_pure (P : List Mono) (h : Restricted P) (s t : Nat) (m : Mono) (hm : m ∈ piece P s t) :
    m.trial = some s ∧ m.test = some t := by
  unfold piece at hm
  rw [extract_eq_block P 2 2 t s h] at hm
  simp only [block, List.mem_filter, Bool.and_eq_true, beq_iff_eq] at hm
  exact ⟨hm.2.2, hm.2.1⟩

/-- a monomial belongs to exactly the piece named by its own sides -/
theorem piece_of_mono (P : List Mono) (h : Restricted P) (m : Mono) (hm : m ∈ P) :
    ∃ s, s < 2 ∧ ∃ t, t < 2 ∧ m ∈ piece P s t ∧
      ∀ s' t', m ∈ piece P s' t' → s' = s ∧ t' = t := by
  obtain ⟨t, ht, s, hs, hmem⟩ := blocks_cover P 2 2 h m hm
  refine ⟨s, hs, t, ht, hmem, ?_⟩
  intro s' t' h'
  have := blocks_disjoint P 2 2 t s t' s' h m hmem h'
  exact ⟨this.2.symm, this.1.symm⟩

/-- **linear forms** split into the two side pieces -/
theorem split_linear (P : List Mono) (h : LinearIn P 2) (m : Mono) :
    (extractLin P 0 ++ extractLin P 1).count m = P.count m := by
  have := linear_recombine P 2 h m
  have e : (List.range 2).flatMap (fun i => extractLin P i) = extractLin P 0 ++ extractLin P 1 := by
    simp [List.range_succ, List.flatMap_cons, List.flatMap_nil]
  rw [e] at this
  exact this

/-- reversing the normal on the plus side is an involution on the sign of a monomial with `k`
    normal factors: mapping the plus-side boundary kernel back gives the original piece -/
theorem normal_reversal_involutive (k : Nat) (x : Int) : (-1 : Int) ^ k * ((-1 : Int) ^ k * x) = x := by
  induction k with
  | zero => simp
  | succ k ih =>
    have : (-1 : Int) ^ (k + 1) * ((-1 : Int) ^ (k + 1) * x) = (-1 : Int) ^ k * ((-1 : Int) ^ k * x) := by
      rw [Int.pow_succ]
      generalize (-1 : Int) ^ k = y
      rw [Int.mul_assoc y (-1), ← Int.mul_assoc (-1) (y * -1) x, ← Int.mul_assoc (-1) y (-1),
        Int.mul_comm (-1) y, Int.mul_assoc y (-1) (-1)]
      simp [Int.mul_assoc]
    rw [this, ih]

/-! non-vacuity: κ [u][v] = κ (u⁻v⁻ − u⁻v⁺ − u⁺v⁻ + u⁺v⁺) -/
example : Restricted [⟨0, some 0, some 0⟩, ⟨1, some 1, some 0⟩, ⟨2, some 0, some 1⟩, ⟨3, some 1, some 1⟩] := by
  intro m hm; simp at hm; rcases hm with rfl | rfl | rfl | rfl <;> simp
example : piece [⟨0, some 0, some 0⟩, ⟨1, some 1, some 0⟩, ⟨2, some 0, some 1⟩, ⟨3, some 1, some 1⟩] 0 1
    = [⟨1, some 1, some 0⟩] := by decide

end Sympde.Forms
