/-
  C03 — non-vacuity of `PB.logical_sound`.

  `logical_sound` (Props/C03.lean) is stated for every pair of differential rings related by
  `PB.MapRel` and every `FnTable`.  Here the hypotheses are met by an explicit pair on the
  polynomial ring `PolyC = ℂ[x, y, z, x1, x2, x3]` (Lemmas/PullbackInst.lean) for the
  non-trivial affine mapping of the plane

        F(x1, x2) = (2·x1 + x2, x2),     J = [[2, 1], [0, 1]],     det J = 2,

  for *arbitrary* logical fields `sfv`, `vfv` (polynomials), constants, parameters and every
  assignment `κs`, `κv` of space kinds; the Jacobian is the one the model itself computes
  (`jacOf`).  Then `logical_sound` is applied to concrete expressions (second derivatives, an
  L2 function, the divergence of an H(div) field, the rot of an H(curl) field) and the two
  denotations are identified with explicit polynomial expressions.

  Only property-level statements and non-vacuity examples; the construction is in
  Lemmas/PullbackInst.lean.
-/
import SympdeModel.Props.C03
import SympdeModel.Lemmas.PullbackInst
open MvPolynomial
namespace Sympde.PB
open E PD PBInst

section
variable (sfv : String → PolyC) (vfv : String → Nat → PolyC) (cstv par : String → ℂ)
  (κs κv : String → Kind)

/-- the Jacobian used below is the one the model computes for `F = (2·x1 + x2, x2)` -/
theorem affine2_jacOf :
    jacOf { name := "", d := 2, F := [add [mul [num 2 1, sym "x1"], sym "x2"], sym "x2"] } = .ok jj :=
  jacOf_M2

/-- **Non-vacuity of the hypotheses of `logical_sound`.**  For the affine mapping
    `F = (2·x1 + x2, x2)`, all logical fields, all constants/parameters and all kinds:
    the logical reading `SL` and the physical reading `SP` are related by `MapRel`, and the
    derivative table of the elementary functions holds. -/
theorem affine2_mapRel :
    MapRel (SL sfv vfv cstv par) (SP sfv vfv cstv par κs κv) "" jj Fn κs κv :=
  mapRel sfv vfv cstv par κs κv

theorem affine2_fnTable : FnTable (SL sfv vfv cstv par) := mkRing_fnTable _ _ _ _ _ _

/-- the physical reading really is "the expression at the image point": its coordinates are the
    components of `F`, its operators are `J⁻ᵀ ∇̂`, and `dx x = 1`, `dy x = 0`, `dx y = 0`, `dy y = 1` -/
theorem affine2_physical (k : PolyC) :
    (SP sfv vfv cstv par κs κv).sym "x" = 2 * X .x1 + X .x2 ∧
    (SP sfv vfv cstv par κs κv).sym "y" = X .x2 ∧
    (SP sfv vfv cstv par κs κv).D .x k = half * pderiv .x1 k ∧
    (SP sfv vfv cstv par κs κv).D .y k = -half * pderiv .x1 k + pderiv .x2 k ∧
    (2 : PolyC) * half = 1 :=
  ⟨SP_sym_x .., SP_sym_y .., SP_Dx .., SP_Dy .., two_mul_half⟩

/-- `logical_sound` for this mapping: every expression of the fragment, every result -/
theorem affine2_sound (e r : E) (hf : Frag 2 κs κv e = true) (hn : NonDeg (SP sfv vfv cstv par κs κv) e)
    (h : logical "" jj Fn e = .ok r) :
    ∀ a b, den (SL sfv vfv cstv par) r a b = den (SP sfv vfv cstv par κs κv) e a b :=
  logical_sound _ _ (affine2_fnTable sfv vfv cstv par) "" jj Fn κs κv
    (affine2_mapRel sfv vfv cstv par κs κv) e r hf hn h

end

/-! ### concrete expressions -/

/-- kinds used by the examples: `p ∈ L2`, every other scalar function in `H1`;
    `w ∈ H(div)`, `E ∈ H(curl)`, every other vector function of undefined kind -/
def κs0 (s : String) : Kind := if s = "p" then .l2 else .h1
def κv0 (s : String) : Kind := if s = "w" then .hdiv else if s = "E" then .hcurl else .undef

section
variable (sfv : String → PolyC) (vfv : String → Nat → PolyC) (cstv par : String → ℂ)

/-- `x · ∂x ∂y u`, `u ∈ H1`: the transformed expression exists and both readings are
    `(2·x1 + x2) · ½ ∂̂₁(-½ ∂̂₁ û + ∂̂₂ û)` -/
theorem affine2_example_second_derivative :
    ∃ r, logical "" jj Fn (mul [sym "x", pd .x (pd .y (sf "u" .h1))]) = .ok r ∧
      ∀ a b, den (SL sfv vfv cstv par) r a b
          = den (SP sfv vfv cstv par κs0 κv0) (mul [sym "x", pd .x (pd .y (sf "u" .h1))]) a b ∧
        den (SL sfv vfv cstv par) r a b
          = (2 * X .x1 + X .x2) * (half * pderiv .x1 (-half * pderiv .x1 (sfv "u") + pderiv .x2 (sfv "u"))) := by
  refine ⟨_, rfl, fun a b => ?_⟩
  have key := affine2_sound sfv vfv cstv par κs0 κv0 (mul [sym "x", pd .x (pd .y (sf "u" .h1))]) _
    (by decide) (by simp [NonDeg, NonDegList]) rfl a b
  refine ⟨key, ?_⟩
  rw [key]; clear key
  simp only [den, denProd, SP_sym_x, SP_Dx, SP_Dy, SP_sf, sfP, κs0, mul_one]
  simp

/-- the same with a concrete field `û = x1·x2`: both readings are the non-zero polynomial
    `(2·x1 + x2)/2` -/
theorem affine2_example_value :
    ∃ r, logical "" jj Fn (mul [sym "x", pd .x (pd .y (sf "u" .h1))]) = .ok r ∧
      ∀ a b, den (SL (fun _ => X .x1 * X .x2) vfv cstv par) r a b = (2 * X .x1 + X .x2) * half := by
  obtain ⟨r, hr, h⟩ := affine2_example_second_derivative (fun _ => X .x1 * X .x2) vfv cstv par
  refine ⟨r, hr, fun a b => ?_⟩
  rw [(h a b).2]
  simp [Derivation.leibniz, half]

/-- `p · y`, `p ∈ L2`: both readings are `(p̂ / 2) · x2` -/
theorem affine2_example_l2 :
    ∃ r, logical "" jj Fn (mul [sf "p" .l2, sym "y"]) = .ok r ∧
      ∀ a b, den (SL sfv vfv cstv par) r a b
          = den (SP sfv vfv cstv par κs0 κv0) (mul [sf "p" .l2, sym "y"]) a b ∧
        den (SL sfv vfv cstv par) r a b = sfv "p" * half * X .x2 := by
  refine ⟨_, rfl, fun a b => ?_⟩
  have key := affine2_sound sfv vfv cstv par κs0 κv0 (mul [sf "p" .l2, sym "y"]) _
    (by decide) (by simp [NonDeg, NonDegList]) rfl a b
  refine ⟨key, ?_⟩
  rw [key]; clear key
  simp only [den, denProd, SP_sym_y, SP_sf, sfP, κs0, mul_one]
  simp

/-- `∂x w₀ + ∂y w₁`, `w ∈ H(div)` (the divergence written on components): both readings are
    `(∂̂₁ ŵ₀ + ∂̂₂ ŵ₁) / 2` — the contravariant Piola identity `div w = (1/det) div̂ ŵ` -/
theorem affine2_example_hdiv :
    ∃ r, logical "" jj Fn (add [pd .x (idx (vf "w" .hdiv) 0), pd .y (idx (vf "w" .hdiv) 1)]) = .ok r ∧
      ∀ a b, den (SL sfv vfv cstv par) r a b
          = den (SP sfv vfv cstv par κs0 κv0)
              (add [pd .x (idx (vf "w" .hdiv) 0), pd .y (idx (vf "w" .hdiv) 1)]) a b ∧
        den (SL sfv vfv cstv par) r a b
          = half * (pderiv .x1 (vfv "w" 0) + pderiv .x2 (vfv "w" 1)) := by
  refine ⟨_, rfl, fun a b => ?_⟩
  have key := affine2_sound sfv vfv cstv par κs0 κv0
    (add [pd .x (idx (vf "w" .hdiv) 0), pd .y (idx (vf "w" .hdiv) 1)]) _
    (by decide) (by simp [NonDeg, NonDegList]) rfl a b
  refine ⟨key, ?_⟩
  rw [key]; clear key
  have k0 : κv0 "w" = .hdiv := by decide
  simp only [den, denSum, SP_Dx, SP_Dy, SP_vf, vfP, k0, add_zero, map_add,
    Derivation.leibniz, pderiv_two, pderiv_half, smul_eq_mul, mul_zero]
  linear_combination (half * pderiv .x1 (vfv "w" 0)) * two_mul_half

/-- `∂x E₁ − ∂y E₀`, `E ∈ H(curl)` (the scalar curl written on components): both readings are
    `(∂̂₁ Ê₁ − ∂̂₂ Ê₀) / 2` — the covariant Piola identity `rot E = (1/det) rot̂ Ê` -/
theorem affine2_example_hcurl :
    ∃ r, logical "" jj Fn (sub (pd .x (idx (vf "E" .hcurl) 1)) (pd .y (idx (vf "E" .hcurl) 0))) = .ok r ∧
      ∀ a b, den (SL sfv vfv cstv par) r a b
          = den (SP sfv vfv cstv par κs0 κv0)
              (sub (pd .x (idx (vf "E" .hcurl) 1)) (pd .y (idx (vf "E" .hcurl) 0))) a b ∧
        den (SL sfv vfv cstv par) r a b
          = half * (pderiv .x1 (vfv "E" 1) - pderiv .x2 (vfv "E" 0)) := by
  refine ⟨_, rfl, fun a b => ?_⟩
  have key := affine2_sound sfv vfv cstv par κs0 κv0
    (sub (pd .x (idx (vf "E" .hcurl) 1)) (pd .y (idx (vf "E" .hcurl) 0))) _
    (by decide) (by simp [sub, neg, NonDeg, NonDegList]) rfl a b
  refine ⟨key, ?_⟩
  rw [key]; clear key
  have k0 : κv0 "E" = .hcurl := by decide
  simp only [den_sub, den_pd, den_idx_vf, SP_Dx, SP_Dy, SP_vf, vfP, k0, pderiv_half_mul, map_add,
    map_neg, neg_mul]
  ring

/-- `∂x (x³)` and `∂y (x³)` (a power of a coordinate, i.e. of a component of the mapping): both
    readings are `3·(2·x1 + x2)²`, resp. `0` -/
theorem affine2_example_pow :
    (∃ r, logical "" jj Fn (pd .x (pow (sym "x") (num 3 1))) = .ok r ∧
      ∀ a b, den (SL sfv vfv cstv par) r a b
          = den (SP sfv vfv cstv par κs0 κv0) (pd .x (pow (sym "x") (num 3 1))) a b ∧
        den (SL sfv vfv cstv par) r a b = 3 * (2 * X .x1 + X .x2) ^ 2) ∧
    (∃ r, logical "" jj Fn (pd .y (pow (sym "x") (num 3 1))) = .ok r ∧
      ∀ a b, den (SL sfv vfv cstv par) r a b
          = den (SP sfv vfv cstv par κs0 κv0) (pd .y (pow (sym "x") (num 3 1))) a b ∧
        den (SL sfv vfv cstv par) r a b = 0) := by
  have hp : ∀ c, pderiv c ((2 * X .x1 + X .x2 : PolyC) ^ 3)
      = 3 * (2 * X .x1 + X .x2) ^ 2 * pderiv c (2 * X .x1 + X .x2) := by
    intro c
    rw [Derivation.leibniz_pow]; simp; ring
  constructor
  · refine ⟨_, rfl, fun a b => ?_⟩
    have key := affine2_sound sfv vfv cstv par κs0 κv0 (pd .x (pow (sym "x") (num 3 1))) _
      (by decide) (by simp [NonDeg, intLit]) rfl a b
    refine ⟨key, ?_⟩
    rw [key]; clear key
    simp only [den, powSem, intLit, SP_sym_x, SP_Dx, hp]
    simp only [map_add, Derivation.leibniz, pderiv_two, pderiv_X_self, pderiv_X_of_ne, smul_eq_mul, mul_zero,
      mul_one, add_zero, ne_eq, reduceCtorEq, not_false_eq_true]
    linear_combination (3 * (2 * X Coord.x1 + X Coord.x2) ^ 2 : PolyC) * two_mul_half
  · refine ⟨_, rfl, fun a b => ?_⟩
    have key := affine2_sound sfv vfv cstv par κs0 κv0 (pd .y (pow (sym "x") (num 3 1))) _
      (by decide) (by simp [NonDeg, intLit]) rfl a b
    refine ⟨key, ?_⟩
    rw [key]; clear key
    simp only [den, powSem, intLit, SP_sym_x, SP_Dy, hp]
    simp only [map_add, Derivation.leibniz, pderiv_two, pderiv_X_self, pderiv_X_of_ne, smul_eq_mul, mul_zero,
      mul_one, add_zero, zero_add, ne_eq, reduceCtorEq, not_false_eq_true]
    linear_combination (-3 * (2 * X Coord.x1 + X Coord.x2) ^ 2 : PolyC) * two_mul_half

end
end Sympde.PB
