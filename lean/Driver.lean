/-
  Line-protocol driver: one request per line on stdin, one response per line on stdout.
  Request:  <MODEL> <sexp> <sexp> ...      Response: ok ... | err ... | bad-op
  Imports only Model/* (core Lean), so it can be built as a native executable.
-/
import SympdeModel.Model.Sexp
import SympdeModel.Model.Exterior
import SympdeModel.Model.PDeriv
import SympdeModel.Model.Lower
import SympdeModel.Model.Calc
import SympdeModel.Model.Norm
import SympdeModel.Model.Forms
import SympdeModel.Model.Linearize
import SympdeModel.Model.Pattern
import SympdeModel.Model.BC
import SympdeModel.Model.Atoms
import SympdeModel.Model.Apply
import SympdeModel.Model.Linear
import SympdeModel.Model.Topology
import SympdeModel.Model.Union
import SympdeModel.Model.Export
import SympdeModel.Model.Memo
import SympdeModel.Model.Broadcast
import SympdeModel.Model.Pullback
import SympdeModel.Model.IntegralMap
import SympdeModel.Model.MatSym
open Sympde

def dispatch (line : String) : String :=
  match Sexp.parseAll line with
  | none => "bad-line"
  | some [] => "bad-line"
  | some (Sexp.atom m :: args) =>
      match m with
      | "C19" => Ext.handle args
      | "C05" => PD.handle args
      | "C01" => Lower.handle args
      | "C02" => Calc.handle args
      | "C11" => Norm.handle args
      | "C06" => Forms.handle args
      | "C09" => Lin.handle args
      | "C20" => Pat.handle args
      | "C18" => BC.handle args
      | "C17" => Atoms.handle args
      | "C10" => Apply.handle args
      | "C08" => Linear.handle args
      | "C13" => Topo.handle args
      | "C14" => USet.handle args
      | "C15" => Export.handle args
      | "C12" => Memo.handle args
      | "C16" => Bcast.handle args
      | "C03" => PB.handle args
      | "C04" => IM.handle args
      | "C02M" => MatSym.handle args
      | _ => "bad-model"
  | some _ => "bad-line"

partial def loop (h : IO.FS.Stream) (out : IO.FS.Stream) : IO Unit := do
  let line ← h.getLine
  if line.isEmpty then return ()
  out.putStrLn (dispatch line)
  loop h out

def main : IO Unit := do
  let i ← IO.getStdin
  let o ← IO.getStdout
  loop i o
  o.flush
