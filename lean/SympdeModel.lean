-- root of the library: every model, lemma and property module
import SympdeModel.Model.Sexp
import SympdeModel.Model.Exterior
import SympdeModel.Lemmas.Exterior
import SympdeModel.Props.C19
