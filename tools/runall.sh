#!/bin/bash
# tools/runall.sh [seed] [tier] [ids...]  — run the registered checks (in parallel, 4 at a time) and summarise
cd "$(dirname "$0")/.."
seed="${1:-0}"; tier="${2:-quick}"; shift; shift
ids="$@"
if [ -z "$ids" ]; then ids=$(python3 -c "import json; print(' '.join(c['property_id'] for c in json.load(open('MANIFEST.json'))['checks']))"); fi
mkdir -p /tmp/runall
run() { p=$1; s=$(date +%s); VERIF_SEED=$seed ./check $p --tier $tier > /tmp/runall/$p.$seed.log 2>&1; rc=$?; e=$(date +%s); echo "$p rc=$rc $((e-s))s $(grep -c '^VIOLATION' /tmp/runall/$p.$seed.log) violations $(grep -c '^KNOWN' /tmp/runall/$p.$seed.log) known"; }
export -f run; export seed tier
echo $ids | tr ' ' '\n' | xargs -P 4 -I{} bash -c 'run {}'
