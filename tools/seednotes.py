#!/usr/bin/env python3
"""tools/seednotes.py — regenerate the section "Seeded changes" of notes/Cxx.md from seeded/*/meta.json"""
import glob, json, os, re
ROOT = os.path.dirname(os.path.dirname(os.path.abspath(__file__)))
HEAD = '## Seeded changes (generated from seeded/*/meta.json)'


def tx(v):
    if isinstance(v, (list, tuple)):
        return ' '.join(tx(x) for x in v)
    if isinstance(v, dict):
        return ' '.join('%s: %s' % (k, tx(x)) for k, x in v.items())
    return str(v)


def main():
    by = {}
    for d in sorted(glob.glob(os.path.join(ROOT, 'seeded', 'C*-*')), key=lambda p: (p.split('/')[-1].split('-')[0], int(p.split('-')[-1]))):
        sid = os.path.basename(d)
        try:
            m = json.load(open(os.path.join(d, 'meta.json')))
        except Exception:
            m = {}
        by.setdefault(sid.split('-')[0], []).append((sid, m))
    for pid, seeds in by.items():
        path = os.path.join(ROOT, 'notes', pid + '.md')
        if not os.path.exists(path):
            continue
        s = open(path).read()
        i = s.find(HEAD)
        if i >= 0:
            s = s[:i].rstrip('\n') + '\n'
        lines = ['', HEAD, '']
        for sid, m in seeds:
            summ = re.sub(r'\s+', ' ', tx(m.get('summary', m.get('description', ''))))[:160]
            h = m.get('history')
            if h:
                lines.append('* `%s` — %s **History:** %s' % (sid, summ, re.sub(r'\s+', ' ', tx(h))))
            else:
                by_other = m.get('detected_by')
                lines.append('* `%s` — %s %s' % (sid, summ, ('Detected by %s.' % by_other) if by_other else 'Detected by the check as it stood.'))
        open(path, 'w').write(s + '\n'.join(lines) + '\n')


if __name__ == '__main__':
    main()
