#!/bin/bash
# tools/final.sh [seed]  — full quick run of every registered check on /repo (with build + audit), then validation of
# MANIFEST.json and of every evidence file against the schemas; prints what is wrong, exits 0 if nothing is
cd "$(dirname "$0")/.."
seed="${1:-1}"
tools/runall.sh $seed quick | tee /tmp/final_runall.log
python3-vt - <<'PY'
import json, glob, sys, jsonschema
bad = 0
m = json.load(open('MANIFEST.json'))
jsonschema.validate(m, json.load(open('/root/.vp/MANIFEST.schema.json')))
es = json.load(open('/root/.vp/EVIDENCE.schema.json'))
for c in m['checks']:
    f = c['evidence_file']
    try:
        e = json.load(open(f))
        jsonschema.validate(e, es)
        cov = e['coverage']
        if not cov.get('obligations') or cov.get('obligations') != cov.get('discharged'):
            print('EVIDENCE', f, 'obligations', cov.get('obligations'), 'discharged', cov.get('discharged')); bad += 1
    except Exception as ex:
        print('EVIDENCE', f, type(ex).__name__, str(ex)[:200]); bad += 1
for line in open('/tmp/final_runall.log'):
    if ' rc=0 ' not in line or ' 0 violations' not in line:
        print('CHECK', line.strip()); bad += 1
print('final: %d problem(s)' % bad)
sys.exit(1 if bad else 0)
PY
