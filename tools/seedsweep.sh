#!/bin/bash
# tools/seedsweep.sh [ids...] — re-run the check of every stored seeded change (seeded/<id>/patch.diff) against a
# scratch worktree of /repo HEAD with the patch applied; prints "<id> caught|MISSED|no-apply (detected_by ...)".
# Properties whose check regenerates Lean files (C01 C11 C12 C16) are run one after the other and followed by a
# restoring run on /repo; the others run 5 at a time.
cd "$(dirname "$0")/.."
ids="$@"; [ -z "$ids" ] && ids=$(ls seeded | sort -t- -k1,1 -k2,2n)
one() {
  id=$1; pid=${id%%-*}; wt=/tmp/ss-$id
  other=$(python3 -c "import json,sys; print(json.load(open('seeded/$id/meta.json')).get('detected_by_check',''))" 2>/dev/null)
  [ -n "$other" ] && pid=$other
  git -C /repo worktree remove --force $wt >/dev/null 2>&1
  git -C /repo worktree add -f $wt HEAD >/dev/null 2>&1 || { echo "$id cannot-create-worktree"; return; }
  if ! git -C $wt apply /verif/seeded/$id/patch.diff 2>/dev/null && ! git -C $wt apply -3 /verif/seeded/$id/patch.diff 2>/dev/null; then echo "$id no-apply"; git -C /repo worktree remove --force $wt >/dev/null 2>&1; return; fi
  SYMPDE_REPO=$wt timeout 3000 ./check $pid --skip-build > /tmp/ss-$id.log 2>&1; rc=$?
  v=$(grep -c '^VIOLATION' /tmp/ss-$id.log); n=$(grep -c 'no-failing-input-found' /tmp/ss-$id.log)
  if [ $rc -eq 1 ] && [ $v -gt 0 ]; then r=caught; [ $n -eq $v ] && r="caught(no-failing-input)"; else r="MISSED(rc=$rc)"; fi
  echo "$id $r by=$pid"
  git -C /repo worktree remove --force $wt >/dev/null 2>&1
}
export -f one
gen=""; par=""
for id in $ids; do case ${id%%-*} in C01|C11|C12|C16) gen="$gen $id";; *) par="$par $id";; esac; done
echo $par | tr ' ' '\n' | grep . | xargs -P 5 -I{} bash -c 'one {}'
for id in $gen; do one $id; done
for p in C01 C11 C12 C16; do echo "$gen" | grep -q "$p-" && ./check $p --skip-build >/dev/null 2>&1; done
git -C /repo worktree prune
