#!/bin/bash
# tools/seedtest.sh <seed dir, e.g. /tmp/seed-out/C19-1> [tests...]
# verifies a seeded change (demo PASS on clean, FAIL with patch, tests pass) in a scratch worktree and runs the
# property's check against the patched tree; prints one summary line and copies the seed to /verif/seeded/
d="$1"; shift
id=$(basename "$d"); pid=${id%%-*}
wt=/tmp/sv-$id
git -C /repo worktree remove --force $wt >/dev/null 2>&1
git -C /repo worktree add -f $wt HEAD >/dev/null 2>&1 || { echo "$id: cannot create worktree"; exit 2; }
cd $wt
clean=$(/venv/bin/python $d/demo.py >/tmp/sv-$id.clean.log 2>&1; echo $?)
if ! git apply $d/patch.diff 2>/tmp/sv-$id.apply.log; then echo "$id: patch does not apply ($(head -1 /tmp/sv-$id.apply.log))"; cd /; git -C /repo worktree remove --force $wt; exit 3; fi
mut=$(/venv/bin/python $d/demo.py >/tmp/sv-$id.mut.log 2>&1; echo $?)
tests="$@"
trc=skipped
if [ -n "$tests" ]; then /venv/bin/python -m pytest -q -p no:cacheprovider -x $tests >/tmp/sv-$id.tests.log 2>&1; trc=$?; fi
cd /verif
SYMPDE_REPO=$wt timeout 3000 ./check $pid > /tmp/sv-$id.check.log 2>&1; crc=$?
viol=$(grep -c '^VIOLATION' /tmp/sv-$id.check.log)
nof=$(grep -c 'no-failing-input-found' /tmp/sv-$id.check.log)
echo "$id: demo clean=$clean mutated=$mut tests=$trc check_rc=$crc violations=$viol no-failing-input=$nof"
mkdir -p /verif/seeded/$id
cp $d/patch.diff $d/demo.py /verif/seeded/$id/
python3 - "$d" "$id" "$pid" "$clean" "$mut" "$trc" "$crc" "$viol" "$nof" <<'PY'
import json,sys
d,id_,pid,clean,mut,trc,crc,viol,nof=sys.argv[1:]
try: meta=json.load(open(d+'/meta.json'))
except Exception: meta={}
meta.update({'property':pid,'verified':{'demo_exit_clean':int(clean),'demo_exit_with_patch':int(mut),'existing_tests_exit_with_patch':trc,
  'how':'scratch worktree of /repo HEAD; demo.py run before and after `git apply patch.diff`; pytest on the listed tests; then `SYMPDE_REPO=<worktree> ./check %s`'%pid},
  'check':{'exit':int(crc),'violation_lines':int(viol),'no_failing_input_found':int(nof)}})
json.dump(meta,open('/verif/seeded/%s/meta.json'%id_,'w'),indent=1)
PY
git -C /repo worktree remove --force $wt >/dev/null 2>&1
