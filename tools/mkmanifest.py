#!/usr/bin/env python3
"""Regenerates MANIFEST.json from the table below (and validates it against the schema)."""
import json
import os

ROOT = os.path.dirname(os.path.dirname(os.path.abspath(__file__)))
ALL = ['C%02d' % i for i in range(1, 21)]

CHECKS = {
    'C19': dict(
        text='Lean 4 theorems over all trees of the exterior-calculus model (Model/Exterior.lean): d(d x) and '
             'delta(delta x) are literally zero for every well-formed argument (eval_isImg + eval_img_isZero => d_d_zero, '
             'delta_delta_zero), d vanishes on every linear combination of top forms, delta on 0-forms, hodge(hodge x) of '
             'every linear combination of forms is again hodge-free with the (-1)^(k(n-k)) signs, degree arithmetic of '
             'infere_type (k+1, k-1, n-k, k+l, refusal of mixed sums). The model is tied to the code by a differential '
             'run on every operator application of random programs, plus an independent oracle on the real API.',
        note='Trusted: Lean kernel (+propext/Classical.choice/Quot.sound), the correspondence harness, sympy Add/Mul '
             'canonicalisation between two applications (predicate preservation asserted on every real output, not proved); '
             'semantic linearity is checked by the oracle, the theorems are syntactic normal-form statements.',
        technique='Lean 4 proof by mutual structural induction on the expression tree + differential correspondence',
        design='6/C19'),
}

NOT_YET = 'check not built yet in this round (design in DESIGN.md section 6); will be claimed when its model, theorems and correspondence exist'


def main():
    checks = []
    for pid in ALL:
        if pid not in CHECKS:
            continue
        c = CHECKS[pid]
        checks.append({
            'property_id': pid,
            'quick_cmd': './check %s --tier quick' % pid,
            'thorough_cmd': './check %s --tier thorough' % pid,
            'evidence_file': 'evidence/%s.json' % pid,
            'replay_cmd_template': './check %s --replay {path}' % pid,
            'engine': 'lean4-model',
            'level_claimed': {'category': 'proof', 'text': c['text'], 'design_ref': c['design']},
            'level_note': c['note'],
            'technique': c['technique'],
        })
    man = {
        'version': 1,
        'setup_cmd': 'cd lean && lake build SympdeModel driver',
        'hooks': {
            'guard': 'SYMPDE_VERIF',
            'enable': 'no hook is needed: every observation point is a return value or a public attribute; the checks set SYMPDE_VERIF=1 anyway',
            'baseline_off_cmd': 'cd /repo && /venv/bin/python -m pytest -ra -q -p no:cacheprovider --timeout=900 --continue-on-collection-errors',
            'source_commits': [],
            'add_only': True,
        },
        'engines': [{
            'name': 'lean4-model', 'path': 'lean/',
            'serves_properties': sorted(CHECKS),
            'kind_free_text': 'Lean 4 library SympdeModel (models, lemmas, property theorems) + native line-protocol driver; Python harness in harness/ runs the regeneration, build, axiom audit, correspondence and oracle',
        }],
        'checks': checks,
        'not_applicable': [{'property_id': p, 'reason': NOT_YET} for p in ALL if p not in CHECKS],
        'notes': 'Entry point ./check <Cxx> --tier quick|thorough. Exit 0 = held, 1 = VIOLATION line printed, 2 = infrastructure error. Known findings: known_findings.json.',
    }
    with open(os.path.join(ROOT, 'MANIFEST.json'), 'w') as f:
        json.dump(man, f, indent=1)
    try:
        import jsonschema
        jsonschema.validate(man, json.load(open('/root/.vp/MANIFEST.schema.json')))
        print('MANIFEST.json valid,', len(checks), 'checks')
    except ImportError:
        print('jsonschema not available; not validated')


if __name__ == '__main__':
    main()
