#!/usr/bin/env python3
"""Regenerates MANIFEST.json from the table below (and validates it against the schema)."""
import json
import os

ROOT = os.path.dirname(os.path.dirname(os.path.abspath(__file__)))
ALL = ['C%02d' % i for i in range(1, 21)]

CHECKS = {
    'C13': dict(
        text='Lean 4 theorems over ALL layouts of the topology model (Model/Topology.lean: Domain.join, get_boundary, '
             'get_subdomain, get_shared_corners, MappedDomain, transcribed branch for branch with the exceptions of the real '
             'code): join_partition (any number of n-cube patches of any dimension, any connection list meeting the decidable '
             'hypotheses "no face used twice, no ordered patch pair declared twice": interiors = patches and external boundary '
             '++ interface sides is a permutation of the duplicate-free list of all faces), join_declared (connectivity = declared '
             'connections entry by entry with names, sides and orientation defaults), join_order_invariant, grid_connections_ok / '
             'grid_partition (every grid or chain in 1D-3D, any periodic closure, any orientations, any selection and order of its '
             'geometric connections satisfies the hypotheses and join succeeds), logical_mirror (logical domain = image under '
             '"strip the mapping", interface by interface in order, itself a partition), mapped_domain_mirror (F(Omega)), '
             'getBoundary_spec / domain_getBoundary_spec (Gamma numbering, ValueError cases), subdomain_spec (by loop invariants: '
             'the sub-domain is the selected patches with the connections among them, every other face boundary), corners_simple / '
             'corners_chain (all layouts without doubly joined corners, all chains and rings: one two-corner group per interface '
             'end). Tied to the code by a differential run on random lattice layouts (join, lookups, sub-domains, corners, '
             'F(Omega), malformed inputs with their exception classes) and checked by an independent lattice-geometry oracle.',
        note='Trusted: Lean kernel (+propext/Classical.choice/Quot.sound), the correspondence harness. Identity of sympde objects '
             'is identity of names (C12): every theorem assumes pairwise different patch names (and |-free names for grids). The '
             'swap branch of join (second connection between the same ordered patch pair) and self-connections are outside the '
             'theorem hypotheses (correspondence only). Corner groups with three or more members (interior / T vertices of 2D grids: '
             'goal corners_grid) are covered by correspondence + oracle, not by a theorem. Union sorting is modelled (stable '
             'insertion sort by str) but theorems are stated up to permutation.',
        technique='Lean 4 proof by induction over connection / patch lists and loop invariants + differential correspondence',
        design='6/C13'),
    'C12': dict(
        text='Lean 4 theorems over ALL histories of the memoisation model (Model/Memo.lean: a table keyed by what ==/hash read, '
             'clear_cache(), cache off): memo_transparent (a function determined by the key is returned exactly, after any '
             'interleaving of calls of any functions, clears and cache switches), memo_leak / memo_transparent_iff (the criterion '
             'is exact), cache_off_transparent, leaks_complete / no_leak_transparent (an identity table without "read but not '
             'compared" attribute makes every field-parametric entry point transparent), identity_table_ok (decided by the kernel '
             'on Gen/Identity.lean, REGENERATED from the live classes on every run: the table leaks exactly in the rows behind the '
             'open findings), canon_perm / canon_iteration_order (order-of-supply and hash-seed independence of every sort-a-set-by-'
             'str site), readonly_history_invisible / writer_is_visible (input immutability). Tied to the code by a correspondence of '
             'the memo model with the real @cacheit on TerminalExpr.eval and by a differential oracle (fresh interpreter states, '
             '5/40 PYTHONHASHSEED values, cache on / cleared / off, permuted supplies, input snapshots).',
        note='Partial in one named respect: the reads column of the identity table, and that sympde entry points are functions of '
             'the listed attributes only, are learnt by differential execution, not derived from the source. History / seed / cache '
             'independence of the real code is observed on 12 recipes, not proved. Open finding: domains (and with them spaces and '
             'functions) are identified by name, so cached results leak between same-named domains of different dimension '
             '(name-reuse:domain); the analogous leak of differential forms was repaired (4920d46).',
        technique='Lean 4 proof (invariant of the memo table over arbitrary histories, decided generated table) + translator by execution + differential execution in forked interpreters',
        design='6/C12'),
    'C14': dict(
        text='Lean 4 theorems over ALL argument lists of the Union model (Model/Union.lean: None filtering, type and dimension '
             'checks, flattening, set + sort by str, degenerate cases; complement; render; iteration as a world of independent '
             'iterators): union_set_semantics (the result lists exactly the members of the arguments, once each, sorted), '
             'union_perm_invariant / union_comm / union_str_perm_invariant (value, refusal and printed form do not depend on the '
             'argument order), union_nest / union_flatten / union_assoc (any nesting of unions flattens, any number and size of '
             'groups), union_idem, union_dup_collapse, union_empty (None) and union_singleton (the member itself), '
             'mixed_dim_refused / non_domain_refused / union_total, complement_spec / complement_members (removes exactly the '
             'given members), iter_independent / iter_each_once (for every sequence of iterator creations and next() calls in any '
             'interleaving each iterator yields every member once, in order, then stops), legacy_shared_index_loses (regression '
             'counterexample for the old shared index). Model tied to sympde.topology.basic.Union by a differential run on every '
             'real Union(...) call of random nested programs and on random operation sequences; independent frozenset oracle.',
        note='Order-related theorems assume str() injective on the members that meet (name hygiene; identity by name is C12) and '
             'that a Union object passed as argument has members of one dimension (proved of every result: union_result_wf). '
             'Trusted: Lean kernel, the harness/serialiser, Python set/sorted/str-comparison = dedup + stable insertion sort on '
             'code-point order (compared on every case).',
        technique='Lean 4 proof (induction on argument lists and operation sequences, canonical-list extensionality) + differential correspondence',
        design='6/C14'),
    'C15': dict(
        text='Lean 4 theorems over ALL exportable domains of the export model (Model/Export.lean: NCube constructors with their '
             'validity checks, todict of Domain / InteriorDomain / Boundary / Union / Connectivity, Domain.from_file through '
             'constructors, Mapping call, get_boundary and Domain.join with its interface-naming, orientation and boundary-complement '
             'rules): roundtrip (fromDict (toDict d) succeeds and equals d up to the insertion order of the connectivity: name, dim, '
             'patches with type, bounds and mapping name, external faces, interfaces with minus face, plus face and orientation - any '
             'number of patches and interfaces, any dimension 1-3 with interfaces, n-cubes without), roundtrip_fields / '
             'roundtrip_interfaces, todict_normalize / todict_idempotent (the second export writes the same dictionary), '
             'exportable_normalize (the re-read domain is exportable again). Tied to the code by a differential run that goes '
             'through real HDF5/YAML files, plus an independent structural oracle (objects and generator specification, byte '
             'comparison of a second export).',
        note='Exportable = valid single NCube patch (plain or mapped) or well-formed multi-patch domain (computable predicate '
             'exportableB, evaluated on every real domain of the run; that Domain.join produces such domains is checked by the '
             'correspondence, not proved). YAML/HDF5 layer and str/int conversions are the identity (trusted, exercised with real '
             'files). The logical twin of all-mapped domains is compared by the oracle only. Open finding: F(Omega) (one mapping '
             'applied to an already joined domain) keeps logical interface names, so its second export differs in the connectivity key.',
        technique='Lean 4 proof (loop invariant of join over the sorted connectivity, canonical-list lemmas shared with C14) + differential correspondence through real files',
        design='6/C15'),
    'C16': dict(
        text='Generated Lean 4 theorems (T1 translator harness/translate/mappings.py, regenerated from the current source on every '
             'run): for each of the 11 catalogue mappings x admissible dimension (15 blocks) the stored symbolic quantities, with '
             'symbolic parameters, are emitted as terms of the shared AST and proved coherent in EVERY differential ring (parameters, '
             'coordinates, sin/cos of coordinates are arbitrary ring elements; no trigonometric identity is used): '
             'jac_is_derivative_* (stored J_ij = D_xj of the stored expression i, via the proved model of sympy.diff sdiff_sound), '
             'inv_is_inverse_* (J . Jinv = 1 under the explicit hypothesis that the denominators of the stored inverse are '
             'invertible), metric_is_gram_* (G = J^T J), metric_det_is_det_* (stored det = det G). Method: Frac.asFrac turns every '
             'expression into a fraction n/d with invertible d (asFraction_sound, proved once by structural induction) and each '
             'obligation becomes a polynomial identity closed by ring (Czarny: grind with square-root facts). Plus a model of numpy '
             'broadcasting as lambdify_sympde uses it: broadcast_shape (output shape = component shape ++ broadcast of the input '
             'shapes, whatever variables each component depends on), refusal, commutativity, associativity, idempotence. Tied to '
             'the code by a correspondence run (shape model, sdiff model vs stored Jacobians of catalogue and user mappings) and an '
             'oracle (sympy differentiation + 50-digit evaluation; callable mapping values and shapes at points and arrays).',
        note='Partial in named respects: floating-point accuracy of the callable mapping is observed (tolerance 1e-10 relative, '
             'stated), not proved; for CzarnyMapping metric_det_is_det and inv_is_inverse are stated in comments only (the '
             'cross-multiplied identities with square roots are beyond ring/grind within minutes) and are covered by the oracle; '
             'its jac/metric theorems assume the square-root facts Czarny_2_Rad. jac_is_derivative assumes FnTable (derivative '
             'table of sin, cos, ...). Trusted: Lean kernel (+propext/Classical.choice/Quot.sound), the T1 translator/serialiser, '
             'the correspondence harness, sympy/mpmath for the 50-digit reference.',
        technique='Lean 4 generated table theorems (fractions + ring identities) + broadcasting model + differential correspondence',
        design='6/C16'),
    'C19': dict(
        text='Lean 4 theorems over all trees of the exterior-calculus model (Model/Exterior.lean): d(d x) and '
             'delta(delta x) are literally zero for every well-formed argument (eval_isImg + eval_img_isZero => d_d_zero, '
             'delta_delta_zero), d vanishes on every linear combination of top forms, delta on 0-forms, hodge(hodge x) of '
             'every linear combination of forms is again hodge-free with the (-1)^(k(n-k)) signs, degree arithmetic of '
             'infere_type (k+1, k-1, n-k, k+l, constant multiples keep the degree (infer_cmul), refusal of mixed sums). '
             'Constant coefficients are numbers, Constants and powers of those (c*c = c**2; repo fix 5022685, former '
             'finding C19-coef-pow): every theorem covers products with such factors, and eval_coef_zero, eval_smul, '
             'eval_pow_smul, hodge_hodge_cmul state the coefficient laws literally. The model is tied to the code by a '
             'differential run on every operator application of random programs (coefficient powers are ordinary '
             'generated inputs), plus an independent oracle on the real API.',
        note='Trusted: Lean kernel (+propext/Classical.choice/Quot.sound), the correspondence harness, sympy Add/Mul '
             'canonicalisation between two applications (predicate preservation asserted on every real output, not proved); '
             'semantic linearity is checked by the oracle, the theorems are syntactic normal-form statements. Outside the '
             'theorems (hypothesis WF): a product of coefficients only, on which d/delta/hodge return the product itself '
             '(d(2*c) = 2*c, since the fix also d(c**2*e**2)); powers whose exponent is a sum or product (c**(e+1)) are '
             'not coefficients for the code nor for sympde.calculus.core.is_constant and are not generated.',
        technique='Lean 4 proof by mutual structural induction on the expression tree + differential correspondence',
        design='6/C19'),
}

CHECKS['C05'] = dict(
    text='Lean 4 theorem dEval_sound: for every expression tree of the supported scalar fragment (numbers, constants, '
         'coordinates, functions, vector components, derivative chains, n-ary sums and products, integer / rational / '
         'constant / variable powers, quotients, elementary functions of coordinate expressions) and every operator '
         'dx..dx3, whenever the model of DifferentialOperator.eval returns a value, that value denotes D(argument) in '
         'every commutative Q-algebra with commuting derivations (hence for all smooth functions and points); '
         'corollaries: linearity, Leibniz, vanishing on constants, entry-wise action on vectors/matrices, order '
         'independence (semantic for all operators, syntactic canonical form for logical ones), refusal of '
         'unsupported nodes; the model of sympy.diff used for function-free arguments is proved sound too. The model '
         'is tied to the code by a differential run on random trees and an oracle instantiating functions by '
         'explicit expressions and comparing with sympy.diff.',
    note='Trusted: Lean kernel (+propext/Classical.choice/Quot.sound); that smooth functions form a DRing (Schwarz) and '
         'the classical derivative of real powers (a law of the structure); the correspondence harness and sympy '
         'Add/Mul/Pow canonicalisation (used to compare model output with the implementation modulo ring axioms).',
    technique='Lean 4 proof by mutual structural induction (differential-ring semantics) + differential correspondence',
    design='6/C05')

CHECKS['C20'] = dict(
    text='Lean 4 theorems about a branch-for-branch model of expand_name_patterns and element_of/elements_of '
         '(Model/Pattern.lean, strings as List Char, a hand matcher for exactly the _range regex): expand_spec - for '
         'every pattern of an explicit grammar (names separated by commas and/or blanks, padding, trailing comma; each '
         'name literal text interleaved with numeric a:b / :b and alphabetic x:y / :y ranges, optionally parenthesised) '
         'the result is the independent denotation (ranges enumerate a..b-1 in decimal resp. the letters x..y inclusive '
         'in a..zA..Z, items are concatenation-products with the first range varying slowest, names are concatenated in '
         'order) in the shape decided by seq / trailing comma / expanded range / number of names; length and order '
         'formulas; expand_escaped - a name written with the escapes backslash-comma/colon/blank expands to the single '
         'name they stand for (invariant over the three turns of the marker loop); expand_errors - for every string and seq argument the exact conditions of "no symbols given", '
         '"missing symbol between commas", the TypeError on a non-bool seq, the dead "missing symbol" check, and that '
         'every other failure is a ValueError raised by a colon-bearing piece ("missing end range" iff it ends with the '
         'colon); containers are expanded item-wise without seq, keeping their type; element_shape / elements_shape - '
         'names, nesting, container type and component space of every created function for scalar, vector and product '
         'spaces (zip semantics); element_of_spec - for EVERY string, element_of on a scalar/vector space succeeds iff '
         'the expansion is exactly one bare name and then creates the function of that expanded name, refuses a '
         'container (several names, trailing comma, range) with ValueError and passes every error of the expansion on; '
         'element_of_layout / element_of_escaped / element_of_blank - on the grammar (one name, padding dropped, two '
         'blank-separated names refused), for escaped names (u\\ v is named "u v") and for empty / all-blank patterns '
         '("no symbols given"). The model is tied to the code by a three-way differential run (model vs '
         'expand_name_patterns vs sympy.symbols) including the scanner against re.split with the regex extracted from '
         'the source by ast, element_of / elements_of on scalar, vector and product spaces with single names holding '
         'blanks, escaped blanks/commas/colons, padding, empty and all-blank patterns, and an oracle with sympy.symbols '
         'as reference plus expectations that follow from the construction of the pattern alone.',
    note='Partial in one named respect: that the implementation agrees with sympy.symbols is established by correspondence '
         'and oracle only (sympy\'s source is not modelled a second time). Escapes are in the model and in the '
         'correspondence; expand_spec is stated for backslash-free patterns plus a separate theorem for escaped names. '
         'Trusted: Lean kernel (+propext/Classical.choice/Quot.sound), the harness, Python str/int/re primitives as '
         'modelled (ASCII int(), str.isspace table). One open finding (C20-container-seq-nesting): for a list/tuple of '
         'patterns seq is not passed on to the items (source comment "seq is ignored"; sympy propagates it), so '
         'expand_name_patterns([\'x\',\'y\'], seq=True) keeps bare names where sympy nests 1-tuples - same names, '
         'elements_of relies on it, not repaired; witness theorem container_seq_witness, reported as KNOWN-FINDING on every '
         'run; on random containers nesting is compared with symbols(names), flattened names with symbols(names, seq=seq).',
    technique='Lean 4 proof by induction on the pattern grammar (scanner correctness, denotational semantics) + three-way differential correspondence',
    design='6/C20')

CHECKS['C18'] = dict(
    text='Lean 4 theorems about a branch-for-branch model of EssentialBC.__new__ and Equation.__new__ (Model/BC.lean): '
         'classify_sound / classify_complete - the constructor accepts exactly the four admitted shapes u, u[i], u.n, '
         'grad(u).n (Dot in either argument order) and stores exactly the prescribed order, unknown, constrained '
         'components and normal flag; bad_lhs_refused; expand_faces - for every list of conditions on trial functions the '
         'equation holds, in declaration order, one condition per face of each declared boundary (order of the union\'s '
         'members kept) with identical lhs, rhs, order, unknown, components and normal flag; position_is_index - the '
         'stored position is the index of the first trial function equal to the unknown; non_trial_refused (also through '
         'Equation); lhs_rhs_kept; length formula; history_independent / build_keeps_callers / positions_survive_history - '
         'in an operation-sequence model with a heap of mutable condition objects, building further equations from the '
         'same condition objects (other trial lists) and repositioning the caller\'s objects never changes the entries of an '
         'equation built earlier nor, for constructions, the caller\'s objects; aliased_breaks_history - the variant that '
         'stores the caller\'s single-face condition violates this. Tied to the code by a differential run on random systems (1-4 '
         'scalar/vector unknowns of all space kinds, unions of 1-6 faces, malformed left-hand sides, wrong argument types) '
         'and an oracle comparing equation.bc entry by entry with the declared conditions, including multi-step histories '
         '(2-3 equations with permuted / extended trial lists from shared EssentialBC objects, all attributes of all earlier '
         'equations and of the caller\'s objects re-read after every step, in the model and on the code).',
    note='Trusted: Lean kernel (+propext/Classical.choice/Quot.sound), the harness; two modelled facts about Dot.__new__ '
         '(orders its arguments by str; raises TypeError on an indexed function) asserted by the correspondence; functions '
         'compare by class and name (sympy). constraint= and NewtonIteration are not modelled. One defect repaired (commit 0e602cd: u.n refused on Hdiv/Hcurl/L2).',
    technique='Lean 4 proof by case analysis on the left-hand-side shapes and induction on the condition list + differential correspondence',
    design='6/C18')

CHECKS['C17'] = dict(
    text='Lean 4 theorems about a model (Model/Atoms.lean, over the shared expression AST) of SymbolicExpr.eval and of '
         'find/sort_partial_derivatives, get_index_(logical_)derivatives(_atom), get_max_(logical_)partial_derivatives: '
         'symName_order_invariant - derivatives of one kind at the head of a chain may be applied in any order, same '
         'symbol; symName_pure / symName_atom / symName_blocks - the symbol of a chain (any number of blocks of physical / '
         'logical derivatives) over a function or vector component is name[_component] followed by one _code per block, '
         'the code being x^a y^b z^c resp. (x1)^a (x2)^b (x3)^c of the multi-index; symName_injective - under the explicit '
         'hypothesis Hygienic (no function name is another name followed by a component and/or derivative code) two '
         'chains get the same name IFF function, component and all multi-indices coincide; hygiene_needed (the '
         'hypothesis is necessary), prefixFree_hygienic (decidable sufficient condition), collision_u_x / collision_F_0 '
         '(counterexample theorems of the two open findings); symbolic_hom - commutes with sums, products, powers (base '
         'and exponent), matrices, tuples, elementary functions; symbolic_matrix_entries / symbolic_matrix_entry / '
         'symbolic_matrix_shape / symbolic_tuple_entries - the conversion of an r x c matrix (any shape, square or not) '
         'succeeds iff every entry converts and is the r x c matrix whose entry (i,j) is the conversion of entry (i,j) '
         '(never another shape, no re-flow), likewise item by item for tuples; maxOrders_eq_true(_for) / maxOrders_ge_true - for '
         'every kernel whose chains are applied to functions or components, the reported maximal order per direction, '
         'overall or for one function, physical or logical, EQUALS the true maximum defined independently by a full '
         'traversal (inside functions, exponents, matrices, through blocks of the other kind). Tied to the code by a '
         'differential run on random kernels (SymbolicExpr, sort_partial_derivatives, get_index_*_atom, get_max_*) '
         'and an oracle that re-traverses the real tree, compares symbols of pools of chains pairwise, and converts '
         'matrices of every shape up to 4x4 (rows, columns, rectangular blocks, both matrix classes) and tuples / lists '
         'assembled from explicit entry descriptions, comparing shape and every entry with a result assembled from the '
         'descriptions alone.',
    note='Four defects repaired (commits 53c782f, 6f3e6bc, cc04533, 4a16dc0: chains inside functions/exponents/matrices '
         'ignored; mixed chains attributed to no function; exponents not converted; outer block of a mixed chain dropped '
         'from the name); two open findings (un-hygienic names u_x, F_0). Trusted: Lean kernel '
         '(+propext/Classical.choice/Quot.sound), the harness and shared serialiser, sympy Add/Mul/Pow canonicalisation of '
         'the model output; functions are identified by name (and space kind in the model); interface operators '
         '(minus/plus), mapping components and unevaluated derivatives of non-functions are outside the fragment (`canon`).',
    technique='Lean 4 proof by (mutual) structural induction on chains and expression trees + differential correspondence',
    design='6/C17')

CHECKS['C01'] = dict(
    text='The component formulas of all dimension-specific classes ({Grad,Curl,Rot,Div,Laplace,Hessian,Bracket}_{1,2,3}d, '
         'their Logical variants, {Dot,Cross,Inner}_{1,2,3}d) are regenerated from the current source on every run by '
         'executing the real classes on generic atoms (Gen/Leaf.lean), and for each well-typed entry a Lean theorem '
         '(Gen/LeafThms.lean, leaf_<Class>_<sig>, 92 theorems, collected in the indexed statement leaf_index) proves that the formula equals the classical component '
         'definition (Sem/DenG.lean) in every differential ring, i.e. for all smooth functions and points; fragment_total '
         'proves that no entry of the supported fragment is missing or raises. The recursive dispatcher of '
         'TerminalExpr.eval is modelled (Model/Lower.lean, using the generated table) and tied to the code by a '
         'differential run on random well-typed trees in dimensions 1-3 on mapped and unmapped domains; an independent '
         'oracle compares the lowered expression, instantiated with explicit functions, with the classical definition. '
         'lower_sound (Props/C01.lean): for every well-typed tree of the fragment (atoms, n-ary sums, products with at most one '
         'non-scalar factor, grad/div/laplace/hessian/curl/rot/dot/cross/inner/bracket nested to any depth), dimension 1-3, on '
         'mapped and unmapped domains, whatever the dispatcher returns denotes the classical meaning of the tree, component by '
         'component, in every differential ring; lower_shape, lower_total (d = 2, 3; lower_total_fails_1d is the proved '
         'counterexample of the open 1-D finding). Powers, elementary functions and interface operators are outside the '
         'theorem and covered by the correspondence.',
    note='Trusted: Lean kernel; the translator (generic execution yields the formula for every argument of that shape: '
         're-checked on compound arguments by the correspondence); classical definitions in Sem/DenG.lean with the repo '
         'convention (grad F)_ij = d_i F_j; sympy Matrix arithmetic is modelled (addV/mulV), not verified.',
    technique='Lean 4 proofs of regenerated formula tables (translator by generic execution) + differential correspondence',
    design='6/C01')

CHECKS['C02'] = dict(
    text='Lean 4 theorems in the classical semantics denG (every differential ring): gradEval_sound — for every scalar '
         'expression tree (sums, n-ary products with numeric / coordinate / function-bearing / non-commutative factors, '
         'integer, constant and variable powers) whatever the model of Grad.eval returns denotes the gradient of the '
         'argument (mutual structural induction, 4-way factor split, product and power rules incl. the log term); rule '
         'identities curl_grad_zero, div_curl_zero, div_scalar_mul, grad_mul, laplace_mul valid for all argument trees; '
         'Props/C02b.lean: the same soundness statement for the other constructors, each for all expressions — '
         'linEval_sound_gen / rotEval_sound / hessianEval_sound, curlEval_sound, divEval_sound (div(fF) rule, div(a×b), '
         'div curl = 0), laplaceEval_sound (product rule), bracketEval_sound, mkBilin_sound (Dot/Cross/Inner/Outer/Convect: '
         'bilinear expansion, coefficients, cross(a,a) = 0) under explicit decidable typing side conditions (BilOK, LapOK, '
         'DivOK, Scal) with non-vacuity examples; structural equality of trees is proved lawful (Lemmas/ExprEq.lean); '
         'Props/C02c.lean: ifaceEval_sound — jump / avg / Dn (no side condition) and minus / plus (Dn applied to leaves) '
         'preserve the two-sided meaning (Sem/DenI.lean: independent interpretations on the two sides, jump = minus − plus, '
         'avg = half sum, Dn = n·∇ per side) for all trees. '
         'All constructors (Dot/Cross/Inner/Outer/Convect, Grad/Curl/Rot/Div/Laplace/Hessian/Bracket, '
         'Jump/Avg/Minus/Plus/Dn) are modelled branch for branch (Model/Calc.lean) and tied to the code by a differential '
         'run on every constructor application of random programs, compared modulo ring axioms and (anti)symmetric '
         'argument order; an independent oracle instantiates functions explicitly (two-sided for interface operators) '
         'and compares with the literal meaning. Soundness theorems of the other constructor models are growth items.',
    note='Trusted: Lean kernel; classical definitions (Sem/DenG.lean); sympy canonicalisation used to compare model and '
         'implementation modulo ring axioms; restrictions to the sides of an interface are ring homomorphisms (oracle).',
    technique='Lean 4 proof by mutual structural induction (differential-ring semantics) + differential correspondence',
    design='6/C02')

CHECKS['C03'] = dict(
    text='Lean 4 theorems on the model of LogicalExpr.eval + PullBack + Covariant + the lowering of the symbolic Jacobian '
         '(Model/Pullback.lean; the mapping is given by its components, symbolic M[i] or explicit expressions; Jacobian, '
         'determinant and adjugate by closed formulas in dimensions 1-3; the model has its own total logical differentiator): '
         'logical_sound — for every terminal physical expression (coordinates, constants, functions of kind H1 / L2 / '
         'undefined, components of vector functions of kind H1 / Hcurl / Hdiv / L2 / undefined, sums, products, integer powers '
         'and quotients, elementary functions, physical derivatives nested to any order), every mapping with invertible '
         'Jacobian and every dimension 1..3, the transformed expression read at a logical point with the fields replaced by '
         'their pull-backs has the value of the original at the image point, in every pair of differential rings related by '
         'the chain rule (MapRel), i.e. for all fields and points; proved by structural induction together with the '
         'invariants (integer powers, non-degeneracy) that close it under repeated differentiation (logical_all, ldiff_all). '
         'The commuting relations behind the operator-level rules are proved as polynomial identities modulo det·δ = 1: '
         'div((J/det)û) = (1/det) div̂ û in 1-D, 2-D, 3-D, curl(J⁻ᵀû) = (1/det) curl̂ û in 2-D and = (J/det) curl̂ û in 3-D, '
         'grad u = J⁻ᵀ ∇̂û (div_rule_sound1/2/3, curl_rule_sound2, curl_rule_sound3_0/1/2, grad_rule_sound) for every Jacobian with '
         'symmetric derivatives; non-vacuity: Props/C03Inst.lean constructs the two differential rings for the affine mapping '
         '(2x̂₁+x̂₂, x̂₂) over polynomials with complex coefficients, proves MapRel and instantiates logical_sound on concrete '
         'expressions (second derivative, L2, Hdiv, Hcurl). Tie: random terminal and generic expressions over symbolic, user-defined polynomial '
         '(orientation preserving and reversing, with symbolic parameters) and catalogue mappings (identity, affine, polar, '
         'target, Czarny, torus, spherical, twisted target; Collela by the oracle only), every space kind, dims 1-3, both '
         'routes named in the property (TerminalExpr∘LogicalExpr and LogicalExpr∘TerminalExpr) compared with the model as '
         'rational functions of the atoms (50-digit evaluation at random atom values); the rule-level requests compare '
         'LogicalExpr(grad/div/curl) with the proved rules. Oracle (independent of the model): explicit mapping and explicit '
         'physical fields, value of the original at F(x̂) against the transformed expression at x̂ with the pulled-back fields.',
    note='Trusted: Lean kernel; the chain rule d_i k = Σ_j (J⁻¹)_ji ∂̂_j k as the meaning of a physical derivative of a function '
         'given in logical coordinates (hypothesis of MapRel, it forces d_i x_k = δ_ik); smooth functions form a differential '
         'ring (symmetric second derivatives); the comparison of implementation and model is numeric at 50 digits on random atom '
         'values (1e-9 when the mapping is written with floating-point literals). The theorem covers integer powers; square roots '
         'in a mapping (Czarny) are handled by the model and the correspondence, not by the theorem. Generic operators other '
         'than the three rules are covered through route B (terminal form) and the oracle.',
    technique='Lean 4 proof (structural induction + polynomial identities) + differential correspondence',
    design='6/C03')

CHECKS['C04'] = dict(
    text='Lean 4 theorems on the model of the Integral branch of LogicalExpr.eval, of JacobianSymbol(mapping, axis) (column '
         'deletion; the 1x1 identity on the end point of a 1-D patch) and of sqrt(det(JᵀJ)) (Model/IntegralMap.lean): in every '
         'commutative ring the Gram determinant of the kept Jacobian columns is (det J)² on the interior of a 1-D, 2-D, 3-D '
         'patch (detGram_domain1/2/3, gram_square2/3), the squared length of the tangent of the remaining direction on a face '
         'of a 2-D patch (detGram_face2: the deleted column is the one of the axis), |t1×t2|² for the two remaining tangents on '
         'a face of a 3-D patch and on a surface in R³ (detGram_face3, detGram_surface, Lagrange identity gram_cross); the '
         'element squares to that determinant (element_sq) and is 1 on a 1-D end point; the transformed integral lives on the '
         'same face (axis, side), its kernel is (transformed integrand)·(element of that region) (transform_spec) and has the '
         'value of the physical integrand times the element (integral_kernel_sound, from C03 logical_sound); an integral over '
         'several patches gives one integral per member, each transformed with the mapping of its own patch '
         '(transformAll_length, transformAll_own_mapping). Tie: kernels of TerminalExpr(LogicalExpr(LinearForm, D), logical D) '
         'on single patches (1-D/2-D/3-D; symbolic, polynomial ±orientation, catalogue and surface mappings; interior and every '
         'face) and on 2-3 patch domains with different mappings per patch (whole domain and whole boundary), compared with the '
         'model: region (patch, axis, side) exactly, kernel as a function of the atoms. Oracle: independent surface element from '
         'the tangents of the restricted mapping (|t|, |t1×t2|, sqrt Gram), explicit fields, evaluated on the region.',
    note='Trusted: Lean kernel; the change-of-variables theorem of analysis (the specification); x^(1/2) read as a square root; '
         'numeric comparison at 50-120 digits. The integrand part is C03.',
    technique='Lean 4 proof (polynomial identities + model of the integral transformation) + differential correspondence',
    design='6/C04')

CHECKS['C11'] = dict(
    text='Lean 4 theorems: the generic integrand assembled by Norm / SemiNorm for kinds l2, h1, h2 and scalar or vector '
         'arguments denotes exactly the classical Sobolev integrand (sum of squares of the components, of all first and '
         'of all second derivatives — Frobenius norms) in every differential ring and dimension '
         '(norm_integrand_scalar, norm_integrand_vector_{l2,h1,h2}, seminorm_integrand_vector_{h1,h2}). The lowered '
         'kernel computed by the model (assembly + Model/Lower.lean + regenerated leaf table) is compared with '
         'TerminalExpr(Norm(...)) on random error expressions, dims 1-3; the oracle compares the real kernel, '
         'instantiated, with the explicit Sobolev formula.',
    note='Trusted: Lean kernel. The kernel itself is now proved: norm_kernel_sound_scalar / norm_kernel_sound_vector (Props/C11.lean) '
         'compose the assembly theorems with C01 lower_sound — whatever Norm.kernel returns denotes the classical Sobolev '
         'integrand, all six kind x norm/semi-norm combinations, d = 1-3, physical and logical operators (error expressions '
         'with powers / elementary functions are outside the theorem and covered by correspondence + oracle); the logical '
         'route of an evaluated kernel on mapped domains is checked by the oracle (mapped_norm_cases) and by C03/C04.',
    technique='Lean 4 proof (classical semantics) + differential correspondence',
    design='6/C11')

CHECKS['C06'] = dict(
    text='Lean 4 theorems on the model of the form branch of TerminalExpr.eval and of _to_matrix_form (Model/Forms.lean: an '
         'integrand is a list of monomials tagged with the scalar test / trial component they contain, a form a list of '
         'integrals over lists of regions): for every bilinear integrand, entry (i,j) computed by zeroing the other '
         'components is exactly the set of monomials coupling test i with trial j (extract_eq_block), a monomial sits in at '
         'most one entry (blocks_disjoint) and in at least one (blocks_cover), and all entries together contain every '
         'monomial exactly as often as the integrand (blocks_recombine, multiset equality for any number of components); '
         'the same for linear forms; the integrands accumulated for a region are exactly those of the integrals whose '
         'domain contains it (group_spec), one kernel per region that occurs, none invented or listed twice '
         '(kernels_regions); a vanishing integrand gives empty entries (zero_form); nonlinear_term_duplicated shows that '
         'bilinearity is needed. Tie: random forms over scalar / vector / product spaces with domain, boundary and union '
         'integrals on one- and two-patch domains; the monomials of the real lowered region integrands are tagged and sent '
         'to the model, whose blocks are compared entry by entry with the real kernels; the oracle checks targets, shape, '
         'recombination and purity on the real kernels.',
    note='Trusted: Lean kernel; sympy expand and the tagging of monomials in the harness; bilinearity (C08) is a hypothesis.',
    technique='Lean 4 proof (list / multiset partition by tags) + differential correspondence on tagged monomials',
    design='6/C06')

CHECKS['C07'] = dict(
    text='Lean 4 theorems (Props/C07.lean, on Model/Forms.lean with the two sides of the interface as index set): for every '
         'restricted bilinear integrand the four pieces (trial side, test side) contain every monomial exactly as often as '
         'the integrand (split_conservative), piece (s,t) contains only monomials with trial on side s and test on side t '
         '(pieces_pure, piece_of_mono), linear forms split into the two side pieces (split_linear), the reversal of the '
         'normal on the plus side is an involution (normal_reversal_involutive). Tie: random DG-type interface forms (jump, '
         'minus/plus, normal vector, constants, restricted coefficients; scalar and vector; 2D/3D): the set of non-empty '
         'pieces predicted by the model from the tagged monomials of the jump-expanded integrand is compared with the '
         'kernels the real lowering returns; the oracle instantiates the two sides with independent concrete fields and '
         'checks that the real pieces (same-side pieces read on their side, plus-side normal reversed) add up to the '
         'integrand.',
    note='Trusted: Lean kernel; two-sided instantiation semantics (restrictions are ring homomorphisms, jump = minus - plus); '
         'Dn and avg are outside the generated fragment (stated in the evidence).',
    technique='Lean 4 proof (partition by side tags) + differential correspondence + two-sided numeric oracle',
    design='6/C07')

CHECKS['C10'] = dict(
    text='Lean 4 theorems about a model (Model/Apply.lean, over the shared expression AST and the simultaneous '
         'replacement of Model/Subst.lean) of BilinearForm.__call__, LinearForm.__call__, the keyword update of free '
         'variables (BasicForm._free_variables_subs) and BilinearForm.is_symmetric: call_self - calling a form on its own '
         'arguments returns its integrals unchanged; call_swap / swap_twice - calling a bilinear form on (tests, trials) '
         'is the leaf-wise exchange of the two argument lists in every integrand, and that exchange is an involution '
         '(hypotheses: arguments are functions, pairwise distinct, as many trials as tests); sequential_differs - one '
         'simultaneous replacement and replacement one pair after the other differ on u*v (the behaviour that was '
         'repaired); call_untouched - a successful call keeps the list of integration domains and is ONE replacement '
         'whose keys are arguments or declared free variables, and which leaves every subterm not containing a key '
         'unchanged; kw_unknown_refused - a keyword that names no free variable is a ValueError for both kinds of '
         'form; sameIntegrals_sound / isSymmetric_sound - a positive verdict of is_symmetric implies that the '
         'exchanged form has the same domains in the same order and that every pair of integrands has equal '
         'denotation in every differential ring (through a verified commutative-ring normaliser, Model/RingEq.lean, '
         'ringEq_sound). Tied to the code by a differential run on random forms (unmapped 2D/3D domains, boundary '
         'integrals, 1-2 arguments per list, compound values, keyword values) and an oracle that recomputes every '
         'call by an independent two-phase placeholder replacement, checks call-self, swap-twice and, whenever '
         'is_symmetric is True, that the form and its exchange agree on explicit functions.',
    note='One defect repaired (commit 2a89618: keyword values were substituted one after the other, before and '
         'separately from the arguments, so a value mentioning another free variable or an argument was substituted '
         'again). Trusted: Lean kernel (+propext/Classical.choice/Quot.sound), harness and shared serialiser, sympy '
         'xreplace = subst (structural equality of the serialised trees), Integral.__eq__ modelled as ringEq '
         '(expand-to-zero) on the integrand; is_symmetric compares integrals position by position after IntAdd '
         'ordering (an IntAdd reordering would give a false negative, never a false positive); the converse of '
         'isSymmetric_sound and the composition law subst_compose are not proved.',
    technique='Lean 4 proof by mutual structural induction (substitution as a leaf map) + verified ring normaliser + differential correspondence',
    design='6/C10')

CHECKS['C08'] = dict(
    text='Lean 4 theorems about a model (Model/Linear.lean) of is_linear_expression and of the verdicts of '
         'LinearForm(...) / BilinearForm(...): substitution of fresh functions l, r and of the constant alpha, '
         're-construction of every changed node (operator constructors of Model/Calc.lean, dx and F[i] on sums and '
         'constant multiples, sympy Add/Mul canonicalisation), comparison by expand-to-zero (verified normaliser '
         'Model/RingEq.lean). accept_sound - if the test accepts an integrand then, in every differential ring, '
         'e[a:=l+r] = e[a:=l] + e[a:=r] and e[a:=alpha l] = alpha e[a:=l] (all arguments jointly), under the stated '
         'hypothesis that re-construction preserves the meaning (ReevalSound); accept_sound_opfree - the same with no '
         'hypothesis on the fragment without vector-calculus operators (sums, products, numeric powers, elementary '
         'functions, partial derivatives, components), where reeval_opfree proves that hypothesis; '
         'reject_sound_const / _power / _selfproduct / _selfproduct_deriv / _nonlinear_fn - for the integrand families '
         'c + u (c != 0), u^m (m >= 2), u*u, u*dx(u), f(u) the model verdict is False, proved through a refuting '
         'interpretation in the polynomial differential ring of Sem/Instances.lean (MvPolynomial over Q with formal '
         'partial derivatives), which also witnesses that the DRing hypotheses of the project are satisfiable. '
         'Product arguments and absent arguments: reject_sound_argfree - for any argument list and any sum of '
         'integrals, one non-zero integral in which no component of the argument occurs gives verdict False (the '
         'integrand is constant in the argument; no early exit), with the instances reject_sound_no_test_function, '
         '_no_trial_function, _no_trial_function_in_one_integral; fresh_functions_distinct - different components of a '
         'product argument, also of the same kind, are replaced by different fresh functions; '
         'reject_sound_component_product / _component_difference / _difference_square / '
         '_component_difference_bilinear - u1*u2, u1*(u1-u2), (v1-v2)^2, u1*(u1-u2)*v are rejected for all names; '
         'shared_tag_accepts_nonlinear - the variant of the test with one tag for all arguments accepts u1*(u1-u2) and '
         '(v1-v2)^2 (why the distinctness matters). Sums: verdict_is_conjunction - the verdict on a sum of integrals '
         'is the conjunction of the verdicts on the integrals; reject_sound_any_integral, '
         'reject_sound_cancel_across_regions - int_Omega(f v + v^2) plus any other integrals is rejected; '
         'lumped_accepts_nonlinear - the variant that adds the integrands of all regions accepts '
         'int_Omega(f v + v^2) + int_Gamma(x v - v^2); cancelling_terms_accepted / cancelling_terms_linear - the whole '
         'integrand is compared after expansion: (v+f)^2 - v^2 - f^2 is accepted (and is linear in every differential '
         'ring), while the term-by-term variant rejects it. Tied '
         'to the code by a differential run of the two constructors on random candidate forms (argument groups '
         's, v, sv, ss, sss, vv, ssv, svv on either side; linear ones incl. differences of same-kind components, and '
         'ones broken by a constant, power, self-product, sin/exp/sqrt, denominator, degree-one ratio, product of two '
         'components, edits that vanish when two same-kind components are identified, integrands or single integrals '
         'without an argument group, non-linear parts that cancel across two regions; linear ones written with '
         'non-linear summands that cancel inside one integrand, or with several floating-point contributions to one '
         'monomial - floats are exchanged as exact rationals; 2D/3D, boundary terms) preceded on every seed by a '
         'fixed corpus of 120 forms, and '
         'an oracle whose ground truth is known by construction and confirmed by instantiating every function (each '
         'component separately) with rich explicit polynomials and testing joint additivity and homogeneity exactly '
         'at rational points; it flags false accepts, false rejects and stray exceptions.',
    note='No defect found. Trusted: Lean kernel (+propext/Classical.choice/Quot.sound), harness and shared '
         'serialiser, harness/inst.py instantiation in the oracle, sympy expand modelled as ring normalisation with '
         'opaque atoms. degree_criterion / reject_sound_full (rejection of EVERY non-linear integrand) are stated as a '
         'commented goal, not proved: outside the listed families the exactness of rejections rests on the '
         'correspondence and the oracle. accept_sound outside the operator-free fragment is conditional on '
         'ReevalSound (gradEval_sound etc. of C02 discharge it per operator, not yet assembled).',
    technique='Lean 4 proof (structural induction, verified ring normaliser, refutation in a concrete polynomial differential ring) + differential correspondence',
    design='6/C08')

CHECKS['C09'] = dict(
    text='Lean 4 theorem gateaux_dual: for every integrand of the terminal scalar fragment (fields, vector components, '
         'derivative chains of any order, n-ary sums and products, natural-number powers, elementary functions) and every '
         'set of (field, direction) pairs, evaluating the integrand over Mathlib\'s dual numbers K[eps]/(eps^2) with '
         'u -> u + eps*du gives the integrand as eps^0 coefficient and, as eps^1 coefficient, exactly what the model of '
         'linearize (Model/Linearize.lean: Leibniz, chain rule, commutation with derivatives and linear / bilinear '
         'operators) returns — in every differential ring. Tie: random nonlinear forms (polynomial, rational, sqrt, '
         'sin/cos/exp of the field and its derivatives; scalar, vector and two fields; domain and boundary integrals; '
         'dims 1-3): the model\'s derivative of every region integrand is compared, after lowering, with the integrand of '
         'the real linearize(l, u, trials=du); the oracle instantiates field, direction and test function explicitly, '
         'perturbs the field by eps*du and differentiates with sympy; fixed corpus: independence of the auxiliary names, '
         'NewtonIteration = (linearize, -l), known shapes.',
    note='Trusted: Lean kernel, Mathlib DualNumber; the Gateaux derivative is the eps-coefficient over the dual numbers with '
         'the first-order Taylor law for elementary functions; generic operators, negative and variable exponents are '
         'covered by model + correspondence + oracle, not by the theorem.',
    technique='Lean 4 proof over dual numbers (structural induction) + differential correspondence + numeric oracle',
    design='6/C09')

NOT_YET = 'check not built yet in this round (design in DESIGN.md section 6); will be claimed when its model, theorems and correspondence exist'


def main():
    checks = []
    for pid in ALL:
        if pid not in CHECKS:
            continue
        c = CHECKS[pid]
        checks.append({
            'property_id': pid,
            'quick_cmd': './check %s --tier quick' % pid,
            'thorough_cmd': './check %s --tier thorough' % pid,
            'evidence_file': 'evidence/%s.json' % pid,
            'replay_cmd_template': './check %s --replay {path}' % pid,
            'engine': 'lean4-model',
            'level_claimed': {'category': 'proof', 'text': c['text'], 'design_ref': c['design']},
            'level_note': c['note'],
            'technique': c['technique'],
        })
    man = {
        'version': 1,
        'setup_cmd': 'cd lean && lake build SympdeModel driver',
        'hooks': {
            'guard': 'SYMPDE_VERIF',
            'enable': 'no hook is needed: every observation point is a return value or a public attribute; the checks set SYMPDE_VERIF=1 anyway',
            'baseline_off_cmd': 'cd /repo && /venv/bin/python -m pytest -ra -q -p no:cacheprovider --timeout=900 --continue-on-collection-errors',
            'source_commits': [],
            'add_only': True,
        },
        'engines': [{
            'name': 'lean4-model', 'path': 'lean/',
            'serves_properties': sorted(CHECKS),
            'kind_free_text': 'Lean 4 library SympdeModel (models, lemmas, property theorems) + native line-protocol driver; Python harness in harness/ runs the regeneration, build, axiom audit, correspondence and oracle',
        }],
        'checks': checks,
        'not_applicable': [{'property_id': p, 'reason': NOT_YET} for p in ALL if p not in CHECKS],
        'notes': 'Entry point ./check <Cxx> --tier quick|thorough. Exit 0 = held, 1 = VIOLATION line printed, 2 = infrastructure error. Known findings: known_findings.json.',
    }
    with open(os.path.join(ROOT, 'MANIFEST.json'), 'w') as f:
        json.dump(man, f, indent=1)
    try:
        import jsonschema
        jsonschema.validate(man, json.load(open('/root/.vp/MANIFEST.schema.json')))
        print('MANIFEST.json valid,', len(checks), 'checks')
    except ImportError:
        print('jsonschema not available; not validated')


if __name__ == '__main__':
    main()
